/* positive control for the TAINT.wide-product rule (C17): a bound test over a
 * product of counts read from a file */
#include <soundswallower/s3file.h>
#include <soundswallower/prim_type.h>
#include <stddef.h>

struct fx_model {
    int32 n_row, n_col;
};

int
fx_product_bad(s3file_t *s, struct fx_model *m, int32 avail)
{
    if (s3file_get(&m->n_row, sizeof(int32), 1, s) != 1)
        return -1;
    if (s3file_get(&m->n_col, sizeof(int32), 1, s) != 1)
        return -1;
    if (m->n_row * m->n_col > avail)
        return -1;
    return 0;
}

int
fx_product_good(s3file_t *s, struct fx_model *m, int32 avail)
{
    if (s3file_get(&m->n_row, sizeof(int32), 1, s) != 1)
        return -1;
    if (s3file_get(&m->n_col, sizeof(int32), 1, s) != 1)
        return -1;
    if ((size_t)m->n_row * m->n_col > (size_t)avail)
        return -1;
    return 0;
}
