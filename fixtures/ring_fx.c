/* Positive controls for the RING and region rules (my code, not the
 * repository's).  Each *_bad function must be reported, each *_good
 * function must not. */
#include <string.h>

struct fx_ring_s {
    int maxlen, pos, n, frame_size;
    short *buf;
    signed char *flags;
};

int fx_ring_bad(struct fx_ring_s *r)
{
    int i = r->pos, end = (r->pos + r->n) % r->maxlen, count;
    count = r->flags[i++];
    while (i != end) {
        count += r->flags[i++];     /* index may equal maxlen here */
        i = i % r->maxlen;
    }
    return count;
}

int fx_ring_good(struct fx_ring_s *r)
{
    int i = r->pos, end = (r->pos + r->n) % r->maxlen, count = 0;
    do {
        count += r->flags[i++];
        i = i % r->maxlen;
    } while (i != end);
    for (i = 0; i < r->maxlen; ++i)
        count += r->flags[i];
    return count;
}

void fx_region_bad(struct fx_ring_s *r, const short *frame)
{
    /* one frame too far: offset may be maxlen */
    memcpy(r->buf + (r->pos + 1) * r->frame_size, frame, sizeof(*r->buf) * r->frame_size);
}

void fx_region_good(struct fx_ring_s *r, const short *frame)
{
    memcpy(r->buf + r->pos * r->frame_size, frame, sizeof(*r->buf) * r->frame_size);
}
