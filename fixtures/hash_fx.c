/* Positive controls for the C20 rules. */
#include <stdlib.h>
struct fx_ent { const char *key; unsigned long len; void *val; struct fx_ent *next; };

void *fx_uaf_bad(struct fx_ent *e)
{
    void *v;
    free(e);
    v = e->val;            /* read after release */
    return v;
}

void fx_uaf_good(struct fx_ent *e)
{
    struct fx_ent *e2;
    for (; e; e = e2) {
        e2 = e->next;
        free(e);
    }
}
