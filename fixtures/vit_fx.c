/* Positive control for the VIT analysis: a 3-state evaluator in the idiom of
 * hmm.c with three seeded faults (A: stale candidate carried into another
 * state's comparison, B: wrong comparison direction, H: history taken from
 * the loser), and a clean twin. */
#include <soundswallower/hmm.h>
#include <limits.h>
#define fx_tprob(i, j) (-tp[(i)*4 + (j)])
#define fx_senscr(i) (-senscore[sseq[i]])

int32 fx_vit_bad(hmm_t *hmm)
{
    int16 const *senscore = hmm->ctx->senscore;
    uint8 const *tp = hmm->ctx->tp[hmm->tmatid][0];
    uint16 const *sseq = hmm->senid;
    int32 s3, s2, s1, s0, t2, t1, t0, bestScore;

    s2 = hmm_score(hmm, 2) + fx_senscr(2);
    s1 = hmm_score(hmm, 1) + fx_senscr(1);
    s0 = hmm_in_score(hmm) + fx_senscr(0);
    bestScore = WORST_SCORE;
    t1 = s2 + fx_tprob(2, 3);
    t2 = s1 + fx_tprob(1, 3);
    if (t1 BETTER_THAN t2) {
        s3 = t1;
        hmm_out_history(hmm) = hmm_history(hmm, 2);
    } else {
        s3 = t2;
        hmm_out_history(hmm) = hmm_history(hmm, 1);
    }
    if (s3 WORSE_THAN WORST_SCORE)
        s3 = WORST_SCORE;
    hmm_out_score(hmm) = s3;
    bestScore = s3;

    t0 = s2 + fx_tprob(2, 2);
    t1 = s1 + fx_tprob(1, 2);
    if (fx_tprob(0, 2) BETTER_THAN TMAT_WORST_SCORE)
        t2 = s0 + fx_tprob(0, 2);       /* A: else t2 is still the state-3 candidate */
    if (t0 BETTER_THAN t1) {
        if (t2 BETTER_THAN t0) {
            s2 = t2;
            hmm_history(hmm, 2) = hmm_in_history(hmm);
        } else
            s2 = t0;
    } else {
        if (t2 WORSE_THAN t1) {          /* B: keeps the smaller of t1, t2 */
            s2 = t2;
            hmm_history(hmm, 2) = hmm_in_history(hmm);
        } else {
            s2 = t1;
            hmm_history(hmm, 2) = hmm_in_history(hmm);   /* H: should be state 1 */
        }
    }
    if (s2 WORSE_THAN WORST_SCORE)
        s2 = WORST_SCORE;
    if (s2 BETTER_THAN bestScore)
        bestScore = s2;
    hmm_score(hmm, 2) = s2;

    t0 = s1 + fx_tprob(1, 1);
    t1 = s0 + fx_tprob(0, 1);
    if (t0 BETTER_THAN t1) {
        s1 = t0;
    } else {
        s1 = t1;
        hmm_history(hmm, 1) = hmm_in_history(hmm);
    }
    if (s1 WORSE_THAN WORST_SCORE)
        s1 = WORST_SCORE;
    if (s1 BETTER_THAN bestScore)
        bestScore = s1;
    hmm_score(hmm, 1) = s1;

    s0 = s0 + fx_tprob(0, 0);
    if (s0 WORSE_THAN WORST_SCORE)
        s0 = WORST_SCORE;
    if (s0 BETTER_THAN bestScore)
        bestScore = s0;
    hmm_in_score(hmm) = s0;
    hmm_bestscore(hmm) = bestScore;
    return bestScore;
}

int32 fx_vit_good(hmm_t *hmm)
{
    int16 const *senscore = hmm->ctx->senscore;
    uint8 const *tp = hmm->ctx->tp[hmm->tmatid][0];
    uint16 const *sseq = hmm->senid;
    int32 s3, s2, s1, s0, t2, t1, t0, bestScore;

    s2 = hmm_score(hmm, 2) + fx_senscr(2);
    s1 = hmm_score(hmm, 1) + fx_senscr(1);
    s0 = hmm_in_score(hmm) + fx_senscr(0);
    bestScore = WORST_SCORE;
    t1 = s2 + fx_tprob(2, 3);
    t2 = s1 + fx_tprob(1, 3);
    if (t1 BETTER_THAN t2) {
        s3 = t1;
        hmm_out_history(hmm) = hmm_history(hmm, 2);
    } else {
        s3 = t2;
        hmm_out_history(hmm) = hmm_history(hmm, 1);
    }
    if (s3 WORSE_THAN WORST_SCORE)
        s3 = WORST_SCORE;
    hmm_out_score(hmm) = s3;
    bestScore = s3;

    t2 = INT_MIN;
    t0 = s2 + fx_tprob(2, 2);
    t1 = s1 + fx_tprob(1, 2);
    if (fx_tprob(0, 2) BETTER_THAN TMAT_WORST_SCORE)
        t2 = s0 + fx_tprob(0, 2);
    if (t0 BETTER_THAN t1) {
        if (t2 BETTER_THAN t0) {
            s2 = t2;
            hmm_history(hmm, 2) = hmm_in_history(hmm);
        } else
            s2 = t0;
    } else {
        if (t2 BETTER_THAN t1) {
            s2 = t2;
            hmm_history(hmm, 2) = hmm_in_history(hmm);
        } else {
            s2 = t1;
            hmm_history(hmm, 2) = hmm_history(hmm, 1);
        }
    }
    if (s2 WORSE_THAN WORST_SCORE)
        s2 = WORST_SCORE;
    if (s2 BETTER_THAN bestScore)
        bestScore = s2;
    hmm_score(hmm, 2) = s2;

    t0 = s1 + fx_tprob(1, 1);
    t1 = s0 + fx_tprob(0, 1);
    if (t0 BETTER_THAN t1) {
        s1 = t0;
    } else {
        s1 = t1;
        hmm_history(hmm, 1) = hmm_in_history(hmm);
    }
    if (s1 WORSE_THAN WORST_SCORE)
        s1 = WORST_SCORE;
    if (s1 BETTER_THAN bestScore)
        bestScore = s1;
    hmm_score(hmm, 1) = s1;

    s0 = s0 + fx_tprob(0, 0);
    if (s0 WORSE_THAN WORST_SCORE)
        s0 = WORST_SCORE;
    if (s0 BETTER_THAN bestScore)
        bestScore = s0;
    hmm_in_score(hmm) = s0;
    hmm_bestscore(hmm) = bestScore;
    return bestScore;
}
