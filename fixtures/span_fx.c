/* positive control for the SPAN rule (C10): text taken from an s3file is not
 * NUL-terminated */
#include <soundswallower/s3file.h>
#include <stdlib.h>
#include <string.h>

int
fx_span_bad(s3file_t *s)
{
    const char *line = s3file_nextline(s);
    if (line == NULL)
        return 0;
    return atoi(line) + (strncmp(line, "##", 2) == 0);
}

int
fx_span_good(s3file_t *s)
{
    const char *line = s3file_nextline(s);
    if (line == NULL)
        return 0;
    if (s->ptr - line >= 2 && strncmp(line, "##", 2) == 0)
        return 1;
    return 0;
}
