#include <soundswallower/decoder.h>
#include <soundswallower/fe.h>
#include <stdio.h>
/* Replay for C10: a window longer than 16384 samples makes the automatic FFT
 * size computation loop forever (the 16-bit size wraps to a negative value). */
int main(void)
{
    config_t *config = config_init(NULL);
    fe_t *fe;
    config_set_float(config, "wlen", 1.1);
    fe = fe_init(config);
    printf("RESULT: %s\n", fe ? "front end created" : "failure reported");
    if (fe) fe_free(fe);
    config_free(config);
    return 0;
}
