/* Replay driver for C17: initialise a decoder on the model directory given as
 * argv[1] and report whether initialisation returned or reported failure.
 * Built with -fsanitize=address together with the library sources; the
 * companion script c17_corrupt.py feeds it damaged copies of the bundled
 * models.  Investigation aid only: the check itself is static. */
#include <soundswallower/decoder.h>
#include <stdio.h>
#include <stdlib.h>
int main(int argc, char **argv)
{
    config_t *config = config_init(NULL);
    decoder_t *d;
    config_set_str(config, "hmm", argv[1]);
    config_set_str(config, "loglevel", "ERROR");
    if (argc > 2) config_set_str(config, "dict", argv[2]);
    if (getenv("PROBE_LDA")) config_set_str(config, "lda", getenv("PROBE_LDA"));
    d = decoder_init(config);
    if (d == NULL) {
        printf("RESULT: init reported failure\n");
        return 0;
    }
    printf("RESULT: init succeeded\n");
    decoder_free(d);
    return 0;
}
