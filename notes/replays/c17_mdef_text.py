#!/usr/bin/env python3
"""Replay aid for the C17 known findings in the text model-definition reader
(src/mdef.c): every E_FATAL there ends the process on a malformed file.  Builds
a five-phone text mdef and one malformed variant per exit site, runs the real
reader (c17_mdef_probe.c) and prints the exit site reached.
usage: c17_mdef_text.py <probe-binary> <scratch-dir>"""
import os, re, subprocess, sys
PROBE, SCRATCH = sys.argv[1], sys.argv[2]
HDR = ["0.3", "3 n_base", "2 n_tri", "20 n_state_map", "15 n_tied_state", "9 n_tied_ci_state", "3 n_tied_tmat", "#"]
BASE = ["AA - - - n/a 0 0 1 2 N", "B - - - n/a 1 3 4 5 N", "SIL - - - filler 2 6 7 8 N"]
TRI = ["AA B SIL b n/a 0 9 10 11 N", "B AA SIL e n/a 1 12 13 14 N"]


def doc(hdr=HDR, base=BASE, tri=TRI):
    return "\n".join(hdr + base + tri) + "\n"


def sub(lst, i, new):
    l = list(lst)
    l[i] = new
    return l

CASES = {
    "intact": doc(),
    "header cut short": "\n".join(HDR[:2]) + "\n",
    "header count not a number": doc(hdr=sub(HDR, 1, "x n_base")),
    "unknown header tag": doc(hdr=sub(HDR, 1, "3 n_foo")),
    "zero base phones": doc(hdr=sub(HDR, 1, "0 n_base")),
    "state map not a multiple": doc(hdr=sub(HDR, 3, "21 n_state_map")),
    "too many base phones": doc(hdr=sub(sub(HDR, 1, "40000 n_base"), 3, "160008 n_state_map")),
    "too many phones": doc(hdr=sub(sub(HDR, 2, "2147483644 n_tri"), 3, "0 n_state_map")),
    "too many senones": doc(hdr=sub(HDR, 4, "40000 n_tied_state")),
    "too many tmats": doc(hdr=sub(HDR, 6, "2147483647 n_tied_tmat")),
    "base phones missing": doc(base=BASE[:1], tri=[]),
    "triphones missing": doc(tri=TRI[:1]),
    "ci senone count inconsistent": doc(hdr=sub(HDR, 5, "8 n_tied_ci_state")),
    "ci senone count too large": doc(hdr=sub(HDR, 5, "12 n_tied_ci_state")),
    "blank base line": doc(base=sub(BASE, 1, "   ")),
    "duplicate base phone": doc(base=sub(BASE, 1, BASE[0])),
    "base context not dashes": doc(base=sub(BASE, 1, "B x - - n/a 1 3 4 5 N")),
    "base filler field missing": doc(base=sub(BASE, 1, "B - - -")),
    "base filler field bad": doc(base=sub(BASE, 1, "B - - - foo 1 3 4 5 N")),
    "tmat id missing": doc(base=sub(BASE, 1, "B - - - n/a x 3 4 5 N")),
    "tmat id too large": doc(base=sub(BASE, 1, "B - - - n/a 7 3 4 5 N")),
    "state mapping missing": doc(base=sub(BASE, 1, "B - - - n/a 1 3 4")),
    "ci senone id too large": doc(base=sub(BASE, 1, "B - - - n/a 1 3 4 12 N")),
    "senone id too large": doc(tri=sub(TRI, 0, "AA B SIL b n/a 0 9 10 99 N")),
    "final N missing": doc(base=sub(BASE, 1, "B - - - n/a 1 3 4 5 X")),
    "text after final N": doc(base=sub(BASE, 1, "B - - - n/a 1 3 4 5 N extra")),
    "blank triphone line": doc(tri=sub(TRI, 0, "   ")),
    "unknown triphone base": doc(tri=sub(TRI, 0, "ZZ B SIL b n/a 0 9 10 11 N")),
    "left context missing": doc(tri=sub(TRI, 0, "AA")),
    "left context unknown": doc(tri=sub(TRI, 0, "AA ZZ SIL b n/a 0 9 10 11 N")),
    "right context missing": doc(tri=sub(TRI, 0, "AA B")),
    "right context unknown": doc(tri=sub(TRI, 0, "AA B ZZ b n/a 0 9 10 11 N")),
    "word position missing": doc(tri=sub(TRI, 0, "AA B SIL")),
    "word position bad": doc(tri=sub(TRI, 0, "AA B SIL x n/a 0 9 10 11 N")),
    "triphone filler field missing": doc(tri=sub(TRI, 0, "AA B SIL b")),
    "triphone filler field mismatch": doc(tri=sub(TRI, 0, "AA B SIL b filler 0 9 10 11 N")),
    "duplicate triphone": doc(tri=sub(TRI, 1, TRI[0])),
    "binary mdef whose first word reads 0.3": None,
}

os.makedirs(SCRATCH, exist_ok=True)
for name, text in CASES.items():
    p = os.path.join(SCRATCH, "mdef_case")
    if text is None:
        data = open("/repo/model/en-us/mdef", "rb").read()
        open(p, "wb").write(b"0.3\n" + data[4:])
    else:
        open(p, "w").write(text)
    r = subprocess.run([PROBE, p], capture_output=True, text=True, errors="replace")
    m = re.search(r'FATAL: "([^"]+)", line (\d+): ([^\n]*)', r.stderr)
    if m:
        out = "process exit %d at %s:%s  %s" % (r.returncode, m.group(1), m.group(2), m.group(3)[:60])
    elif "AddressSanitizer" in r.stderr:
        out = "ASan: " + re.search(r"ERROR: AddressSanitizer: ([^\n]*)", r.stderr).group(1)[:80]
    else:
        out = (r.stdout.strip() or "exit %d" % r.returncode)
    print("%-42s %s" % (name, out))
    os.remove(p)
