#include <soundswallower/hmm.h>
#include <soundswallower/ckd_alloc.h>
#include <stdio.h>
#include <string.h>
/* 3-state HMM, skip 1->3(exit) allowed, skip 0->2 NOT allowed (255 = "zero" prob). */
int main(void){
    uint8 ***tp = (uint8 ***)ckd_calloc_3d(1, 3, 4, sizeof(uint8));
    uint8 m[3][4] = { { 10, 20, 255, 255 },   /* 0->0,0->1, 0->2 disallowed */
                      { 255, 10, 20, 5 },      /* 1->1,1->2, 1->3 (exit) allowed, cheap */
                      { 255, 255, 10, 20 } };
    memcpy(tp[0][0], m, sizeof(m));
    uint16 *sseq[1]; uint16 s0[3] = {0,1,2}; sseq[0] = s0;
    int16 senscr[3] = {1, 1, 1};
    hmm_context_t *ctx = hmm_context_init(3, tp, senscr, sseq);
    hmm_t h; hmm_init(ctx, &h, 0, 0, 0);
    hmm_enter(&h, 0, 42, 0);           /* in_score 0, history 42 */
    /* make state 1 strongly active with its own history 7, state 2 weak with history 9 */
    h.score[1] = -100; h.history[1] = 7;
    h.score[2] = -100000; h.history[2] = 9;
    int32 best = hmm_vit_eval(&h);
    /* True max-plus for state 2: max( s2+tp22 = -100000-1-10, s1+tp12 = -100-1-20 = -121 ) ; 0->2 not allowed */
    printf("best=%d score2=%d hist2=%d (expected score2=-121 hist2=7)\n", best, h.score[2], h.history[2]);
    printf("out=%d outhist=%d\n", h.out_score, h.out_history);
    return 0; }
