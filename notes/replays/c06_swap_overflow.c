/* Replay for C06 (byte-swapped input): with input_endian different from the
 * host the int16 path must give the same frames as the float32 path.  The
 * samples are handed over byte-swapped (int16 and float32 alike), whole and in
 * blocks of 200 samples, which go through the carry-over buffer.
 * Exit status: 0 = all identical, 1 = some run differs, 2 = setup problem. */
#include <stdio.h>
#include <stdlib.h>
#include <string.h>

#include <soundswallower/ckd_alloc.h>
#include <soundswallower/configuration.h>
#include <soundswallower/err.h>
#include <soundswallower/fe.h>

#define MAXFR 400

static int
feed(fe_t *fe, int16 *si, float32 *sf, size_t n, const size_t *chunks,
     size_t nchunks, size_t block, int use_float, mfcc_t **cep)
{
    size_t pos = 0, k = 0;
    int nfr = 0;

    fe_start(fe);
    while (pos < n) {
        size_t c = k < nchunks ? chunks[k] : block;
        size_t left;
        ++k;
        if (c > n - pos)
            c = n - pos;
        left = c;
        while (left > 0) {
            int rv;
            if (use_float) {
                float32 *p = sf + pos + (c - left);
                rv = fe_process_float32(fe, &p, &left, cep + nfr, MAXFR - nfr);
            } else {
                int16 *p = si + pos + (c - left);
                rv = fe_process_int16(fe, &p, &left, cep + nfr, MAXFR - nfr);
            }
            if (rv < 0)
                return -1;
            nfr += rv;
        }
        pos += c;
    }
    nfr += fe_end(fe, cep + nfr, MAXFR - nfr);
    return nfr;
}

static int
compare(const char *what, mfcc_t **ref, int nref, mfcc_t **out, int nout, int dim)
{
    int f, j;

    if (nref != nout) {
        printf("%-34s: %d frames, reference has %d  -> DIFFERENT\n",
               what, nout, nref);
        return 1;
    }
    for (f = 0; f < nref; ++f) {
        if (memcmp(ref[f], out[f], dim * sizeof(mfcc_t)) != 0) {
            printf("%-34s: frame %d differs -> DIFFERENT\n", what, f);
            printf("    reference:");
            for (j = 0; j < 5; ++j)
                printf(" %9.4f", ref[f][j]);
            printf(" ...\n    chunked:  ");
            for (j = 0; j < 5; ++j)
                printf(" %9.4f", out[f][j]);
            printf(" ...\n");
            return 1;
        }
    }
    printf("%-34s: %d frames, identical\n", what, nout);
    return 0;
}

int
main(void)
{
    static const size_t split[] = { 400, 200 };
    config_t *config;
    fe_t *fe;
    FILE *fh;
    int16 *si;
    float32 *sf;
    size_t n, i;
    mfcc_t **ref, **out;
    int nref, nout, dim, bad = 0;

    err_set_loglevel(ERR_ERROR);
    if ((fh = fopen("tests/data/goforward.raw", "rb")) == NULL) {
        perror("tests/data/goforward.raw");
        return 2;
    }
    fseek(fh, 0, SEEK_END);
    n = ftell(fh) / sizeof(int16);
    fseek(fh, 0, SEEK_SET);
    si = malloc(n * sizeof(*si));
    sf = malloc(n * sizeof(*sf));
    if (fread(si, sizeof(*si), n, fh) != n)
        return 2;
    fclose(fh);
    for (i = 0; i < n; ++i) {
        unsigned char *b, t;
        sf[i] = (float32)si[i] / 32768.0f;
        b = (unsigned char *)&sf[i];
        t = b[0]; b[0] = b[3]; b[3] = t; t = b[1]; b[1] = b[2]; b[2] = t;
        b = (unsigned char *)&si[i];
        t = b[0]; b[0] = b[1]; b[1] = t;
    }

    config = config_init(NULL);
    config_set_str(config, "input_endian", "big");
    if ((fe = fe_init(config)) == NULL)
        return 2;
    dim = fe_get_output_size(fe);
    ref = (mfcc_t **)ckd_calloc_2d(MAXFR, dim, sizeof(mfcc_t));
    out = (mfcc_t **)ckd_calloc_2d(MAXFR, dim, sizeof(mfcc_t));

    /* Reference: everything in one call. */
    nref = feed(fe, si, sf, n, NULL, 0, n, 0, ref);
    printf("%zu samples, %d frames in one call\n", n, nref);
    if (nref <= 0)
        return 2;

    nout = feed(fe, si, sf, n, split, 2, 2048, 0, out);
    bad |= compare("int16   400 + 200 + blocks of 2048", ref, nref, out, nout, dim);

    nout = feed(fe, si, sf, n, split, 2, 2048, 1, out);
    bad |= compare("float32 400 + 200 + blocks of 2048", ref, nref, out, nout, dim);

    nout = feed(fe, si, sf, n, NULL, 0, 200, 0, out);
    bad |= compare("int16   blocks of 200", ref, nref, out, nout, dim);

    /* The block size used by the test suite, for comparison. */
    nout = feed(fe, si, sf, n, NULL, 0, 2048, 0, out);
    bad |= compare("int16   blocks of 2048", ref, nref, out, nout, dim);

    ckd_free_2d(ref);
    ckd_free_2d(out);
    fe_free(fe);
    config_free(config);
    free(si);
    free(sf);
    printf(bad ? "FAIL: byte-swapped input gives different features\n"
               : "OK: byte-swapped int16 and float32 input agree\n");
    return bad ? 1 : 0;
}
