#include <soundswallower/decoder.h>
#include <soundswallower/s3file.h>
#include <stdio.h>
#include <stdlib.h>
#include <string.h>
/* Replay for C10: a JSGF grammar handed to decoder_init_grammar_s3file in a
 * buffer of exactly its own size (no terminator) was parsed as a C string. */
int main(void)
{
    const char *g = "#JSGF V1.0;\ngrammar t;\npublic <s> = go forward;";
    size_t n = strlen(g);
    char *buf = malloc(n);
    config_t *config = config_init(NULL);
    decoder_t *d;
    int rv;
    memcpy(buf, g, n);
    config_set_str(config, "hmm", "/repo/model/en-us");
    config_set_str(config, "loglevel", "FATAL");
    d = decoder_init(config);
    rv = decoder_init_grammar_s3file(d, NULL, s3file_init(buf, n));
    printf("RESULT: %d\n", rv);
    return 0;
}
