#include <soundswallower/decoder.h>
#include <stdio.h>
#include <stdlib.h>
#include <string.h>
static int16_t buf[400000]; static size_t n;
static void run(decoder_t *d, size_t first){
    decoder_set_cmn(d, "41,-5,0,6,-3,-4,-4,-5,-9,-3,-2,-7,-6");
    decoder_start_utt(d);
    size_t off = 0;
    if (first) { decoder_process_int16(d, buf, first, 0, 0); off = first; }
    decoder_process_int16(d, buf+off, n-off, 0, 0);
    decoder_end_utt(d);
    int32 score; const char *h = decoder_hyp(d, &score);
    printf("first=%zu hyp='%s' score=%d nfr=%d :", first, h, score, decoder_n_frames(d));
    for (seg_iter_t *s = decoder_seg_iter(d); s; s = seg_iter_next(s)) { int sf,ef; int32 a,l; seg_iter_frames(s,&sf,&ef); seg_iter_prob(s,&a,&l); printf(" %s[%d-%d,%d]", seg_iter_word(s), sf, ef, a); }
    printf("\n");
}
int main(void){
    config_t *config = config_init(NULL);
    config_set_str(config, "hmm", "/repo/model/en-us");
    config_set_str(config, "loglevel", "FATAL");
    decoder_t *d = decoder_init(config);
    decoder_set_jsgf_string(d, "#JSGF V1.0;\ngrammar t;\npublic <s> = go forward ten meters;\n");
    FILE *f = fopen("/repo/tests/data/goforward.raw","rb"); n = fread(buf,2,400000,f);
    run(d, 0); run(d, 100); run(d, 399); run(d, 410); run(d, 2048);
    decoder_free(d); return 0; }
