#include <soundswallower/fsg_model.h>
#include <soundswallower/s3file.h>
#include <stdio.h>
#include <string.h>
int main(void){
    logmath_t *lm = logmath_init(1.0001,0,1);
    const char *txt = "FSG_BEGIN x\nN 2\nS 0\nF 1\nT 0 1 0.0000001 hello\nT 0 1 0.5 world\nFSG_END\n";
    s3file_t *s = s3file_init(txt, strlen(txt));
    fsg_model_t *f = fsg_model_read_s3file(s, lm, 1.0);
    printf("read1=%p\n", (void*)f);
    FILE *o = fopen("/tmp/ssasan/w.fsg","w"); fsg_model_write(f, o); fclose(o);
    fsg_model_t *g = fsg_model_readfile("/tmp/ssasan/w.fsg", lm, 1.0);
    printf("read2=%p\n", (void*)g);
    return 0; }
