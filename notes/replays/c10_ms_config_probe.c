#include <soundswallower/decoder.h>
#include <stdio.h>
#include <stdlib.h>
/* Replay for C10: the multi-stream scorer (selected with "senmgau") divides
 * every senone score by the configuration value "aw". */
int main(int argc, char **argv)
{
    config_t *config = config_init(NULL);
    static short buf[16000];
    decoder_t *d;
    FILE *f = fopen("/repo/tests/data/goforward.raw", "rb");
    size_t n = fread(buf, 2, 16000, f);
    fclose(f);
    config_set_str(config, "hmm", argv[1]);
    config_set_str(config, "loglevel", "ERROR");
    config_set_str(config, "senmgau", ".ptm."); config_set_str(config, "dict", "/tmp/rp/c17/mini.dict");
    config_set_int(config, argv[2], atol(argv[3]));
    d = decoder_init(config);
    if (d == NULL) { printf("RESULT: init refused\n"); return 0; }
    decoder_set_jsgf_string(d, "#JSGF V1.0;\ngrammar t;\npublic <s> = go forward;\n");
    decoder_start_utt(d);
    decoder_process_int16(d, buf, n, 0, 0);
    decoder_end_utt(d);
    printf("RESULT: decoded\n");
    decoder_free(d);
    return 0;
}
