/* replay: logmath_init chooses the entry width from round(log_b 2) >> shift (floored by the
 * shift) while the entries themselves are rounded to the shift: for log_b(2)/2^shift in
 * [255.5, 256) (or [65535.5, 65536)) entry 0 does not fit its width and is stored as 0, so
 * add(x, x) == x instead of x + log_b 2. */
#include <stdio.h>
#include <math.h>
#include <soundswallower/logmath.h>
int main(void)
{
    int bad = 0, shift;
    for (shift = 1; shift <= 3; ++shift) {
        double L = (255.6) * (1 << shift);          /* log_b(2) in raw units */
        double base = pow(2.0, 1.0 / L);
        logmath_t *lm = logmath_init(base, shift, 1);
        int x = logmath_log(lm, 0.25), s = logmath_add(lm, x, x), want = logmath_log(lm, 0.5);
        printf("shift %d base %.9f width %d: add(x,x)-x = %d, log(2) = %d\n", shift, base, logmath_get_width(lm), s - x, want - x);
        if (s - x < want - x - 1 || s - x > want - x + 1) ++bad;
        logmath_free(lm);
    }
    return bad ? 1 : 0;
}
