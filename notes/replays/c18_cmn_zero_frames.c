#include <soundswallower/decoder.h>
#include <soundswallower/fe.h>
#include <soundswallower/feat.h>
#include <soundswallower/acmod.h>
#include <soundswallower/decoder.h>
#include <soundswallower/search_module.h>
#include <stdio.h>
#include <math.h>
#include <string.h>
/* Replay for C18: batch CMN over an utterance whose frames all have negative
 * C0 (digital silence): cmn() skips every frame, nframe stays 0 and the mean
 * becomes 0/0 = NaN, which then poisons every feature value. */
int main(void)
{
    config_t *config = config_init(NULL);
    config_set_str(config, "hmm", "/repo/model/en-us");
    config_set_str(config, "loglevel", "FATAL");
    config_set_str(config, "cmn", "batch");
    decoder_t *d = decoder_init(config);
    static int16 buf[16000];
    int bad = 0;
    decoder_set_jsgf_string(d, "#JSGF V1.0;\ngrammar t;\npublic <s> = go forward ten meters;\n");
    decoder_start_utt(d);
    decoder_process_int16(d, buf, 16000, 0, 1);
    decoder_end_utt(d);
    const char *c = decoder_get_cmn(d, 0);
    printf("cmn after utterance: %s\n", c);
    if (strstr(c, "nan") || strstr(c, "inf")) bad = 1;
    decoder_free(d);
    return bad;
}
