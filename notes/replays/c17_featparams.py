#!/usr/bin/env python3
"""Replay aid for the C17 known findings reached through the model's feature
parameter file (feat_params.json): each variant below ends the process in
feat.c / cmn.c instead of making decoder_init report failure.
usage: c17_featparams.py <probe-binary> <scratch-dir>"""
import json, os, re, shutil, subprocess, sys
PROBE, SCRATCH = sys.argv[1], sys.argv[2]
MODEL = "/repo/model/en-us"
base = json.load(open(os.path.join(MODEL, "feat_params.json")))
CASES = {
    "intact": {},
    "cmn: unknown scheme": {"cmn": "bogus"},
    "feat: stream width not a number": {"feat": "13,x,13"},
    "feat: fewer widths than commas": {"feat": "13,,13,13"},
    "feat: widths do not add up to ceplen": {"feat": "20,19"},
    "svspec: not a number": {"svspec": "x"},
    "svspec: range end not a number": {"svspec": "0-x"},
    "svspec: descending range": {"svspec": "5-2"},
    "svspec: duplicate dimension": {"svspec": "0-3,2"},
    "svspec: bad delimiter": {"svspec": "0-3;4"},
}
for name, delta in CASES.items():
    d = os.path.join(SCRATCH, "fp")
    shutil.rmtree(d, ignore_errors=True)
    os.makedirs(d)
    for f in os.listdir(MODEL):
        if f not in ("feat_params.json", "dict.txt"):
            os.symlink(os.path.join(MODEL, f), os.path.join(d, f))
    with open(os.path.join(d, "dict.txt"), "w") as fh, open(os.path.join(MODEL, "dict.txt")) as src:
        for _ in range(40):
            fh.write(src.readline())
    json.dump(dict(base, **delta), open(os.path.join(d, "feat_params.json"), "w"))
    r = subprocess.run([PROBE, d], capture_output=True, text=True, errors="replace", env=dict(os.environ, ASAN_OPTIONS="detect_leaks=0"))
    m = re.search(r'FATAL: "([^"]+)", line (\d+): ([^\n]*)', r.stderr)
    print("%-40s %s" % (name, "process exit %d at %s:%s  %s" % (r.returncode, m.group(1), m.group(2), m.group(3)[:50]) if m else r.stdout.strip()))
    shutil.rmtree(d, ignore_errors=True)
