#include <soundswallower/decoder.h>
#include <stdio.h>
#include <stdlib.h>
#include <string.h>
static int16_t buf[400000]; static size_t n;
int main(int argc, char **argv){
    int which = atoi(argv[1]);
    config_t *config = config_init(NULL);
    config_set_str(config, "hmm", "/repo/model/en-us");
    config_set_str(config, "loglevel", "FATAL");
    decoder_t *d = decoder_init(config);
    FILE *f = fopen("/repo/tests/data/goforward.raw","rb"); n = fread(buf,2,400000,f);
    if (which == 1) { /* queries before any audio */
        decoder_set_align_text(d, "go forward ten meters");
        printf("hyp-before-start=%s\n", decoder_hyp(d, NULL) ? "non-null" : "null");
        decoder_start_utt(d);
        printf("hyp=%s seg=%p nfr=%d\n", decoder_hyp(d,NULL) ? "non-null":"null", (void*)decoder_seg_iter(d), decoder_n_frames(d));
        const char *j = decoder_result_json(d, 0.0, 0); printf("json0=%s", j ? j : "(null)\n");
        j = decoder_result_json(d, 0.0, 1); printf("json1=%s", j ? j : "(null)\n");
        printf("lattice=%p\n", (void*)decoder_lattice(d));
        decoder_end_utt(d);
        printf("after-empty-utt hyp=%s\n", decoder_hyp(d,NULL) ? "non-null":"null");
    } else if (which == 2) { /* alignment + json on partial result, then continue */
        decoder_set_align_text(d, "go forward ten meters");
        decoder_start_utt(d);
        decoder_process_int16(d, buf, 20000, 0, 0);
        const char *j = decoder_result_json(d, 0.0, 2); printf("partial json len=%zu\n", j ? strlen(j) : 0);
        decoder_process_int16(d, buf+20000, n-20000, 0, 0);
        decoder_end_utt(d);
        j = decoder_result_json(d, 0.0, 1); printf("final json=%.80s...\n", j ? j : "(null)");
    } else if (which == 3) { /* grammar with null path start->final: hyp of nulls only */
        decoder_set_jsgf_string(d, "#JSGF V1.0;\ngrammar t;\npublic <s> = [go] [forward];\n");
        decoder_start_utt(d);
        printf("hyp=%s\n", decoder_hyp(d,NULL) ? decoder_hyp(d,NULL) : "null");
        seg_iter_t *s = decoder_seg_iter(d); printf("seg=%p\n",(void*)s);
        for (; s; s = seg_iter_next(s)) { int sf,ef; seg_iter_frames(s,&sf,&ef); printf(" %s[%d,%d]", seg_iter_word(s), sf, ef);} printf("\n");
        const char *j = decoder_result_json(d, 0.0, 0); printf("json0=%s", j ? j : "(null)\n");
        j = decoder_result_json(d, 0.0, 1); printf("json1=%s", j ? j : "(null)\n");
        decoder_end_utt(d);
    }
    decoder_free(d); return 0; }
