#include <soundswallower/decoder.h>
#include <soundswallower/fe.h>
#include <stdio.h>
#include <stdlib.h>
#include <string.h>
int main(int argc, char **argv)
{
    config_t *config = config_init(NULL);
    static short buf[4000];
    fe_t *fe;
    int i, nfr; size_t ns = 4000; const short *p = buf;
    mfcc_t **cep;
    for (i = 0; i < 4000; ++i) buf[i] = (short)(3000 * ((i * 7) % 13 - 6));
    if (strchr(argv[2], '.')) config_set_float(config, argv[1], atof(argv[2]));
    else config_set_int(config, argv[1], atol(argv[2]));
    fe = fe_init(config);
    if (fe == NULL) { printf("RESULT: fe_init refused\n"); return 0; }
    fe_start(fe);
    nfr = fe_process_int16(fe, NULL, &ns, NULL, 0);
    cep = ckd_calloc_2d(nfr + 1, fe_get_output_size(fe) > 0 ? fe_get_output_size(fe) : 1, sizeof(**cep));
    ns = 4000;
    i = fe_process_int16(fe, &p, &ns, cep, nfr);
    printf("RESULT: %d frames of %d\n", i, fe_get_output_size(fe));
    fe_free(fe);
    return 0;
}
