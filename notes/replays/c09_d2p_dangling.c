/* replay: decoder_reinit with a dictionary that cannot be read leaves d->d2p pointing at the released
 * triphone tables; decoder_free then releases them a second time.
 * build: cc -g -I/repo/include -I<build> c09_d2p_dangling.c <build>/libsoundswallower.a -lm ; run under valgrind from /repo */
#include <soundswallower/decoder.h>
#include <soundswallower/configuration.h>
#include <stdio.h>
int main(void)
{
    config_t *c = config_init(NULL);
    config_set_str(c, "hmm", "model/en-us");
    config_set_str(c, "dict", "model/en-us/dict.txt");
    config_set_str(c, "loglevel", "FATAL");
    decoder_t *d = decoder_init(c);
    if (d == NULL) { printf("init failed\n"); return 2; }
    config_set_str(decoder_config(d), "dict", "/nonexistent/words.dict");
    int rv = decoder_reinit(d, NULL);
    printf("reinit with unreadable dictionary: %d\n", rv);
    decoder_free(d);
    printf("freed\n");
    return 0;
}
