#include <soundswallower/decoder.h>
#include <stdio.h>
#include <string.h>
/* Replay: with cmn=batch configured, a whole-utterance decode after one
 * streaming utterance differs from the same decode on a fresh decoder,
 * because feat_cmn() overwrites the configured normalisation type with
 * CMN_LIVE on the first streaming call. */
static short buf[60000]; static size_t n;
static decoder_t *mk(void)
{
    config_t *c = config_init(NULL);
    config_set_str(c, "hmm", "model/en-us"); config_set_str(c, "dict", "tests/data/turtle.dic");
    config_set_str(c, "fsg", "tests/data/goforward.fsg"); config_set_str(c, "cmn", "batch");
    config_set_str(c, "loglevel", "FATAL");
    return decoder_init(c);
}
static int batch(decoder_t *d)
{
    int32 sc = 0; decoder_start_utt(d); decoder_process_int16(d, buf, n, 0, 1); decoder_end_utt(d);
    const char *h = decoder_hyp(d, &sc); printf("  batch: %s (%d)\n", h ? h : "(null)", sc); return sc;
}
int main(void)
{
    FILE *f = fopen("tests/data/goforward.raw", "rb"); n = fread(buf, 2, 60000, f); fclose(f);
    decoder_t *a = mk(), *b = mk(); int s0, s1, s2;
    printf("fresh decoder\n"); s0 = batch(a); s2 = batch(a);
    printf("decoder after one streaming utterance\n");
    decoder_start_utt(b); for (size_t i = 0; i < n; i += 2048) decoder_process_int16(b, buf + i, n - i < 2048 ? n - i : 2048, 0, 0); decoder_end_utt(b);
    s1 = batch(b);
    decoder_free(a); decoder_free(b);
    printf("%s\n", (s0 == s1 && s0 == s2) ? "isolated" : "NOT isolated: batch result depends on the earlier streaming utterance");
    return (s0 == s1 && s0 == s2) ? 0 : 1;
}
