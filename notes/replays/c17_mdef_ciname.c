/* replay: a binary mdef truncated inside the CI-phone name block, held in an
 * exact-size heap buffer, is walked with strlen() past the end of the buffer
 * (bin_mdef_read_s3file).  Build with -fsanitize=address; every truncation
 * length is loaded in a forked child; exit 1 if any child dies. */
#include <stdio.h>
#include <stdlib.h>
#include <string.h>
#include <unistd.h>
#include <sys/wait.h>
#include <soundswallower/bin_mdef.h>
#include <soundswallower/s3file.h>
#include <soundswallower/err.h>
int main(int argc, char **argv)
{
    const char *path = argc > 1 ? argv[1] : "model/en-us/mdef";
    FILE *fh = fopen(path, "rb");
    char *all; long n, len; int bad = 0, first = -1;
    if (!fh) return 2;
    fseek(fh, 0, SEEK_END); n = ftell(fh); fseek(fh, 0, SEEK_SET);
    all = malloc(n); if (fread(all, 1, n, fh) != (size_t)n) return 2; fclose(fh);
    err_set_loglevel(ERR_FATAL);
    for (len = 1040; len < 1400; ++len) {
        pid_t pid = fork();
        if (pid == 0) {
            char *buf = malloc(len);          /* exact size: ASan sees the first byte past it */
            s3file_t *s; bin_mdef_t *m;
            memcpy(buf, all, len);
            s = s3file_init(buf, len);
            m = bin_mdef_read_s3file(s, 0);
            if (m) bin_mdef_free(m);
            s3file_free(s); free(buf);
            _exit(0);
        } else {
            int st; waitpid(pid, &st, 0);
            if (!(WIFEXITED(st) && WEXITSTATUS(st) == 0)) { if (first < 0) first = (int)len; ++bad; }
        }
    }
    printf("%d truncation lengths in [1040,1400) end in a memory error (first at %d)\n", bad, first);
    return bad ? 1 : 0;
}
