#include <soundswallower/decoder.h>
#include <soundswallower/endpointer.h>
#include <soundswallower/jsgf.h>
#include <soundswallower/fsg_model.h>
#include <stdio.h>
#include <string.h>
#include <stdlib.h>
static decoder_t *mk(const char *fsg, const char *jsgf){
    config_t *config = config_init(NULL);
    config_set_str(config, "hmm", "/repo/model/en-us");
    config_set_str(config, "loglevel", "ERROR");
    if (fsg) config_set_str(config, "fsg", fsg);
    if (jsgf) config_set_str(config, "jsgf", jsgf);
    return decoder_init(config);
}
int main(int argc, char **argv){
    int which = atoi(argv[1]);
    if (which == 1) { /* add_word pron overflow */
        decoder_t *d = mk(NULL,NULL);
        printf("add=%d\n", decoder_add_word(d, "foo", "F UW B AA R", 0));
        decoder_free(d);
    } else if (which == 2) { /* fsg with unknown word: double free */
        FILE *f = fopen("/tmp/ssasan/bad.fsg","w");
        fprintf(f,"FSG_BEGIN x\nN 2\nS 0\nF 1\nT 0 1 1.0 xyzzyplugh\nFSG_END\n"); fclose(f);
        decoder_t *d = mk("/tmp/ssasan/bad.fsg",NULL);
        printf("d=%p\n",(void*)d);
    } else if (which == 3) { /* jsgf undefined rule */
        logmath_t *lm = logmath_init(1.0001,0,1);
        jsgf_t *j = jsgf_parse_string("#JSGF V1.0;\ngrammar t;\npublic <s> = hello <undefined> world | go;\n", NULL);
        printf("jsgf=%p\n",(void*)j);
        jsgf_rule_t *r = jsgf_get_public_rule(j);
        fsg_model_t *fsg = jsgf_build_fsg(j, r, lm, 1.0);
        printf("fsg=%p\n",(void*)fsg);
        if (fsg) fsg_model_write(fsg, stdout);
    } else if (which == 4) { /* empty word */
        decoder_t *d = mk(NULL,NULL);
        printf("add=%d\n", decoder_add_word(d, "", "F UW", 0));
        decoder_free(d);
    } else if (which == 5) { /* empty pron */
        decoder_t *d = mk(NULL,NULL);
        printf("add=%d\n", decoder_add_word(d, "foo", "", 0));
        decoder_free(d);
    } else if (which == 6) { /* endpointer ring */
        endpointer_t *ep = endpointer_init(0, 0, 0, 16000, 0);
        size_t fs = endpointer_frame_size(ep);
        int16_t *fr = calloc(fs, 2);
        /* alternate loud noise / silence to open and close segments */
        for (int i = 0; i < 400; ++i) {
            int loud = (i / 37) % 2;
            for (size_t k = 0; k < fs; ++k) fr[k] = loud ? (int16_t)((rand()%20000)-10000) : 0;
            endpointer_process(ep, fr);
        }
        endpointer_free(ep);
    } else if (which == 7) { /* jsgf weight >1 on rule atom -> E_FATAL */
        logmath_t *lm = logmath_init(1.0001,0,1);
        jsgf_t *j = jsgf_parse_string("#JSGF V1.0;\ngrammar t;\npublic <s> = hello /5.0/ <b>;\n<b> = world;\n", NULL);
        jsgf_rule_t *r = jsgf_get_public_rule(j);
        fsg_model_t *fsg = jsgf_build_fsg(j, r, lm, 1.0);
        printf("fsg=%p\n",(void*)fsg);
    } else if (which == 8) { /* duplicate alt corrupts chain */
        decoder_t *d = mk(NULL,NULL);
        printf("a=%d\n", decoder_add_word(d, "zork", "Z AO R K", 0));
        printf("b=%d\n", decoder_add_word(d, "zork(2)", "Z AO K", 0));
        printf("c=%d (dup)\n", decoder_add_word(d, "zork(2)", "Z AO K", 0));
        printf("e=%d\n", decoder_add_word(d, "other", "AH DH ER", 0));
        /* look at alt chain via lookup */
        char *p = decoder_lookup_word(d, "zork"); printf("%s\n", p); free(p);
        decoder_free(d);
    }
    return 0;
}
