#include <soundswallower/decoder.h>
#include <stdio.h>
#include <stdlib.h>
int main(void){
    config_t *config = config_init(NULL);
    config_set_str(config, "hmm", "/repo/model/en-us");
    config_set_str(config, "loglevel", "ERROR");
    decoder_t *d = decoder_init(config);
    decoder_set_align_text(d, "go forward ten meters");
    FILE *f = fopen("/repo/tests/data/goforward.raw","rb");
    static int16_t buf[200000]; size_t n = fread(buf,2,200000,f);
    decoder_start_utt(d);
    int a = decoder_process_int16(d, buf, n, 0, 0);
    int e = decoder_end_utt(d);
    printf("proc=%d end=%d hyp=%s nfr=%d\n", a, e, decoder_hyp(d,NULL), decoder_n_frames(d));
    int b = decoder_process_int16(d, buf, 8000, 0, 0);   /* audio after end: should be refused */
    printf("after-end proc=%d hyp=%s nfr=%d\n", b, decoder_hyp(d,NULL), decoder_n_frames(d));
    decoder_free(d); return 0; }
