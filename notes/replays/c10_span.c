/* Replay for the C10 SPAN findings: text handed to the readers in a buffer of
 * exactly its own size (as the in-memory s3file API is used by the JavaScript
 * build) that ends inside a token.  Build with -fsanitize=address together
 * with the library sources; argv[1] selects the case. */
#include <soundswallower/bin_mdef.h>
#include <soundswallower/dict.h>
#include <soundswallower/fsg_model.h>
#include <soundswallower/logmath.h>
#include <soundswallower/s3file.h>
#include <stdio.h>
#include <stdlib.h>
#include <string.h>
static s3file_t *exact(const char *text)
{
    size_t n = strlen(text);
    char *buf = malloc(n);          /* no terminator, no padding */
    memcpy(buf, text, n);
    return s3file_init(buf, n);
}
int main(int argc, char **argv)
{
    const char *c = argc > 1 ? argv[1] : "";
    if (!strncmp(c, "dict", 4) || !strncmp(c, "fdict", 5)) {
        bin_mdef_t *mdef = bin_mdef_read(NULL, "/repo/model/en-us/mdef");
        const char *text = strstr(c, "semi") ? "go G OW\n;" : "go G OW\n#";
        s3file_t *s = exact(text);
        dict_t *d = c[0] == 'd' ? dict_init_s3file(NULL, mdef, s, NULL) : dict_init_s3file(NULL, mdef, NULL, s);
        printf("RESULT: %s\n", d ? "dictionary read" : "failure reported");
    } else {
        logmath_t *lm = logmath_init(1.0001, 0, 0);
        const char *text = !strcmp(c, "fsg-from") ? "FSG_BEGIN x\nN 2\nS 0\nF 1\nT 0"
            : !strcmp(c, "fsg-to") ? "FSG_BEGIN x\nN 2\nS 0\nF 1\nT 0 1"
            : "FSG_BEGIN x\nN 2\nS 0\nF 1\nT 0 1 0.5";
        fsg_model_t *fsg = fsg_model_read_s3file(exact(text), lm, 1.0);
        printf("RESULT: %s\n", fsg ? "grammar read" : "failure reported");
    }
    return 0;
}
