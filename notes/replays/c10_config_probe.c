#include <soundswallower/decoder.h>
#include <stdio.h>
#include <stdlib.h>
#include <string.h>
int main(int argc, char **argv)
{
    config_t *config = config_init(NULL);
    static short buf[16000];
    decoder_t *d;
    FILE *f = fopen("/repo/tests/data/goforward.raw", "rb");
    size_t n = fread(buf, 2, 16000, f);
    fclose(f);
    config_set_str(config, "hmm", "/repo/model/en-us");
    config_set_str(config, "loglevel", "FATAL");
    config_set_str(config, "dict", "/tmp/rp/c17/mini.dict");
    if (strchr(argv[2], '.')) config_set_float(config, argv[1], atof(argv[2]));
    else config_set_int(config, argv[1], atol(argv[2]));
    d = decoder_init(config);
    if (d == NULL) { printf("RESULT: init refused\n"); return 0; }
    if (decoder_set_jsgf_string(d, "#JSGF V1.0;\ngrammar t;\npublic <s> = go forward;\n") < 0) { printf("RESULT: grammar refused\n"); return 0; }
    decoder_start_utt(d);
    decoder_process_int16(d, buf, n, 0, 0);
    decoder_end_utt(d);
    printf("RESULT: decoded '%s'\n", decoder_hyp(d, NULL));
    decoder_free(d);
    return 0;
}
