#include <soundswallower/jsgf.h>
#include <stdio.h>
/* Replay for C10: a grammar that imports a file which fails to parse. */
int main(void)
{
    jsgf_t *j = jsgf_parse_file("/tmp/rp/jimp/main.gram", NULL);
    printf("RESULT: %s\n", j ? "parsed" : "refused");
    if (j) jsgf_grammar_free(j);
    return 0;
}
