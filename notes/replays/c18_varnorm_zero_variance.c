#include <soundswallower/decoder.h>
#include <soundswallower/acmod.h>
#include <soundswallower/search_module.h>
#include <stdio.h>
#include <math.h>
#include <string.h>
/* Replay for C18: batch CMN with variance normalisation over an utterance in
 * which some cepstral dimension has zero variance (here: a one-frame
 * utterance): n_frame / 0 = Inf, and (x - mean) * Inf = 0 * Inf = NaN. */
#include <stdlib.h>
int main(int argc, char **argv)
{
    config_t *config = config_init(NULL);
    config_set_str(config, "hmm", argc > 2 ? argv[2] : "/repo/model/en-us");
    config_set_str(config, "loglevel", "FATAL");
    config_set_str(config, "cmn", "batch");
    config_set_bool(config, "varnorm", 1);
    decoder_t *d = decoder_init(config);
    static int16 buf[410]; int N = argc > 1 ? atoi(argv[1]) : 410;
    int i, j, bad = 0;
    for (i = 0; i < 410; ++i) buf[i] = (i % 7) * 3000 - 9000;
    decoder_set_jsgf_string(d, "#JSGF V1.0;\ngrammar t;\npublic <s> = go forward ten meters;\n");
    decoder_start_utt(d);
    decoder_process_int16(d, buf, N, 1, 1);
    acmod_t *am = d->acmod;
    printf("%d feature frames buffered\n", am->n_feat_frame);
    for (i = 0; i < am->n_feat_frame; ++i)
        for (j = 0; j < feat_dimension(am->fcb); ++j)
            if (!isfinite(am->feat_buf[i][0][j])) { bad++; }
    printf("%d non-finite feature values\n", bad);
    decoder_end_utt(d);
    decoder_free(d);
    return bad != 0;
}
