#include <soundswallower/decoder.h>
#include <soundswallower/endpointer.h>
#include <soundswallower/dict.h>
#include <stdio.h>
#include <string.h>
#include <stdlib.h>
static decoder_t *mk(void){
    config_t *config = config_init(NULL);
    config_set_str(config, "hmm", "/repo/model/en-us");
    config_set_str(config, "loglevel", "ERROR");
    return decoder_init(config);
}
int main(int argc, char **argv){
    int which = atoi(argv[1]);
    if (which == 1) {
        decoder_t *d = mk();
        printf("add=%d\n", decoder_add_word(d, "qqfoo", "F B R K", 0));
        decoder_free(d);
    } else if (which == 5) {
        decoder_t *d = mk();
        printf("add=%d\n", decoder_add_word(d, "qqfoo", "", 0));
        printf("set=%d\n", decoder_set_align_text(d, "qqfoo"));
        decoder_free(d);
    } else if (which == 6) {
        endpointer_t *ep = endpointer_init(0, 0, 0, 16000, 0);
        size_t fs = endpointer_frame_size(ep);
        FILE *f = fopen("/repo/tests/data/goforward.raw","rb");
        int16_t *fr = calloc(fs, 2); int nseg=0;
        for (int rep = 0; rep < 3; ++rep) { rewind(f);
          while (fread(fr, 2, fs, f) == fs) { int was = endpointer_in_speech(ep); endpointer_process(ep, fr); if (!was && endpointer_in_speech(ep)) nseg++; } }
        printf("nseg=%d\n", nseg);
        free(fr); endpointer_free(ep);
    } else if (which == 8) {
        decoder_t *d = mk();
        int a = decoder_add_word(d, "qqzork", "Z AO R K", 0);
        int b = decoder_add_word(d, "qqzork(2)", "Z AO K", 0);
        int c = decoder_add_word(d, "qqzork(2)", "Z AO K", 0);
        int e = decoder_add_word(d, "qqother", "AH DH ER", 0);
        printf("a=%d b=%d c=%d e=%d\n", a,b,c,e);
        dict_t *dict = d->dict; (void)dict;
        decoder_free(d);
    }
    return 0;
}
