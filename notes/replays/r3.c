#include <soundswallower/decoder.h>
#include <soundswallower/endpointer.h>
#include <soundswallower/dict.h>
#include <stdio.h>
#include <string.h>
#include <stdlib.h>
struct decoder_s_peek { void *a; };
int main(int argc, char **argv){
    int which = atoi(argv[1]);
    if (which == 6) {
        endpointer_t *ep = endpointer_init(0, 0.5, 0, 16000, 0);
        size_t fs = endpointer_frame_size(ep);
        FILE *f = fopen("/repo/tests/data/goforward.raw","rb");
        int16_t *fr = calloc(fs, 2); int n=0;
        /* skip leading silence: start where the endpointer said speech began (~0.5s?) try several offsets */
        long off = atol(argv[2]);
        fseek(f, off*2, SEEK_SET);
        while (fread(fr, 2, fs, f) == fs) { endpointer_process(ep, fr); n++; }
        printf("frames=%d inspeech=%d start=%.2f\n", n, endpointer_in_speech(ep), endpointer_speech_start(ep));
        free(fr); endpointer_free(ep);
    } else if (which == 8) {
        config_t *config = config_init(NULL);
        config_set_str(config, "hmm", "/repo/model/en-us");
        config_set_str(config, "loglevel", "ERROR");
        bin_mdef_t *mdef = bin_mdef_read(config, "/repo/model/en-us/mdef");
        dict_t *d = dict_init(config, mdef);
        s3cipid_t p[2] = {1,2};
        int a = dict_add_word(d, "qqzork", p, 2);
        int b = dict_add_word(d, "qqzork(2)", p, 2);
        int c = dict_add_word(d, "qqzork(2)", p, 2);
        int e = dict_add_word(d, "qqother", p, 2);
        printf("a=%d b=%d c=%d e=%d\n", a,b,c,e);
        for (int w = a; w != BAD_S3WID; w = dict_nextalt(d, w)) printf("chain: %d %s base=%s\n", w, dict_wordstr(d,w), dict_basestr(d,w));
    }
    return 0;
}
