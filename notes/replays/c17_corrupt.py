#!/usr/bin/env python3
"""Replay aid for C17 (not a registered check): feeds damaged copies of the
bundled acoustic models to the real decoder_init (ASan build of the library,
notes/replays/c17_probe.c) and classifies what happens.

usage: c17_corrupt.py <probe-binary> <scratch-dir> [model ...]

For every model file: truncation at a spread of lengths, and single-field
corruption of each of the first 24 32-bit words after the text header (values
-1, 0, 1, 0x7fffffff, 0x80000000, original+1, original-1), plus magic / header
text damage.  Prints one line per distinct outcome signature with the first
input that produced it.
"""
import os, re, shutil, struct, subprocess, sys
from concurrent.futures import ThreadPoolExecutor

PROBE, SCRATCH = sys.argv[1], sys.argv[2]
MODELS = sys.argv[3:] or ["/repo/model/en-us", "/repo/model/fr-fr"]
FILES = ["mdef", "means", "variances", "sendump", "transition_matrices", "feat_params.json"]
VALUES = [-1, 0, 1, 0x7fffffff, -0x80000000, "+1", "-1", 2, 255, 1000, 65536]


def header_end(b):
    """offset of the first binary word after an s3 text header (after the byte-order magic)"""
    i = b.find(b"endhdr\n")
    if b.startswith(b"s3\n") and i >= 0:
        return i + 7 + 4
    return 0


def cases(model, fname):
    data = open(os.path.join(model, fname), "rb").read()
    n = len(data)
    yield ("missing", None)
    cuts = {0, 1, 2, 3, 4, 5, 7, 8, 11, 12, 16, 40, 100, n - 1, n - 2, n - 4, n - 5, n // 2, n // 3}
    he = header_end(data)
    for k in range(0, 64, 1):
        cuts.add(he + k)
        cuts.add(max(0, he - k))
    for k in range(1, 48):
        cuts.add(n * k // 48)
    for c in sorted(x for x in cuts if 0 <= x < n):
        yield ("truncate@%d" % c, data[:c])
    if fname.endswith(".json"):
        for i in range(0, n, 3):
            yield ("byte@%d=}" % i, data[:i] + b"}" + data[i + 1:])
            yield ("byte@%d=\"" % i, data[:i] + b"\"" + data[i + 1:])
        return
    # word corruptions
    base = he
    if fname == "sendump":
        # the rows / columns words follow the header strings
        off = 0
        for _ in range(2):
            (k,) = struct.unpack_from("<i", data, off)
            off += 4 + k
        while True:
            (k,) = struct.unpack_from("<i", data, off)
            off += 4
            if k == 0:
                break
            off += k
        base = off
        for off2 in (0, 30 + 4, 36):
            for v in (-1, 0, -1000000, 0x7fffffff):
                yield ("len@%d=%d" % (off2, v), data[:off2] + struct.pack("<i", v) + data[off2 + 4:])
    if fname == "mdef":
        (k,) = struct.unpack_from("<i", data, 8)
        base = 12 + k
        for v in (-1, -13, 0, 0x7fffffff, -0x80000000, k + 4, k - 4):
            yield ("hdrlen=%d" % v, data[:8] + struct.pack("<i", v) + data[12:])
    for w in range(0, 40):
        off = base + 4 * w
        if off + 4 > n:
            break
        (orig,) = struct.unpack_from("<i", data, off)
        for v in VALUES:
            if v == "+1":
                nv = orig + 1
            elif v == "-1":
                nv = orig - 1
            else:
                nv = v
            if nv == orig or not (-0x80000000 <= nv <= 0x7fffffff):
                continue
            yield ("word%d@%d=%d(was %d)" % (w, off, nv, orig), data[:off] + struct.pack("<i", nv) + data[off + 4:])
    # text header damage
    if he:
        yield ("hdr:noendhdr", data.replace(b"endhdr", b"endhdx", 1))
        yield ("hdr:chksum-flip", data[:-1] + bytes([data[-1] ^ 0xff]))
        yield ("hdr:magic-swap", data[:he - 4] + data[he - 4:he][::-1] + data[he:])
        yield ("hdr:magic-bad", data[:he - 4] + b"\x01\x02\x03\x04" + data[he:])
    else:
        yield ("magic-bad", b"XXXX" + data[4:])
        yield ("magic-swapped", data[:4][::-1] + data[4:])


def run_case(args):
    model, fname, label, blob, idx = args
    d = os.path.join(SCRATCH, "m%06d" % idx)
    os.makedirs(d)
    try:
        for f in os.listdir(model):
            if f == fname:
                continue
            if f in ("dict.txt",):
                continue
            os.symlink(os.path.join(model, f), os.path.join(d, f))
        if blob is not None:
            with open(os.path.join(d, fname), "wb") as fh:
                fh.write(blob)
        with open(os.path.join(d, "dict.txt"), "w") as fh:
            with open(os.path.join(model, "dict.txt")) as src:
                for _ in range(40):
                    fh.write(src.readline())
        env = dict(os.environ, ASAN_OPTIONS="detect_leaks=1:abort_on_error=0:allocator_may_return_null=1:max_allocation_size_mb=4096")
        try:
            p = subprocess.run([PROBE, d], capture_output=True, text=True, timeout=60, env=env, errors="replace")
            out, err, rc = p.stdout, p.stderr, p.returncode
        except subprocess.TimeoutExpired:
            return (model, fname, label, "TIMEOUT (no termination within 60 s)")
    finally:
        shutil.rmtree(d, ignore_errors=True)
    sig = None
    m = re.search(r'FATAL: "([^"]+)", line (\d+): (.*)', err)
    if m:
        sig = "process exit: FATAL %s:%s %s" % (m.group(1), m.group(2), re.sub(r"[-\d]+", "N", m.group(3).split(":")[0].split("'")[0])[:40])
    a = re.search(r"ERROR: AddressSanitizer: ([\w-]+)", err)
    if a:
        frames = re.findall(r"#\d+ 0x[0-9a-f]+ in (\w+) (?:\S*/)?src/([\w.]+):(\d+)", err)
        where = next(("%s %s:%s" % fr for fr in frames if not fr[0].startswith("__") and fr[1] not in ("ckd_alloc.c",)), "?")
        sig = "ASan %s in %s" % (a.group(1), where)
    elif "LeakSanitizer" in err:
        frames = re.findall(r"#\d+ 0x[0-9a-f]+ in (\w+) (?:\S*/)?src/([\w.]+):(\d+)", err)
        where = next(("%s %s:%s" % fr for fr in frames if fr[1] != "ckd_alloc.c" and fr[0] not in ("__ckd_calloc__", "__ckd_malloc__", "__ckd_calloc_2d__", "__ckd_calloc_3d__", "__ckd_salloc__")), "?")
        sig = "leak: allocated in %s" % where
    if sig is None:
        if "RESULT: init reported failure" in out and rc == 0:
            sig = "ok: failure reported"
        elif "RESULT: init succeeded" in out and rc == 0:
            sig = "ok: loaded (damage not detected or harmless)"
        else:
            sig = "exit code %d without result: %s" % (rc, re.sub(r"calloc\([-\d]+,", "calloc(N,", (err.strip().splitlines() or ["?"])[-1])[:100])
    return (model, fname, label, sig)


def main():
    os.makedirs(SCRATCH, exist_ok=True)
    work = []
    idx = 0
    for model in MODELS:
        for fname in FILES:
            for (label, blob) in cases(model, fname):
                work.append((model, fname, label, blob, idx))
                idx += 1
    print("%d cases" % len(work), file=sys.stderr)
    seen = {}
    counts = {}
    with ThreadPoolExecutor(max_workers=14) as ex:
        for (model, fname, label, sig) in ex.map(run_case, work):
            counts[sig] = counts.get(sig, 0) + 1
            seen.setdefault(sig, (os.path.basename(model), fname, label))
    for sig in sorted(seen):
        print("%5d  %-90s first: %s/%s %s" % (counts[sig], sig, *seen[sig]))


if __name__ == "__main__":
    main()
