#include <soundswallower/decoder.h>
#include <stdio.h>
/* Replay for C09: an utterance whose best path holds only null transitions
 * (grammar of optional words, no audio) gives an alignment without words;
 * decoder_alignment created a state aligner with zero HMMs for it and the
 * aligner's first step wrote to element 0 of the empty array. */
int main(void)
{
    config_t *config = config_init(NULL);
    decoder_t *d;
    const char *json;
    config_set_str(config, "hmm", "/repo/model/en-us");
    config_set_str(config, "loglevel", "FATAL");
    d = decoder_init(config);
    decoder_set_jsgf_string(d, "#JSGF V1.0;\ngrammar t;\npublic <s> = [go] [forward];\n");
    decoder_start_utt(d);
    decoder_end_utt(d);
    json = decoder_result_json(d, 0.0, 1);
    printf("RESULT: %s\n", json ? json : "(null)");
    decoder_free(d);
    return 0;
}
