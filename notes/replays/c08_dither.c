#include <soundswallower/decoder.h>
#include <soundswallower/fe.h>
#include <stdio.h>
#include <string.h>
/* Replay for the C08 known finding: with dither on, the random-number state
 * (file statics of genrand.c) is shared by all front ends and never reseeded
 * at the start of an utterance. */
static void cep(fe_t *fe, short *buf, size_t n, float *out0)
{
    mfcc_t **c; int nfr, i; size_t ns = n; short *p = buf;
    fe_start(fe);
    nfr = fe_process_int16(fe, NULL, &ns, NULL, 0);
    c = ckd_calloc_2d(nfr + 1, fe_get_output_size(fe), sizeof(**c));
    ns = n;
    i = fe_process_int16(fe, &p, &ns, c, nfr);
    *out0 = 0; for (int k = 0; k < i; k++) *out0 += c[k][1];
    ckd_free_2d(c);
}
int main(int argc, char **argv)
{
    config_t *cfg = config_init(NULL);
    config_set_str(cfg, "dither", "yes");
    config_set_int(cfg, "seed", 42);
    fe_t *a = fe_init(cfg), *b;
    static short buf[40000]; FILE *f = fopen(argv[1], "rb"); size_t n = fread(buf, 2, 40000, f); fclose(f);
    float s1, s2, s3;
    cep(a, buf, n, &s1);          /* utterance 1 on front end A */
    cep(a, buf, n, &s2);          /* same audio again on A */
    b = fe_init(cfg);             /* a second front end in the same process reseeds the shared state */
    cep(a, buf, n, &s3);
    printf("sum c1: first %.6f  again %.6f  after creating a second front end %.6f\n", s1, s2, s3);
    printf("%s\n", (s1 == s2) ? "deterministic" : "NOT deterministic: same audio, same front end, different features");
    return s1 == s2 ? 0 : 1;
}
