#include <soundswallower/decoder.h>
#include <soundswallower/fe.h>
#include <stdio.h>
/* Replay for C10: with doublebw the widened filter range can leave the
 * spectrum; fe_build_melfilters reports that, but fe_init ignored the result
 * and returned a front end with a half-built filterbank. */
int main(void)
{
    config_t *config = config_init(NULL);
    static short buf[4000];
    const short *p = buf; size_t ns = 4000; int nfr; mfcc_t **cep; fe_t *fe;
    config_set_bool(config, "doublebw", 1);
    config_set_float(config, "lowerf", 10.0);
    fe = fe_init(config);
    if (fe == NULL) { printf("RESULT: fe_init refused\n"); return 0; }
    fe_start(fe);
    nfr = fe_process_int16(fe, NULL, &ns, NULL, 0);
    cep = ckd_calloc_2d(nfr + 1, fe_get_output_size(fe), sizeof(**cep));
    ns = 4000;
    nfr = fe_process_int16(fe, &p, &ns, cep, nfr);
    printf("RESULT: %d frames\n", nfr);
    return 0;
}
