/* replay: with round_filters (the default) a filter whose centre and an edge round to the same DFT
 * point gets 0/0 = NaN (or x/0 = Inf) coefficients in fe_build_melfilters: every cepstrum is NaN. */
#include <stdio.h>
#include <math.h>
#include <stdlib.h>
#include <soundswallower/configuration.h>
#include <soundswallower/fe.h>
#include <soundswallower/err.h>
#include <soundswallower/ckd_alloc.h>
int main(int argc, char **argv)
{
    int nfilt, bad = 0;
    err_set_loglevel(ERR_FATAL);
    for (nfilt = 20; nfilt <= 120; nfilt += 4) {
        config_t *c = config_init(NULL);
        fe_t *fe; int16 buf[4000]; const int16 *p = buf; size_t n = 4000; float32 **cep; int i, j, nfr, nan = 0;
        config_set_int(c, "nfilt", nfilt);
        config_set_int(c, "samprate", 16000);
        fe = fe_init(c);
        if (fe == NULL) { printf("nfilt %d refused\n", nfilt); config_free(c); continue; }
        srand(1); for (i = 0; i < 4000; ++i) buf[i] = (rand() % 2000) - 1000;
        cep = (float32 **)ckd_calloc_2d(40, fe_get_output_size(fe), sizeof(float32));
        fe_start(fe);
        nfr = fe_process_int16(fe, &p, &n, cep, 40);
        for (i = 0; i < nfr; ++i) for (j = 0; j < fe_get_output_size(fe); ++j) if (!isfinite(cep[i][j])) ++nan;
        if (nan) { printf("nfilt %d: %d non-finite cepstral values in %d frames\n", nfilt, nan, nfr); ++bad; }
        ckd_free_2d(cep); fe_free(fe); config_free(c);
    }
    return bad ? 1 : 0;
}
