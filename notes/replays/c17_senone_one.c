/* Replay for C17: a mixture weight file with a single senone, read for a
 * model with one codebook per senone, ended the process in
 * senone_init_s3file ("#senone=1; must be >1") instead of returning NULL. */
#include <soundswallower/ms_senone.h>
#include <soundswallower/bin_mdef.h>
#include <soundswallower/logmath.h>
#include <soundswallower/s3file.h>
#include <stdio.h>
#include <string.h>
int main(void)
{
    static char buf[256];
    size_t n = 0;
    const char *hdr = "s3\nversion 1.0\nendhdr\n";
    unsigned magic = 0x11223344; int dims[4] = {1, 1, 1, 1}; float w = 1.0f;
    gauden_t g; logmath_t *lm = logmath_init(1.0001, 0, 0);
    bin_mdef_t *mdef = bin_mdef_read(NULL, "/repo/model/en-us/mdef");
    s3file_t *s; senone_t *sen;
    memcpy(buf, hdr, strlen(hdr)); n = strlen(hdr);
    memcpy(buf + n, &magic, 4); n += 4;
    memcpy(buf + n, dims, 16); n += 16;
    memcpy(buf + n, &w, 4); n += 4;
    memset(&g, 0, sizeof(g)); g.n_mgau = 3; g.n_feat = 1; g.n_density = 1;
    s = s3file_init(buf, n);
    sen = senone_init_s3file(&g, s, NULL, 1e-7f, lm, mdef);
    printf("RESULT: %s\n", sen ? "loaded" : "failure reported");
    if (sen) senone_free(sen);
    s3file_free(s); bin_mdef_free(mdef); logmath_free(lm);
    return 0;
}
