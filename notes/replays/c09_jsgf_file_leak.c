#include <soundswallower/decoder.h>
#include <stdio.h>
#include <dirent.h>
/* Replay for C09/C10: every failed decoder_set_jsgf_file leaves the grammar
 * file open (one descriptor and one FILE per call). */
static int nfd(void)
{
    int n = 0; DIR *d = opendir("/proc/self/fd"); struct dirent *e;
    while ((e = readdir(d)) != NULL) n++;
    closedir(d);
    return n;
}
int main(void)
{
    config_t *config = config_init(NULL);
    decoder_t *d;
    int i, before, after;
    FILE *f = fopen("/tmp/c09_bad.gram", "w");
    fputs("#JSGF V1.0;\ngrammar t;\npublic <s> = go forward\n", f);   /* missing semicolon */
    fclose(f);
    config_set_str(config, "hmm", "/repo/model/en-us");
    config_set_str(config, "loglevel", "FATAL");
    d = decoder_init(config);
    before = nfd();
    for (i = 0; i < 20; ++i)
        decoder_set_jsgf_file(d, "/tmp/c09_bad.gram");
    after = nfd();
    printf("open descriptors before %d, after 20 refused grammars %d\n", before, after);
    decoder_free(d);
    remove("/tmp/c09_bad.gram");
    return after != before;
}
