/* Replay for C17 (SPAN in the model loaders): a sendump handed over in memory
 * (buffer of exactly its size) that ends inside a header string without the
 * terminating zero: atoi() on the string reads past the buffer. */
#include <soundswallower/decoder.h>
#include <soundswallower/ptm_mgau.h>
#include <soundswallower/s3file.h>
#include <stdio.h>
#include <stdlib.h>
#include <string.h>
int main(void)
{
    config_t *config = config_init(NULL);
    decoder_t *d;
    FILE *f = fopen("/repo/model/en-us/sendump", "rb");
    static char all[1024];
    char *buf;
    size_t cut = 564 + 15;              /* "cluster_count 0" without its NUL */
    int n = 15;
    mgau_t *m;
    fread(all, 1, sizeof(all), f);
    fclose(f);
    buf = malloc(cut);
    memcpy(buf, all, cut);
    memcpy(buf + 560, &n, 4);           /* its length word: 15 instead of 16 */
    config_set_str(config, "hmm", "/repo/model/en-us");
    config_set_str(config, "loglevel", "FATAL");
    d = decoder_init(config);
    m = ptm_mgau_init_s3file(d->acmod, s3file_map_file("/repo/model/en-us/means"),
                             s3file_map_file("/repo/model/en-us/variances"), NULL,
                             s3file_init(buf, cut));
    printf("RESULT: %s\n", m ? "loaded" : "failure reported");
    return 0;
}
