#include <soundswallower/decoder.h>
#include <soundswallower/lattice.h>
#include <stdio.h>
static void audit(lattice_t *dag, const char *when)
{
    latnode_t *n; latlink_list_t *x; int nodes = 0, links = 0, bad = 0, startseen = 0, endseen = 0;
    for (n = dag->nodes; n; n = n->next) {
        nodes++;
        if (n == dag->start) startseen = 1;
        if (n == dag->end) endseen = 1;
        for (x = n->exits; x; x = x->next) { links++; if (x->link->to == NULL || x->link->from != n) bad++; }
        for (x = n->entries; x; x = x->next) { if (x->link->from == NULL || x->link->to != n) bad++; }
    }
    fprintf(stderr, "%s: %d nodes, %d links, %d inconsistent, start in list %d, end in list %d\n", when, nodes, links, bad, startseen, endseen);
}
int main(void)
{
    config_t *config = config_init(NULL);
    static short buf[60000];
    decoder_t *d; lattice_t *dag; int n;
    FILE *f = fopen("/repo/tests/data/goforward.raw", "rb");
    size_t got = fread(buf, 2, 60000, f);
    fclose(f);
    config_set_str(config, "hmm", "/repo/model/en-us");
    config_set_str(config, "loglevel", "FATAL");
    d = decoder_init(config);
    decoder_set_jsgf_string(d, "#JSGF V1.0;\ngrammar t;\npublic <s> = go (forward | backward) (ten | two) meters;\n");
    decoder_start_utt(d);
    decoder_process_int16(d, buf, got, 0, 0);
    decoder_end_utt(d);
    dag = decoder_lattice(d);
    audit(dag, "fresh");
    lattice_bestpath(dag, 1.0 / 15);
    lattice_posterior(dag, 1.0 / 15);
    n = lattice_posterior_prune(dag, -3000);
    fprintf(stderr, "pruned %d\n", n);
    audit(dag, "after prune");
    return 0;
}
