/* Replay for C17: a model file of two bytes ("s3") handed over in memory:
 * s3file_parse_header compares three bytes of the first line. */
#include <soundswallower/s3file.h>
#include <stdio.h>
#include <stdlib.h>
#include <string.h>
int main(void)
{
    char *buf = malloc(2);
    s3file_t *s;
    memcpy(buf, "s3", 2);
    s = s3file_init(buf, 2);
    printf("RESULT: %d\n", s3file_parse_header(s, "1.0"));
    return 0;
}
