#include <soundswallower/decoder.h>
#include <stdio.h>
/* Replay for C09: audio fed after decoder_end_utt (and before the next
 * decoder_start_utt) must be refused with the documented error value; it was
 * searched on the finished utterance instead. */
int main(void)
{
    config_t *config = config_init(NULL);
    static short buf[16000];
    int i, n;
    FILE *f = fopen("/repo/tests/data/goforward.raw", "rb");
    decoder_t *d;
    size_t got = fread(buf, 2, 16000, f);
    fclose(f);
    config_set_str(config, "hmm", "/repo/model/en-us");
    config_set_str(config, "loglevel", "FATAL");
    d = decoder_init(config);
    decoder_set_jsgf_string(d, "#JSGF V1.0;\ngrammar t;\npublic <s> = go forward ten meters;\n");
    decoder_start_utt(d);
    decoder_process_int16(d, buf, got, 0, 0);
    decoder_end_utt(d);
    n = decoder_process_int16(d, buf, got, 0, 0);
    printf("process after end_utt returned %d (frames searched); documented: 0 with an error\n", n);
    decoder_free(d);
    return n != 0;
}
