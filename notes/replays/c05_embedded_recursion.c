/* Replay for C05: a rule that recurses through another rule from the middle of
 * a sequence.  <s> = <b> w;  <b> = y <s> | z;  denotes y^n z w^(n+1) and is not
 * regular; it was compiled (to y* z w, which accepts "y z w") instead of being
 * refused. */
#include <soundswallower/jsgf.h>
#include <soundswallower/fsg_model.h>
#include <soundswallower/logmath.h>
#include <stdio.h>
int main(void)
{
    logmath_t *lm = logmath_init(1.0001, 0, 1);
    jsgf_t *j = jsgf_parse_string("#JSGF V1.0;\ngrammar t;\npublic <s> = <b> w;\n<b> = y <s> | z;\n", NULL);
    fsg_model_t *fsg = jsgf_build_fsg(j, jsgf_get_public_rule(j), lm, 1.0);
    printf("RESULT: %s\n", fsg ? "compiled" : "refused");
    if (fsg) fsg_model_write(fsg, stdout);
    /* a right-recursive control case must still compile */
    {
        jsgf_t *k = jsgf_parse_string("#JSGF V1.0;\ngrammar u;\npublic <s> = go <t>;\n<t> = left <t> | stop;\n", NULL);
        fsg_model_t *f2 = jsgf_build_fsg(k, jsgf_get_public_rule(k), lm, 1.0);
        printf("CONTROL: %s\n", f2 ? "compiled" : "refused");
        return (fsg != NULL) || (f2 == NULL);
    }
}
