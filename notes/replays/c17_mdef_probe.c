/* Replay driver for C17 (text model definitions): reads the model definition
 * named by argv[1] and says whether the reader returned. */
#include <soundswallower/bin_mdef.h>
#include <stdio.h>
int main(int argc, char **argv)
{
    bin_mdef_t *m = bin_mdef_read(NULL, argv[1]);
    printf("RESULT: %s\n", m ? "read" : "failure reported");
    if (m) bin_mdef_free(m);
    return 0;
}
