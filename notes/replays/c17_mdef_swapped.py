#!/usr/bin/env python3
"""Replay for C17 (other-endian binary model definition): converts the bundled
little-endian mdef into the byte-swapped layout the reader also accepts,
checks that the intact swapped file loads, then truncates it at several places
and runs the reader (ASan build) on each.
usage: c17_mdef_swapped.py <probe-binary> [workdir]"""
import struct, subprocess, sys, os
probe = sys.argv[1]
wd = sys.argv[2] if len(sys.argv) > 2 else "/tmp/rp"
d = open("/repo/model/en-us/mdef", "rb").read()
o = 0
def i32(n=1):
    global o
    v = struct.unpack_from("<%di" % n, d, o); o += 4 * n
    return v
out = bytearray()
magic, ver, hlen = i32(3)
out += struct.pack(">3i", magic, ver, hlen)
out += d[o:o + hlen]; o += hlen
hdr = i32(10)
out += struct.pack(">10i", *hdr)
n_ciphone, n_phone, n_emit, n_ci_sen, n_sen, n_tmat, n_sseq, n_ctx, n_cd_tree, sil = hdr
base = o
# ci names + padding
p = o
for _ in range(n_ciphone):
    p = d.index(b"\0", p) + 1
tree = base + (((p - base) + 3) & ~3)
out += d[o:tree]; o = tree
for _ in range(n_cd_tree):
    ctx, n_down, down = struct.unpack_from("<hhi", d, o); o += 8
    out += struct.pack(">hhi", ctx, n_down, down)
for _ in range(n_phone):
    ssid, tmat = struct.unpack_from("<ii", d, o)
    out += struct.pack(">ii", ssid, tmat) + d[o + 8:o + 12]; o += 12
(sz,) = i32()
out += struct.pack(">i", sz)
out += struct.pack(">%dH" % sz, *struct.unpack_from("<%dH" % sz, d, o)); o += 2 * sz
out += d[o:]
assert len(out) == len(d)
os.makedirs(wd, exist_ok=True)
cases = [("intact", len(out)), ("cut-in-sseq", len(out) - 4000), ("cut-in-phones", tree + 8 * n_cd_tree + 12 * (n_phone // 2)), ("cut-in-tree", tree + 8 * (n_cd_tree // 2)), ("cut-in-names", base + 10)]
for name, ln in cases:
    f = os.path.join(wd, "mdef_swapped_" + name)
    open(f, "wb").write(out[:ln])
    r = subprocess.run([probe, f], capture_output=True, text=True)
    tail = [l for l in (r.stdout + r.stderr).splitlines() if "RESULT" in l or "ERROR: AddressSanitizer" in l or "FATAL" in l]
    print("%-14s len=%-8d exit=%d %s" % (name, ln, r.returncode, " | ".join(t.strip()[:120] for t in tail[:2])))
    os.remove(f)
