#include <soundswallower/decoder.h>
#include <soundswallower/fsg_search.h>
#include <soundswallower/dict2pid.h>
#include <stdio.h>
#include <string.h>
#include <stdlib.h>
int main(void){
    config_t *config = config_init(NULL);
    config_set_str(config, "hmm", "/repo/model/en-us");
    config_set_str(config, "loglevel", "ERROR");
    decoder_t *d = decoder_init(config);
    decoder_set_jsgf_string(d, "#JSGF V1.0;\ngrammar t;\npublic <s> = (go | ten | left | stop | back) forward;\n");
    fsg_search_t *fs = (fsg_search_t *)d->search;
    fsg_lextree_t *lt = fs->lextree;
    dict_t *dict = d->dict; dict2pid_t *d2p = d->d2p;
    int wid = dict_wordid(dict, "forward");
    int ci = dict_first_phone(dict, wid), rc = dict_second_phone(dict, wid);
    for (int s = 0; s < fs->fsg->n_state; ++s) {
        for (fsg_pnode_t *r = lt->root[s]; r; r = r->sibling) {
            if (r->leaf) continue;
            if (r->ci_ext != ci) continue;
            printf("state %d root ssid=%d ctxt=%08x%08x lcs:", s, r->hmm.ssid, r->ctxt.bv[1], r->ctxt.bv[0]);
            for (int i = 0; lt->lc[s][i] >= 0; ++i) { int lc = lt->lc[s][i];
                if (r->ctxt.bv[lc>>5] & (1u<<(lc&31))) printf(" %s:%d", bin_mdef_ciphone_str(d->acmod->mdef, lc), dict2pid_ldiph_lc(d2p, ci, rc, lc)); }
            printf("\n");
        }
    }
    return 0;
}
