"""TWIN: sibling agreement through summaries (sets, not sequences).

summary(fn, root) reduces a region to a set of
  ('RANGE', dst, src, count)   memcpy/memmove(d, s, n*sizeof T) and element
                               loops `for (i<n) d[off+i] = f(s[i])`, all in
                               polynomial normal form (element counts)
  ('STORE', path, op, value)   other stores to non-loop-local memory
  ('CALL', callee, args...)    calls (allocation / byte-swap / random helpers
                               and err_msg excluded)
  ('RET', value)               returned expressions
  ('COND', text)               branch conditions that are not the twin selector
Locals are forward-substituted so introduced temporaries do not matter.
"""
import re

from . import lin, paths

SKIP_CALLS = {"memcpy", "memmove", "err_msg", "__assert_fail", "s3_rand_int31", "genrand_int31"}


def _noloc(x):
    """drop __FILE__/__LINE__ arguments of the allocation wrappers"""
    return re.sub(r', "/[^"]*", \d+\)', ")", x)


def P(fn, i, subst=True):
    return _noloc(lin.p_str(lin.poly(fn, i, subst=subst)))


def elem_size(fn, ptr_node):
    t = fn.nodes[fn.strip(ptr_node, casts=False)].get("ct", fn.nodes[fn.strip(ptr_node, casts=False)].get("t", ""))
    for k, v in (("float", 4), ("double", 8), ("short", 2), ("int", 4), ("char", 1)):
        if k in t:
            return v
    return None


def elem_loops(fn, root):
    """recognised element-copy loops: list of (for_node, dst_poly, src_poly, count_poly, assigned_nodes)"""
    out = []
    for l in fn.find("For", root=root):
        init, cond, inc, body = fn.ch(l)
        m = re.match(r"^(\w+) = 0$", fn.canon(init, subst=False)) if fn.k(init) != "Absent" else None
        r = paths.rel(fn, cond, True, subst=False) if fn.k(cond) != "Absent" else None
        if not m or not r or r[0] != m.group(1) or r[1] != "<":
            continue
        iv = m.group(1)
        cnt = None
        # count polynomial with substitution
        cj = fn.strip(cond)
        cnt = lin.poly(fn, fn.nodes[cj]["ch"][1])
        samples = {}
        for v in fn.find("Var", root=body):
            if fn.ch(v):
                iv_src = fn.strip(fn.ch(v)[0])
                if fn.k(iv_src) == "Subscript" and fn.canon(fn.ch(iv_src)[1], subst=False) == iv:
                    samples[fn.nodes[v]["name"]] = lin.poly(fn, fn.ch(iv_src)[0])
        # the element may also be fetched by a plain assignment (`sample = src[i];`)
        for s in paths.stores(fn, body):
            if s["kind"] == "DeclRef" and s["op"] == "=" and s["rhs"] is not None:
                iv_src = fn.strip(s["rhs"])
                if fn.k(iv_src) == "Subscript" and fn.canon(fn.ch(iv_src)[1], subst=False) == iv:
                    samples.setdefault(s["path"], lin.poly(fn, fn.ch(iv_src)[0]))
        for s in paths.stores(fn, body):
            if s["rhs"] is None or s["op"] != "=":
                continue
            lhs = fn.nodes[s["lhs"]]
            if s["kind"] == "Subscript":
                base, idx = lhs["ch"]
                ip = lin.poly(fn, idx)
                bp_ = lin.poly(fn, base)
            elif s["kind"] == "Un" and lhs.get("op") == "*":
                # *(base + off + i) = ...   is   base[off + i] = ...
                whole = lin.poly(fn, lhs["ch"][0])
                if whole.get((iv,), 0) != 1:
                    continue
                ip = {(iv,): 1}
                bp_ = dict(whole)
                del bp_[(iv,)]
            else:
                continue
            if ip.get((iv,), 0) != 1:
                continue
            off = dict(ip)
            del off[(iv,)]
            used = [fn.nodes[d]["name"] for d in fn.walk(s["rhs"]) if fn.k(d) == "DeclRef" and fn.nodes[d]["name"] in samples]
            if not used:
                continue
            dst = lin.p_add(bp_, off)
            out.append((l, dst, samples[used[0]], cnt, s["node"]))
    return out


def summary(fn, root=None, selector=None):
    out = set()
    loops = elem_loops(fn, root)
    loop_nodes = set()
    for (l, dst, src, cnt, st) in loops:
        out.add(("RANGE", lin.p_str(dst), lin.p_str(src), lin.p_str(cnt)))
        loop_nodes.update(fn.walk(l))
    for c in fn.calls(None, root=root):
        cal = fn.nodes[c].get("callee")
        if cal in ("memcpy", "memmove"):
            a = fn.args(c)
            es = elem_size(fn, a[0]) or 1
            lp = lin.poly(fn, a[2])
            if all(v % es == 0 for v in lp.values()):
                lp = {m: v // es for m, v in lp.items()}
                out.add(("RANGE", P(fn, a[0]), P(fn, a[1]), lin.p_str(lp)))
            else:
                out.add(("RANGE?", P(fn, a[0]), P(fn, a[1]), lin.p_str(lp)))
        elif cal and cal not in SKIP_CALLS and c not in loop_nodes:
            if any(m in ("SWAP_INT16", "SWAP_FLOAT32", "E_ERROR", "E_INFO", "E_WARN", "assert") for m in fn.mac(c)):
                continue
            args = fn.args(c)
            if cal.startswith(("__ckd_", "__listelem_")):
                args = args[:-2]
            out.add(("CALL", cal) + tuple(P(fn, a) for a in args))
    for s in paths.stores(fn, root):
        if s["node"] in loop_nodes:
            continue
        if s["kind"] == "DeclRef":
            # a local: only matters through what it flows into (substituted)
            continue
        val = P(fn, s["rhs"]) if s["rhs"] is not None else ""
        out.add(("STORE", fn.canon(s["lhs"], subst=False), s["op"], val))
    for r in fn.find("Return", root=root):
        if fn.ch(r):
            out.add(("RET", P(fn, fn.ch(r)[0])))
    for (s0, d0, c, pol) in fn.cfg.cond_edges():
        if not pol:
            continue
        if root is not None and c not in set(fn.walk(root)):
            continue
        if c in loop_nodes or fn.strip(c) in loop_nodes:
            continue
        txt = fn.canon(c)
        if selector and re.search(selector, txt):
            continue
        if any(m in ("assert",) for m in fn.mac(c)):
            continue
        out.add(("COND", txt))
    return out


def type_neutral(t):
    """drop encoding-specific spellings from a summary tuple"""
    def n(x):
        if not isinstance(x, str):
            return x
        x = x.replace("fe_read_frame_float32", "fe_read_frame_X").replace("fe_read_frame_int16", "fe_read_frame_X")
        x = x.replace("fe_shift_frame_float32", "fe_shift_frame_X").replace("fe_shift_frame_int16", "fe_shift_frame_X")
        return x
    return tuple(n(x) for x in t)


def compare(a, b):
    a2 = set(type_neutral(t) for t in a)
    b2 = set(type_neutral(t) for t in b)
    return sorted(a2 - b2), sorted(b2 - a2)
