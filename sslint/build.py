"""Build model and fact extraction.

Derives the translation units from /repo/src/CMakeLists.txt (SOURCES), the
flags from the top-level CMakeLists.txt, instantiates config.h from
/repo/config.h.in, runs ssfacts over every unit (parallel, cached by content
hash under /verif/.cache, never /tmp) and returns the paths of the JSON fact
files.  Exit-2 class errors are raised as AnalysisIncomplete.
"""
import hashlib
import json
import os
import time
import re
import subprocess
import sys
from concurrent.futures import ThreadPoolExecutor

REPO = os.environ.get("SS_REPO", "/repo")
VERIF = os.path.dirname(os.path.dirname(os.path.abspath(__file__)))
CACHE = os.path.join(VERIF, ".cache")
SSFACTS = os.path.join(CACHE, "bin", "ssfacts")


class AnalysisIncomplete(Exception):
    pass


# what CMake's configure step answers on this platform (Linux, glibc); the
# WITH_* options are never set by the top-level CMakeLists.txt.
CONFIG_TRUE = {
    "HAVE_UNISTD_H", "HAVE_STDINT_H", "HAVE_SYS_TYPES_H", "HAVE_SYS_STAT_H",
    "HAVE_SNPRINTF", "HAVE_POPEN", "HAVE_GETRUSAGE",
}


def _read(p):
    with open(p, "rb") as f:
        return f.read()


def make_config_h():
    src = _read(os.path.join(REPO, "config.h.in")).decode()
    out = []
    for line in src.splitlines():
        m = re.match(r"#cmakedefine01\s+(\w+)", line)
        if m:
            out.append("#define %s %d" % (m.group(1), 1 if m.group(1) in CONFIG_TRUE else 0))
            continue
        m = re.match(r"#cmakedefine\s+(\w+)", line)
        if m:
            if m.group(1) in CONFIG_TRUE:
                out.append("#define %s" % m.group(1))
            else:
                out.append("/* #undef %s */" % m.group(1))
            continue
        out.append(line)
    d = os.path.join(CACHE, "build")
    os.makedirs(d, exist_ok=True)
    p = os.path.join(d, "config.h")
    txt = "\n".join(out) + "\n"
    if not os.path.exists(p) or open(p).read() != txt:
        with open(p, "w") as f:
            f.write(txt)
    return d


def units():
    cm = _read(os.path.join(REPO, "src", "CMakeLists.txt")).decode()
    m = re.search(r"set\(SOURCES(.*?)\)", cm, re.S)
    if not m:
        raise AnalysisIncomplete("src/CMakeLists.txt: no SOURCES list")
    us = [u for u in m.group(1).split() if u.endswith(".c")]
    if len(us) < 60:
        raise AnalysisIncomplete("src/CMakeLists.txt: only %d units in SOURCES" % len(us))
    missing = [u for u in us if not os.path.exists(os.path.join(REPO, "src", u))]
    if missing:
        raise AnalysisIncomplete("units listed but missing: %s" % missing)
    return us


def flags(config):
    top = _read(os.path.join(REPO, "CMakeLists.txt")).decode()
    fl = []
    for m in re.finditer(r"add_definitions\((-D\w+)\)", top):
        fl.append(m.group(1))
    if "-DHAVE_CONFIG_H" not in fl:
        raise AnalysisIncomplete("top-level CMakeLists.txt no longer defines HAVE_CONFIG_H")
    cfgdir = make_config_h()
    fl += ["-I" + os.path.join(REPO, "src"), "-I" + cfgdir,
           "-I" + os.path.join(REPO, "include"), "-std=gnu17", "-w"]
    if config == "NDEBUG":
        fl.append("-DNDEBUG")
    elif config == "DEBUG":
        fl.append("-UNDEBUG")
    else:
        raise ValueError(config)
    return fl


def _tree_hash():
    """Hash of every header and of config.h.in: any header edit invalidates
    all units (cheap: < 1 MB)."""
    h = hashlib.sha256()
    for base in ("src", "include"):
        for root, dirs, files in os.walk(os.path.join(REPO, base)):
            dirs.sort()
            for fn in sorted(files):
                if fn.endswith(".h"):
                    p = os.path.join(root, fn)
                    h.update(p.encode())
                    h.update(_read(p))
    h.update(_read(os.path.join(REPO, "config.h.in")))
    h.update(_read(os.path.join(REPO, "CMakeLists.txt")))
    return h.hexdigest()


def ensure_tool():
    src = os.path.join(VERIF, "tools", "ssfacts.cc")
    if (not os.path.exists(SSFACTS)) or os.path.getmtime(SSFACTS) < os.path.getmtime(src):
        r = subprocess.run(["make", "-C", os.path.join(VERIF, "tools")],
                           stdout=subprocess.PIPE, stderr=subprocess.STDOUT)
        if r.returncode != 0:
            raise AnalysisIncomplete("cannot build ssfacts:\n" + r.stdout.decode()[-2000:])
    return hashlib.sha256(_read(SSFACTS)).hexdigest()


def extract(config="NDEBUG", only=None, extra_sources=None):
    """Returns {unit: json_path}.  extra_sources: list of absolute paths of
    fixture files analysed with the same flags."""
    toolh = ensure_tool()
    th = _tree_hash()
    fl = flags(config)
    us = units()
    if only is not None:
        us = [u for u in us if u in only]
    jobs = []
    out = {}
    outdir = os.path.join(CACHE, "facts", config)
    os.makedirs(outdir, exist_ok=True)
    items = [(u, os.path.join(REPO, "src", u)) for u in us]
    for p in (extra_sources or []):
        items.append(("fixture:" + os.path.basename(p), p))
    for u, path in items:
        h = hashlib.sha256()
        h.update(toolh.encode())
        h.update(th.encode())
        h.update(" ".join(fl).encode())
        h.update(path.encode())
        h.update(_read(path))
        key = h.hexdigest()[:24]
        jp = os.path.join(outdir, re.sub(r"[^\w.]", "_", u) + "." + key + ".json")
        out[u] = jp
        if not os.path.exists(jp):
            jobs.append((u, path, jp))

    def run(job):
        u, path, jp = job
        tmp = jp + ".tmp%d" % os.getpid()
        r = subprocess.run([SSFACTS, tmp, path, "--"] + fl,
                           stdout=subprocess.PIPE, stderr=subprocess.PIPE)
        if r.returncode != 0 or not os.path.exists(tmp):
            return (u, r.stderr.decode()[-3000:])
        os.replace(tmp, jp)
        return (u, None)

    if jobs:
        with ThreadPoolExecutor(max_workers=16) as ex:
            res = list(ex.map(run, jobs))
        bad = [(u, e) for u, e in res if e]
        if bad:
            raise AnalysisIncomplete("ssfacts failed on %s:\n%s" % (bad[0][0], bad[0][1]))
        # drop stale cache entries of the same unit
        keep = set(out.values())
        for fn in os.listdir(outdir):
            p = os.path.join(outdir, fn)
            if p not in keep and fn.endswith(".json"):
                stem = fn.rsplit(".", 2)[0]
                if any(os.path.basename(k).rsplit(".", 2)[0] == stem for k in keep):
                    # only entries that have not been touched for an hour: a concurrent run on
                    # another tree (self-test scratch copies) may still need its own
                    try:
                        if time.time() - os.path.getmtime(p) > 3600:
                            os.remove(p)
                    except OSError:
                        pass
    return out


if __name__ == "__main__":
    import time
    t = time.time()
    o = extract(sys.argv[1] if len(sys.argv) > 1 else "NDEBUG")
    print(len(o), "units", round(time.time() - t, 2), "s")
