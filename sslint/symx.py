"""Path-wise symbolic evaluation of loop-free functions.

Every acyclic path from the entry to the exit of the CFG is walked element by
element with an environment that maps lvalue paths (written over *values*, not
variable names: `ph->frame` with ph = get(h, i) is `get(h, i)->frame`) to
polynomials over opaque atoms (lin.py).  Branches record the truth of their
(normalised) condition; a path that needs one condition both ways is dropped,
as is a branch whose condition folds to a constant.  The result lets a rule ask
"what is stored in seg->sf when there is no predecessor" without caring whether
the source says `x = c ? a : b`, `if (c) x = a; else x = b;`, goes through
temporaries or tests the negated condition.

This is abstract interpretation over the syntax tree and the CFG: nothing is
executed and no solver is involved; conditions are compared syntactically after
normalisation.
"""
from . import lin
from .prog import AnalysisIncomplete

LOGGING = ("err_msg", "err_msg_system", "__assert_fail", "printf", "fprintf")


class _Fork(Exception):
    def __init__(self, node, n):
        self.node, self.n = node, n


class _Infeasible(Exception):
    pass


class Path:
    def __init__(self):
        self.choice = {}
        self.callocc = {}    # term of an impure call -> nodes that produced it on this path, in order
        self.env = {}
        self.atoms = {}
        self.val = {}
        self.ret = None
        self.calls = []
        self.blocks = []
        self.stores = []     # (path, poly, node) in order
        self.events = []     # ("store", path, poly, node) / ("call", callee, [args], node) in order
        self.end = None
        self.epoch = ""

    def get(self, path):
        v = self.env.get(path)
        if v is not None:
            return v
        if self.epoch and any(c in path for c in ("->", "[", "*", ".")):
            # memory read after a loop may have changed it: a value of its own, not the one read before
            return lin.p_atom("%s@%s" % (path, self.epoch))
        return lin.p_atom(path)

    def stored(self, path):
        """the last value this path stored into `path` (None if it did not), whether or not a later
        call may have changed the memory since"""
        for (pth, v, n) in reversed(self.stores):
            if pth == path:
                return v
        return None

    def truth(self, term):
        """True / False / None for a normalised condition key"""
        return self.atoms.get(term)


def _wrap(s):
    if s and (s[0] == "(" or all(ch.isalnum() or ch in "_$@+" for ch in s)):
        return s
    if all(ch.isalnum() or ch in "_$>.-[]@+" for ch in s) and not s.startswith("-") and " " not in s:
        return s
    return "(%s)" % s


def plain(s):
    """a term without the marks of loop abstraction (x@L1, p->f@L2+): for rules that compare within one
    trip through a loop"""
    import re as _re
    if isinstance(s, tuple):
        return tuple(plain(x) for x in s)
    if isinstance(s, list):
        return [plain(x) for x in s]
    return _re.sub(r"@L\d+\+?|(?<=\))#\d+", "", s) if isinstance(s, str) else s


# when set, memory reads are recorded as ("read", path, None, node) events (rules that bound the reads of a span)
LOG_READS = False


class _Ev:
    def __init__(self, fn, P):
        self.fn = fn
        self.P = P
        self.ptr = {}       # rendering of a pointer-typed sum -> its pointer operand (a one-atom polynomial)

    def callee_paths(self, cal, args):
        P = self.P
        if P is None or getattr(self, "depth", 0) >= 2:
            return None
        from .prog import _anchors
        A = _anchors()
        if A is None:
            return None
        known = A.get("_names")
        if known is None:
            known = set(k.split(":", 1)[1] for k in A["functions"])
            A["_names"] = known
        if cal in known:
            return None
        cands = [g for g in P.fn_index.get(cal, []) if g.unit == self.fn.unit]
        if len(cands) != 1 or len(cands[0].params) != len(args):
            return None
        key = (cal, tuple(args))
        cache = self.__dict__.setdefault("_cpaths", {})
        if key not in cache:
            g = cands[0]
            try:
                init = {}
                for prm, a_ in zip(g.params, args):
                    init[prm[0]] = self._argvals.get(a_, lin.p_atom(a_))
                cache[key] = run_paths(g, P, limit=64, init_env=init, depth=getattr(self, "depth", 0) + 1, ptr=self.ptr)
            except AnalysisIncomplete:
                cache[key] = None
        return cache[key]

    def split_ptr(self, v):
        """(base, index) of a pointer value `base + index`, or None"""
        if len(v) <= 1:
            return None
        base = self.ptr.get(lin.p_str(v))
        if base is None:
            cands = [m for m in v if len(m) == 1 and v[m] == 1 and "(" not in m[0] and not m[0].lstrip("-").isdigit()]
            if len(cands) != 1:
                return None
            base = {cands[0]: 1}
        return base, lin.p_add(v, base, -1)

    # ---- lvalue paths ---------------------------------------------------
    def lv(self, p, j):
        fn = self.fn
        j = fn.strip(j, casts=False)
        nd = fn.nodes[j]
        k = nd["k"]
        if k == "DeclRef":
            return nd["name"]
        if k == "Member":
            b = nd["ch"][0]
            bs = fn.strip(b)
            bn = fn.nodes[bs]
            if nd.get("arrow"):
                if bn["k"] == "Un" and bn["op"] == "&":
                    return "%s.%s" % (self.lv(p, bn["ch"][0]), nd["field"])
                bp_ = self.ev(p, b)
                bv = lin.p_str(bp_)
                if bv.startswith("&") and " + " not in bv:
                    return "%s.%s" % (bv[1:], nd["field"])          # (&X)->f is X.f
                sp_ = self.split_ptr(bp_)
                if sp_ is not None:
                    # (ptr + i)->f is ptr[i].f
                    return "%s[%s].%s" % (_wrap(lin.p_str(sp_[0])), lin.p_str(sp_[1]), nd["field"])
                return "%s->%s" % (_wrap(bv), nd["field"])
            if bn["k"] == "Un" and bn["op"] == "*":
                return "%s->%s" % (_wrap(lin.p_str(self.ev(p, bn["ch"][0]))), nd["field"])
            return "%s.%s" % (self.lv(p, b), nd["field"])
        if k == "Subscript":
            bv = self.ev(p, nd["ch"][0])
            iv = self.ev(p, nd["ch"][1])
            sp_ = self.split_ptr(bv)
            if sp_ is not None:
                # (ptr + a)[b] is ptr[a + b]
                bv, iv = sp_[0], lin.p_add(iv, sp_[1])
            return "%s[%s]" % (_wrap(lin.p_str(bv)), lin.p_str(iv))
        if k == "Un" and nd["op"] == "*":
            inner = fn.strip(nd["ch"][0])
            if fn.nodes[inner]["k"] == "Un" and fn.nodes[inner]["op"] == "&":
                return self.lv(p, fn.nodes[inner]["ch"][0])
            # *(ptr + i) is ptr[i]
            v = self.ev(p, nd["ch"][0])
            if len(v) > 1:
                base = None
                if fn.nodes[inner]["k"] == "Bin" and fn.nodes[inner]["op"] in ("+", "-"):
                    a, b = fn.nodes[inner]["ch"]
                    pa = "*" in fn.nodes[a].get("ct", fn.nodes[a].get("t", "")) or "[" in fn.nodes[a].get("t", "")
                    base = self.ev(p, a if pa else b)
                    if not (len(base) == 1 and list(base.values()) == [1]):
                        base = None
                if base is None:
                    # `*p++` and the like: the pointer is the plain variable / path among the terms
                    cands = [m for m in v if len(m) == 1 and v[m] == 1 and "(" not in m[0] and not m[0].lstrip("-").isdigit()]
                    if len(cands) == 1:
                        base = {cands[0]: 1}
                if base is not None:
                    return "%s[%s]" % (_wrap(lin.p_str(base)), lin.p_str(lin.p_add(v, base, -1)))
            return "*%s" % _wrap(lin.p_str(v))
        if k in ("Cast", "Paren", "ICast"):
            return self.lv(p, nd["ch"][0])
        return lin.p_str(self.ev(p, j))

    # ---- values -----------------------------------------------------------
    def ev(self, p, j):
        if j in p.val:
            return p.val[j]
        v = self._ev(p, j)
        p.val[j] = v
        return v

    def _ev(self, p, j):
        fn = self.fn
        nd = fn.nodes[j]
        k = nd["k"]
        if k in ("Paren", "ICast", "Cast", "ConstantExpr"):
            if "cv" in nd and isinstance(nd["cv"], int):
                return lin.p_const(nd["cv"])
            return self.ev(p, nd["ch"][0])
        if k in ("Int", "Char"):
            return lin.p_const(int(nd["v"]))
        if k == "Null":
            return lin.p_const(0)
        if "cv" in nd and isinstance(nd["cv"], int) and k not in ("DeclRef", "Member", "Subscript", "Call"):
            return lin.p_const(nd["cv"])
        if k == "DeclRef":
            if nd.get("ref") in ("local", "param"):
                return p.get(nd["name"])
            return lin.p_atom(nd["name"])
        if k in ("Member", "Subscript"):
            own = self.lv(p, j)
            if LOG_READS:
                p.events.append(("read", own, None, j))
            if own in p.env:
                return p.env[own]
            if k == "Member" and not nd.get("arrow"):
                # a field of a struct variable that was last assigned as a whole
                b = fn.strip(nd["ch"][0], casts=False)
                if fn.nodes[b]["k"] == "DeclRef" and fn.nodes[b]["name"] in p.env:
                    return p.get("%s.%s" % (_wrap(lin.p_str(p.env[fn.nodes[b]["name"]])), nd["field"]))
            return p.get(own)
        if k == "Un":
            op = nd["op"]
            if op == "*":
                if LOG_READS:
                    p.events.append(("read", self.lv(p, j), None, j))
                return p.get(self.lv(p, j))
            if op == "&":
                sj = fn.strip(nd["ch"][0], casts=False)
                if fn.nodes[sj]["k"] == "Subscript":
                    # &a[i] is a + i
                    bv_, iv_ = self.ev(p, fn.nodes[sj]["ch"][0]), self.ev(p, fn.nodes[sj]["ch"][1])
                    r_ = lin.p_add(bv_, iv_)
                    base = bv_ if (len(bv_) == 1 and list(bv_.values()) == [1]) else self.ptr.get(lin.p_str(bv_))
                    if base is not None and len(r_) > 1:
                        self.ptr[lin.p_str(r_)] = base
                    return r_
                return lin.p_atom("&" + _wrap(self.lv(p, nd["ch"][0])))
            if op == "-":
                return lin.p_mul(lin.p_const(-1), self.ev(p, nd["ch"][0]))
            if op == "+":
                return self.ev(p, nd["ch"][0])
            if op in ("post++", "pre++", "post--", "pre--"):
                path = self.lv(p, nd["ch"][0])
                old = p.get(path)
                new = lin.p_add(old, lin.p_const(1), 1 if "++" in op else -1)
                p.env[path] = new
                p.stores.append((path, new, j))
                p.events.append(("store", path, new, j))
                return old if op.startswith("post") else new
            return lin.p_atom("%s%s" % (op, _wrap(lin.p_str(self.ev(p, nd["ch"][0])))))
        if k == "Bin":
            op = nd["op"]
            a, b = nd["ch"]
            if op in ("&&", "||"):
                return lin.p_atom("(%s %s %s)" % (fn.canon(a, subst=False), op, fn.canon(b, subst=False)))
            va, vb = self.ev(p, a), self.ev(p, b)
            if op in ("+", "-"):
                r_ = lin.p_add(va, vb, 1 if op == "+" else -1)
                if "*" in nd.get("ct", nd.get("t", "")):
                    # remember which operand of a pointer-typed sum is the pointer
                    pa = "*" in fn.nodes[a].get("ct", fn.nodes[a].get("t", "")) or "[" in fn.nodes[a].get("t", "")
                    pv = va if pa else vb
                    base = pv if (len(pv) == 1 and list(pv.values()) == [1]) else self.ptr.get(lin.p_str(pv))
                    if base is not None and len(r_) > 1:
                        self.ptr[lin.p_str(r_)] = base
                return r_
            if op == "*":
                return lin.p_mul(va, vb)
            if op == ",":
                return vb
            sa, sb = lin.p_str(va), lin.p_str(vb)
            if op in (">", ">="):
                op = "<" if op == ">" else "<="
                sa, sb = sb, sa
            if op in ("==", "!=", "&", "|", "^") and sb < sa:
                sa, sb = sb, sa
            return lin.p_atom("(%s %s %s)" % (sa, op, sb))
        if k == "Assign":
            path = self.lv(p, nd["ch"][0])
            v = self.ev(p, nd["ch"][1])
            for key in [k_ for k_ in p.env if k_.startswith(path + ".")]:
                del p.env[key]       # whole-struct assignment
            p.env[path] = v
            p.stores.append((path, v, j))
            p.events.append(("store", path, v, j))
            return v
        if k == "CompoundAssign":
            path = self.lv(p, nd["ch"][0])
            old = p.get(path)
            r = self.ev(p, nd["ch"][1])
            op = nd["op"]
            if op == "+=":
                v = lin.p_add(old, r)
            elif op == "-=":
                v = lin.p_add(old, r, -1)
            elif op == "*=":
                v = lin.p_mul(old, r)
            else:
                v = lin.p_atom("(%s %s %s)" % (lin.p_str(old), op[:-1], lin.p_str(r)))
            p.env[path] = v
            p.stores.append((path, v, j))
            p.events.append(("store", path, v, j))
            return v
        if k == "Var":
            if nd["ch"] and fn.nodes[nd["ch"][0]]["k"] != "Absent":
                v = self.ev(p, nd["ch"][0])
                p.env[nd["name"]] = v
                p.stores.append((nd["name"], v, j))
                p.events.append(("store", nd["name"], v, j))
                return v
            p.env.pop(nd["name"], None)
            return lin.p_atom(nd["name"])
        if k == "Decl":
            for c in nd["ch"]:
                if fn.nodes[c]["k"] == "Var":
                    self.ev(p, c)
            return {}
        if k == "Call":
            argv = [self.ev(p, a) for a in nd["ch"][1:]]
            args = [lin.p_str(a) for a in argv]
            self._argvals = dict(zip(args, argv))
            cal = nd.get("callee")
            sub = self.callee_paths(cal, args) if cal else None
            if sub:
                # a helper that did not exist when the rules were confirmed and could not be presented at its
                # call (it sits in a loop condition or under && / ||): the caller's path goes through each
                # of the helper's paths in turn
                if j not in p.choice:
                    raise _Fork(j, len(sub))
                cp = sub[p.choice[j]]
                for key, pol in cp.atoms.items():
                    if p.atoms.get(key, pol) != pol:
                        raise _Infeasible()
                    p.atoms[key] = pol
                p.events.extend(cp.events)
                p.calls.extend(cp.calls)
                for pth, v_ in cp.env.items():
                    if any(c_ in pth for c_ in ("->", "[", "*", ".")):
                        p.env[pth] = v_
                p.stores.extend(x_ for x_ in cp.stores if any(c_ in x_[0] for c_ in ("->", "[", "*", ".")))
                return cp.ret if cp.ret is not None else {}
            if not cal:
                # a call through a pointer: the function it holds on this path, if known
                cv_ = lin.p_str(self.ev(p, nd["ch"][0]))
                cal = cv_ if all(ch.isalnum() or ch == "_" for ch in cv_) else fn.canon(nd["ch"][0], subst=False)
            p.calls.append((cal, args, j))
            p.events.append(("call", cal, args, j))
            if cal not in LOGGING and not (self.P is not None and nd.get("callee") and self.P.is_pure(cal)):
                # memory reachable from the callee may change
                for key in [k_ for k_ in p.env if any(c in k_ for c in ("->", "[", "*", "."))]:
                    del p.env[key]
                # what an impure call returns is a value of its own each time it is made: the second
                # identical call of a path is marked #2, and a call made after a loop went round carries
                # the loop's mark like a memory read does
                term = "%s(%s)" % (cal, ", ".join(args))
                if p.epoch:
                    term += "@" + p.epoch
                occ = p.callocc.setdefault(term, [])
                if j not in occ:
                    occ.append(j)
                n_ = occ.index(j)
                return lin.p_atom(term if n_ == 0 else "%s#%d" % (term, n_ + 1))
            return lin.p_atom("%s(%s)" % (cal, ", ".join(args)))
        if k == "Cond":
            c, a, b = nd["ch"]
            ta = any(x in p.val for x in fn.walk(a))
            tb = any(x in p.val for x in fn.walk(b))
            if ta and not tb:
                return self.ev(p, a)
            if tb and not ta:
                return self.ev(p, b)
            return lin.p_atom("(%s ? %s : %s)" % (lin.p_str(self.ev(p, c)), lin.p_str(self.ev(p, a)), lin.p_str(self.ev(p, b))))
        if k == "Return" or k == "InlReturn":
            if nd["ch"] and fn.nodes[nd["ch"][0]]["k"] != "Absent":
                v = self.ev(p, nd["ch"][0])
                if k == "Return":
                    p.ret = v
                return v
            return {}
        if k == "Str":
            return lin.p_atom('"%s"' % nd.get("v", ""))
        if k == "Sizeof":
            return lin.p_atom(fn.canon(j, subst=False))
        return lin.p_atom(fn.canon(j, subst=False))

    # ---- conditions ---------------------------------------------------------
    def cond_key(self, p, c, pol):
        """(key, polarity, decided) with key a normalised description of the condition"""
        fn = self.fn
        j = fn.strip(c)
        nd = fn.nodes[j]
        if nd["k"] == "Un" and nd["op"] == "!":
            return self.cond_key(p, nd["ch"][0], not pol)
        if nd["k"] == "Bin" and nd["op"] in ("<", ">", "<=", ">=", "==", "!="):
            op = nd["op"]
            va, vb = self.ev(p, nd["ch"][0]), self.ev(p, nd["ch"][1])
            if op == ">":
                va, vb, op = vb, va, "<"
            elif op == ">=":
                op, pol = "<", not pol
            elif op == "<=":
                va, vb, op, pol = vb, va, "<", not pol
            elif op == "!=":
                op, pol = "==", not pol
            d = lin.p_add(va, vb, -1)
            if not d or list(d.keys()) == [()]:
                cval = d.get((), 0)
                t = (cval < 0) if op == "<" else (cval == 0)
                return None, pol, (t == pol)
            if op == "==":
                for vz, vo in ((vb, va), (va, vb)):
                    if not vz:
                        if (len(vo) == 1 and list(vo.values()) == [1] and list(vo.keys())[0][0].startswith("&")) or lin.p_str(vo) in self.ptr:
                            return None, pol, (not pol)      # &x == NULL is false
                        return ("nz", lin.p_str(vo)), not pol, None
                sa, sb = sorted((lin.p_str(va), lin.p_str(vb)))
                return ("==", sa, sb), pol, None
            return ("<", lin.p_str(va), lin.p_str(vb)), pol, None
        v = self.ev(p, j)
        if not v or list(v.keys()) == [()]:
            return None, pol, (bool(v.get((), 0)) == pol)
        if (len(v) == 1 and list(v.values()) == [1] and list(v.keys())[0][0].startswith("&")) or lin.p_str(v) in self.ptr:
            return None, pol, pol            # the address of an object is not null
        return ("nz", lin.p_str(v)), pol, None


def loop_paths(fn, loop, P=None, limit=4096):
    """the feasible acyclic paths through one iteration of a loop (For / While / Do node): from the first
    block of the body until the loop's condition is reached again (`end` = "next"), the loop is left
    by break / goto (`end` = "break") or the function returns (`end` = "exit").  Inner loops are not
    supported.  Values are relative to the state at the start of the iteration."""
    cfg = fn.cfg
    hdr = [b for b, blk in cfg.blocks.items() if blk.get("term") == loop and blk.get("cond") is not None]
    if len(hdr) != 1:
        raise AnalysisIncomplete("loop header of %s not found in the CFG" % fn.name)
    h = hdr[0]
    ss = cfg.succs[h]
    if len(ss) != 2 or ss[0] is None:
        raise AnalysisIncomplete("loop header of %s has no body" % fn.name)
    body, after = ss[0], ss[1]
    if fn.nodes[loop]["k"] == "Do":
        # the condition block comes last: the body starts at the loop's own first block
        inside = set(fn.walk(loop))
        cands = [b for b, blk in cfg.blocks.items() if any(e in inside for e in blk["elems"]) and not any(any(e in inside for e in cfg.blocks[p_]["elems"]) for p_ in cfg.preds[b] if p_ != h and cfg.succs[h][0] != b)]
        body = ss[0]
    return run_paths(fn, P, limit, start=body, stops={h: "next", after: "break"})


def run_paths(fn, P=None, limit=4096, start=None, stops=None, init_env=None, depth=0, ptr=None):
    """all feasible acyclic entry->exit paths of a loop-free function (or of the region from block
    `start` to the blocks in `stops`, which are not executed; each path gets `.end`)"""
    cfg = fn.cfg
    ev = _Ev(fn, P)
    ev.depth = depth
    ev._argvals = {}
    if ptr is not None:
        ev.ptr = ptr            # what the caller knows about pointer sums holds in the helper too
    out = []
    count = [0]
    stops = stops or {}

    # inner loops are abstracted: at the first visit of a loop header everything the loop may write is
    # forgotten; the path then either leaves through the loop's exit edge or goes through the body once
    # (to find the break / return paths out of it)
    headers = {}
    color = {}
    stack = [(cfg.entry if start is None else start, iter(cfg.succs[cfg.entry if start is None else start]))]
    color[stack[0][0]] = 1
    while stack:
        u, it = stack[-1]
        adv = False
        for v in it:
            if v is None or v in stops:
                continue
            if color.get(v) == 1:
                tn = cfg.blocks[v].get("term")
                un = cfg.blocks[u].get("term")
                if tn is not None and tn >= 0 and fn.nodes[tn]["k"] in ("For", "While"):
                    headers[v] = tn
                elif un is not None and un >= 0 and fn.nodes[un]["k"] == "Do":
                    headers[v] = un
                else:
                    # the back edge of a for / while body enters the increment / condition block, which may
                    # be split from the block that carries the terminator: find the enclosing loop statement
                    cand = [cfg.blocks[x].get("term") for x in cfg.blocks if cfg.blocks[x].get("term") is not None and cfg.blocks[x]["term"] >= 0 and fn.nodes[cfg.blocks[x]["term"]]["k"] in ("For", "While", "Do") and any(e in set(fn.walk(cfg.blocks[x]["term"])) for e in cfg.blocks[v]["elems"] if e >= 0)]
                    if not cand:
                        raise AnalysisIncomplete("%s: loop without a loop statement" % fn.name)
                    headers[v] = max(cand, key=lambda n_: len(list(fn.ancestors(n_))))
            elif v not in color:
                color[v] = 1
                stack.append((v, iter(cfg.succs[v])))
                adv = True
                break
        if not adv:
            color[u] = 2
            stack.pop()

    loop_no = {}
    for n_, l_ in enumerate(sorted([x for x in fn.walk() if fn.k(x) in ("For", "While", "Do")], key=lambda x: (fn.line(x), x))):
        loop_no[l_] = n_ + 1

    def havoc(p, b, again=False):
        from . import paths as _paths
        ln = headers[b]
        mem = False
        consts = {}
        for s_ in _paths.stores(fn, ln):
            nm = s_["path"]
            if all(ch.isalnum() or ch in "_$" for ch in nm):
                cv_ = fn.constval(s_["rhs"]) if (s_["op"] == "=" and s_["rhs"] is not None) else None
                consts.setdefault(nm, set()).add(cv_)
            else:
                mem = True
        for nm, cs_ in consts.items():
            # a flag that the loop only ever sets to one constant keeps that constant once it has it
            if len(cs_) == 1 and None not in cs_ and p.env.get(nm) == lin.p_const(list(cs_)[0]):
                continue
            p.env[nm] = lin.p_atom("%s@L%d%s" % (nm, loop_no[ln], "+" if again else ""))
        for v_ in fn.find("Var", root=ln):
            p.env.pop(fn.nodes[v_]["name"], None)
        if mem or fn.calls(root=ln):
            for key in [k_ for k_ in p.env if any(c in k_ for c in ("->", "[", "*", "."))]:
                del p.env[key]
            p.epoch = "L%d%s" % (loop_no[ln], "+" if again else "")
        # cached values of expressions inside the loop are stale
        for e in fn.walk(ln):
            p.val.pop(e, None)

    def step(p, b):
        els = cfg.blocks[b]["elems"]
        for e in els:
            if e >= 0:
                ev.ev(p, e)

    def clone(p):
        q = Path()
        q.env = dict(p.env)
        q.atoms = dict(p.atoms)
        q.val = dict(p.val)
        q.ret = p.ret
        q.calls = list(p.calls)
        q.blocks = list(p.blocks)
        q.stores = list(p.stores)
        q.events = list(p.events)
        q.end = p.end
        q.epoch = p.epoch
        q.choice = dict(p.choice)
        q.callocc = {k_: list(v_) for k_, v_ in p.callocc.items()}
        return q

    def go(p, b):
        count[0] += 1
        if count[0] > limit * 8:
            raise AnalysisIncomplete("too many paths in %s" % fn.name)
        if b in stops and p.blocks:
            p.end = stops[b]
            out.append(p)
            if len(out) > limit:
                raise AnalysisIncomplete("too many paths in %s" % fn.name)
            return
        if b in p.blocks:
            if b not in headers:
                raise AnalysisIncomplete("%s: irreducible flow" % fn.name)
            # loops are abstracted: the first trip through the body starts from the exact state before
            # the loop; back at the header everything the loop writes is forgotten ("after some
            # iterations") and the body may be taken once more from that unknown state; back again, the
            # state is forgotten once more and the loop is left
            n_ = p.blocks.count(b)
            isdo = fn.nodes[headers[b]]["k"] == "Do"
            if n_ >= 3 or (isdo and n_ >= 2):
                return
            havoc(p, b, again=(n_ == 2))
            if n_ == 1:
                # the blocks of the first trip may be visited again in the generic trip
                first = p.blocks.index(b)
                p.blocks = p.blocks[:first + 1]
            if n_ == 2:
                p.blocks.append(b)
                step(p, b)
                conds = {}
                for (s0, d0, c, pol) in cfg.cond_edges():
                    if s0 == b:
                        conds[pol] = (d0, c)
                if False not in conds:
                    return
                d0, c = conds[False]
                key, kpol, decided = ev.cond_key(p, c, False)
                if decided is False:
                    return
                if key is not None:
                    p.atoms[key] = kpol
                    p.events.append(("branch", key, kpol, c))
                go(p, d0)
                return
        cont(p, b)

    def cont(p, b):
        p0 = clone(p)
        p.blocks.append(b)
        try:
            step(p, b)
        except _Fork as fk:
            for k_ in range(fk.n):
                q = clone(p0)
                q.choice[fk.node] = k_
                cont(q, b)
            return
        except _Infeasible:
            return
        if b == cfg.exit:
            p.end = "exit"
            out.append(p)
            if len(out) > limit:
                raise AnalysisIncomplete("too many paths in %s" % fn.name)
            return
        ss = [s for s in cfg.succs[b]]
        conds = {}
        for (s0, d0, c, pol) in cfg.cond_edges():
            if s0 == b:
                conds[pol] = (d0, c)
        if len(ss) == 2 and ss[0] is not None and ss[1] is not None and ss[0] != ss[1] and True in conds and False in conds:
            for pol in (True, False):
                d0, c = conds[pol]
                q = clone(p)
                key, kpol, decided = ev.cond_key(q, c, pol)
                if decided is False:
                    continue
                if key is not None:
                    if q.atoms.get(key, kpol) != kpol:
                        continue
                    q.atoms[key] = kpol
                    q.events.append(("branch", key, kpol, c))
                go(q, d0)
            return
        nxt = [s for s in ss if s is not None]
        seen = set()
        for s in nxt:
            if s in seen:
                continue
            seen.add(s)
            go(clone(p) if len(set(nxt)) > 1 else p, s)

    p_init = Path()
    if init_env:
        p_init.env.update(init_env)
    go(p_init, cfg.entry if start is None else start)
    return out


def field_of(term, field):
    """the lvalue path of `term->field` as the evaluator spells it"""
    if term.startswith("&") and " + " not in term:
        return "%s.%s" % (term[1:], field)
    parts = term.split(" + ")
    if len(parts) == 2 and "(" not in term:
        # a pointer sum `base + index` (base is the path, index the plain name or number)
        base, idx = (parts[0], parts[1]) if ("->" in parts[0] or "." in parts[0]) else (parts[1], parts[0])
        if ("->" in base or "." in base) and "->" not in idx and "." not in idx:
            return "%s[%s].%s" % (base, idx, field)
    return "%s->%s" % (_wrap(term), field)


def arg_bounds(fn, P, call, ai):
    """(lower, upper, n, facts): on every value path that makes the call `call` (a node), is its argument ai
    known to be bounded below by a number (k < v, k <= v) and bounded above (v < t, v <= t)?  Decides range
    tests that reach the call through a flag or a helper's status instead of dominating it.  The paths are
    those of the innermost enclosing loop's body, or of the function.  n is the number of paths seen; facts
    is the set of orderings (a, "<" | "<=", b), with "v" standing for the argument, known on all of them."""
    import re as _re
    loop = None
    for a in fn.ancestors(call):
        if fn.k(a) in ("While", "For", "Do"):
            loop = a
            break
    pts = loop_paths(fn, loop, P) if loop is not None else run_paths(fn, P)
    lo = hi = True
    n = 0
    facts = None
    num = lambda t: _re.match(r"^-?[\d.]+$", t) is not None
    for pt in pts:
        for ev_ in pt.events:
            if ev_[0] != "call" or ev_[3] != call:
                continue
            n += 1
            v = ev_[2][ai]
            l_ = h_ = False
            fs = set()
            for k_, pol in pt.atoms.items():
                if k_[0] != "<" or v not in (k_[1], k_[2]):
                    continue
                a_, b_ = ("v" if k_[1] == v else k_[1]), ("v" if k_[2] == v else k_[2])
                fs.add((a_, "<", b_) if pol else (b_, "<=", a_))
            for (a_, op_, b_) in fs:
                if b_ == "v" and num(a_):
                    l_ = True
                if a_ == "v":
                    h_ = True
            facts = fs if facts is None else (facts & fs)
            lo, hi = lo and l_, hi and h_
    return (lo and n > 0, hi and n > 0, n, facts or set())
