"""C08 — utterances and decoders are isolated; decoding is deterministic.

Decides G1 (no hidden shared mutable state: census of every object of static
storage that is not const, and of its writers) and G2 (every piece of
per-utterance state is re-initialised on the start-of-utterance path, or is in
the reasoned table of carry-overs; the resets the table relies on are still
there).  Not decided: equality of outputs; reads of uninitialised heap.
"""
import re

from .. import build, paths
from ..prog import AnalysisIncomplete

GENERATED = ("jsgf_parser.c", "jsgf_scanner.c")

# ---- G1 table: writable static storage ----------------------------------------------------------
# (file suffix, name) -> (status, reason)
G1_TABLE = {
    ("err.c", "err_cb"): ("allowed", "process-wide logging callback, documented; not part of a decoding result"),
    ("err.c", "err_user_data"): ("allowed", "argument of the logging callback"),
    ("err.c", "min_loglevel"): ("allowed", "process-wide log level"),
    ("genrand.c", "mt"): ("finding", "Mersenne-twister state shared by all front ends when dither is on; never reseeded at utterance start"),
    ("genrand.c", "mti"): ("finding", "Mersenne-twister index, as above"),
    ("fe_warp_affine.c", "params"): ("init-only", "warping parameters are file statics, but they are set by fe_warp_set_parameters immediately before fe_build_melfilters reads them inside fe_init and are never touched at decode time (condition checked: no reference from any function reachable from the utterance-time API)"),
    ("fe_warp_affine.c", "is_neutral"): ("init-only", "as above"),
    ("fe_warp_affine.c", "nyquist_frequency"): ("init-only", "as above"),
    ("fe_warp_affine.c", "p_str"): ("init-only", "as above (parameter string cache)"),
    ("fe_warp_inverse_linear.c", "params"): ("init-only", "as above"),
    ("fe_warp_inverse_linear.c", "is_neutral"): ("init-only", "as above"),
    ("fe_warp_inverse_linear.c", "nyquist_frequency"): ("init-only", "as above"),
    ("fe_warp_inverse_linear.c", "p_str"): ("init-only", "as above"),
    ("fe_warp_piecewise_linear.c", "params"): ("init-only", "as above"),
    ("fe_warp_piecewise_linear.c", "is_neutral"): ("init-only", "as above"),
    ("fe_warp_piecewise_linear.c", "nyquist_frequency"): ("init-only", "as above"),
    ("fe_warp_piecewise_linear.c", "final_piece"): ("init-only", "as above"),
    ("fe_warp_piecewise_linear.c", "p_str"): ("init-only", "as above"),
}
LIBC_WRITERS = {"strcpy": 0, "strncpy": 0, "strcat": 0, "sprintf": 0, "snprintf": 0, "memcpy": 0, "memset": 0, "memmove": 0, "sscanf": None}

# ---- G2 tables --------------------------------------------------------------------------------------
# resets the start-of-utterance path must perform: (function, unit, canonical store path, value or None)
REQUIRED = [
    ("acmod_start_utt", "acmod.c", "acmod->state", "ACMOD_STARTED"), ("acmod_start_utt", "acmod.c", "acmod->n_mfc_frame", "0"), ("acmod_start_utt", "acmod.c", "acmod->n_feat_frame", "0"),
    ("acmod_start_utt", "acmod.c", "acmod->mfc_outidx", "0"), ("acmod_start_utt", "acmod.c", "acmod->feat_outidx", "0"), ("acmod_start_utt", "acmod.c", "acmod->output_frame", "0"),
    ("acmod_start_utt", "acmod.c", "acmod->senscr_frame", "-1"), ("acmod_start_utt", "acmod.c", "acmod->n_senone_active", "0"), ("acmod_start_utt", "acmod.c", "acmod->mgau->frame_idx", "0"),
    ("fe_start", "fe_interface.c", "fe->num_overflow_samps", "0"), ("fe_start", "fe_interface.c", "fe->pre_emphasis_prior", "0"),
    ("fe_reset_noisestats", "fe_noise.c", "noise_stats->undefined", "1"),
    ("fsg_search_start", "fsg_search.c", "fsgs->beam_factor", "1"), ("fsg_search_start", "fsg_search.c", "fsgs->beam", "fsgs->beam_orig"), ("fsg_search_start", "fsg_search.c", "fsgs->pbeam", "fsgs->pbeam_orig"),
    ("fsg_search_start", "fsg_search.c", "fsgs->wbeam", "fsgs->wbeam_orig"), ("fsg_search_start", "fsg_search.c", "fsgs->final", "0"), ("fsg_search_start", "fsg_search.c", "fsgs->frame", "-1"),
    ("fsg_search_start", "fsg_search.c", "fsgs->bestscore", "0"), ("fsg_search_start", "fsg_search.c", "fsgs->bpidx_start", "0"), ("fsg_search_start", "fsg_search.c", "fsgs->n_hmm_eval", "0"),
    ("fsg_search_start", "fsg_search.c", "fsgs->n_sen_eval", "0"), ("fsg_search_start", "fsg_search.c", "fsgs->pnode_active_next", "0"),
    ("decoder_start_utt", "decoder.c", "d->search->dag", "0"), ("decoder_start_utt", "decoder.c", "d->search->last_link", "0"), ("decoder_start_utt", "decoder.c", "d->search->post", "0"),
    ("decoder_start_utt", "decoder.c", "d->search->hyp_str", "0"), ("decoder_start_utt", "decoder.c", "d->json_result", "0"),
    ("fsg_search_finish", "fsg_search.c", "fsgs->pnode_active", "0"), ("fsg_search_finish", "fsg_search.c", "fsgs->pnode_active_next", "0"), ("fsg_search_finish", "fsg_search.c", "fsgs->final", "1"),
]
# calls that must happen on every successful path of the start / finish functions
REQUIRED_CALLS = [
    ("decoder_start_utt", "decoder.c", "acmod_start_utt"), ("decoder_start_utt", "decoder.c", "lattice_free"), ("acmod_start_utt", "acmod.c", "fe_start"),
    ("fe_start", "fe_interface.c", "fe_reset_noisestats"), ("fe_start", "fe_interface.c", "memset"),
    ("fsg_search_start", "fsg_search.c", "fsg_history_reset"), ("fsg_search_start", "fsg_search.c", "fsg_history_entry_add"),
    ("decoder_end_utt", "decoder.c", "acmod_end_utt"),
]
# fields written while an utterance is processed that the start path does not (must-)reset: category, reason
CARRY = {
    ("cmn_s", "cmn_mean"): ("carry-over", "channel normalisation state: the one deliberate carry-over"), ("cmn_s", "cmn_var"): ("carry-over", "as above"), ("cmn_s", "sum"): ("carry-over", "as above"), ("cmn_s", "nframe"): ("carry-over", "as above"),
    ("acmod_s", "feat_buf"): ("capacity", "buffers only grow; contents rewritten before being read"), ("acmod_s", "framepos"): ("capacity", "as above"),
    ("acmod_s", "mfc_buf"): ("capacity", "as above"), ("acmod_s", "n_feat_alloc"): ("capacity", "allocation size"), ("acmod_s", "n_mfc_alloc"): ("capacity", "allocation size"),
    ("acmod_s", "grow_feat"): ("mode latch", "buffering mode; results-invariant only under C07"),
    ("acmod_s", "senone_active"): ("scratch", "rebuilt every frame from the active HMMs after acmod_clear_active"), ("acmod_s", "senone_active_vec"): ("scratch", "cleared every frame by acmod_clear_active"),
    ("fe_s", "overflow_samps"): ("lazy", "zeroed by the memset in fe_start (a call, not a store) and guarded by num_overflow_samps"), ("fe_s", "spch"): ("scratch", "frame buffer written before read each frame"),
    ("feat_s", "bufpos"): ("lazy", "emptied under begin-of-utterance in feat_s2mfc2feat_live (checked in C07)"), ("feat_s", "curpos"): ("lazy", "as above"), ("feat_s", "tmpcepbuf"): ("scratch", "pointer window rebuilt per frame"),
    ("decoder_s", "n_frame"): ("statistics", "total frames over the decoder's life"), ("decoder_s", "uttno"): ("statistics", "utterance counter"), ("fsg_search_s", "n_tot_frame"): ("statistics", "total frames"),
    ("decoder_s", "align"): ("reset", "freed and NULLed in decoder_start_utt under `d->align` (required instance below)"),
    ("decoder_s", "perf"): ("statistics", "timers"), ("fsg_search_s", "perf"): ("statistics", "timers"), ("decoder_s", "json_result"): ("reset", "required instance"),
    ("hmm_s", "bestscore"): ("reset at end", "hmm_clear via fsg_psubtree_pnode_deactivate for every active node in fsg_search_finish / per frame"), ("hmm_s", "out_score"): ("reset at end", "as above"),
    ("hmm_s", "out_history"): ("reset at end", "as above"), ("hmm_s", "ctx"): ("construction", "hmm_init when the lexical tree / aligner is built"), ("hmm_s", "mpx"): ("construction", "as above"),
    ("hmm_s", "n_emit_state"): ("construction", "as above"), ("hmm_s", "senid"): ("construction", "hmm_init; multiplex ssid propagation is re-seeded by hmm_init only for mpx HMMs, which the FSG search does not use"),
    ("hmm_s", "ssid"): ("construction", "as above"), ("hmm_s", "tmatid"): ("construction", "as above"), ("hmm_s", "frame"): ("reset at end", "hmm_clear"), ("hmm_s", "score"): ("reset at end", "hmm_clear"), ("hmm_s", "history"): ("reset at end", "hmm_clear"),
    ("ms_mgau_model_s", "mgau_active"): ("scratch", "per-frame active list"), ("ptm_fast_eval_s", "mgau_active"): ("scratch", "per-frame bit vector, rebuilt from the active senones"),
    ("ptm_mgau_s", "f"): ("recomputed at frame 0", "pointer into the top-N history ring selected by frame_idx, which acmod_start_utt zeroes; frame 0 always takes the full-evaluation branch (0 % ds_ratio == 0)"),
    ("s2_semi_mgau_s", "f"): ("recomputed at frame 0", "as above"), ("s2_semi_mgau_s", "topn_hist_n"): ("recomputed at frame 0", "as above"),
    ("ptm_fast_eval_s", "topn"): ("recomputed at frame 0", "as above"), ("ptm_topn_s", "score"): ("recomputed at frame 0", "as above"), ("ptm_topn_s", "cw"): ("recomputed at frame 0", "as above"),
    ("noise_stats_s", "floor"): ("lazy", "re-initialised from the first frame when `undefined` is set, which fe_reset_noisestats does (required instance)"), ("noise_stats_s", "gain"): ("lazy", "as above"),
    ("noise_stats_s", "noise"): ("lazy", "as above"), ("noise_stats_s", "peak"): ("lazy", "as above"), ("noise_stats_s", "power"): ("lazy", "as above"), ("noise_stats_s", "signal"): ("lazy", "as above"),
    ("noise_stats_s", "slow_peak_sum"): ("lazy", "as above"), ("noise_stats_s", "undefined"): ("reset", "required instance"),
    ("search_module_s", "dag"): ("reset", "required instance"), ("search_module_s", "hyp_str"): ("reset", "required instance"), ("search_module_s", "last_link"): ("reset", "required instance"),
    ("search_module_s", "post"): ("reset", "required instance"),
    ("fsg_history_s", "n_ciphone"): ("construction", "set with the grammar"), ("fsg_history_s", "frame_entries"): ("construction", "allocated with the grammar; emptied by fsg_history_end_frame every frame"), ("fsg_history_s", "fsg"): ("construction", "set with the grammar"),
    ("fsg_search_s", "pnode_active"): ("reset at end", "required instance in fsg_search_finish; fsg_search_start asserts it is empty and installs the new list"),
}
# records that only exist per alignment / per search object construction (written through decoder_alignment -> *_init)
CONSTRUCTION_RECS = {"state_align_search_s": "object built for one alignment and released at the next start of utterance", "search_module_s": "identity fields set by search_module_init / reinit"}

# configuration fields: writing them while an utterance is processed makes later utterances depend on earlier ones
FORBIDDEN = {("feat_s", "cmn"): "the configured normalisation type", ("feat_s", "varnorm"): "configured variance normalisation", ("feat_s", "window_size"): "feature window",
             ("fsg_search_s", "beam_orig"): "configured beam", ("fsg_search_s", "pbeam_orig"): "configured beam", ("fsg_search_s", "wbeam_orig"): "configured beam",
             ("fsg_search_s", "wip"): "word insertion penalty", ("fsg_search_s", "pip"): "phone insertion penalty", ("fsg_search_s", "ascale"): "acoustic scale",
             ("fe_s", "frame_size"): "front-end geometry", ("fe_s", "frame_shift"): "front-end geometry", ("fe_s", "dither"): "front-end option"}

PER_UTT_RECS = {"fsg_search_s", "search_module_s", "acmod_s", "fe_s", "noise_stats_s", "feat_s", "fsg_history_s", "hmm_s", "decoder_s", "ptm_mgau_s", "s2_semi_mgau_s",
                "ms_mgau_model_s", "ptm_fast_eval_s", "ptm_topn_s", "state_align_search_s"}


def key(fn, what):
    return "%s:%s" % (fn.name, what)


def written_field(f, s):
    j = s["lhs"]
    while f.k(j) in ("Subscript",) or (f.k(j) == "Un" and f.nodes[j]["op"] == "*"):
        j = f.strip(f.ch(j)[0])
    nd = f.nodes[j]
    if nd["k"] == "Member" and nd.get("rec"):
        return (nd["rec"], nd["field"])
    return None


def success_returns(f):
    rs = []
    for r in f.find("Return"):
        if f.ch(r) and paths.is_const(f, f.ch(r)[0], -1):
            continue
        if f.ch(r) and f.canon(f.ch(r)[0], subst=False) in ("rv",) and paths.guarded(f, r, lambda fn, cc, pol: pol and (paths.rel(fn, cc, True, subst=False) or (0, 0, 0))[1] == "<"):
            continue
        rs.append(r)
    return rs


def must_before_success(f, node_pred, null_ok=None):
    """node_pred holds on every path from entry to a successful return; paths
    on which `null_ok` (the object the store goes through) is NULL are exempt"""
    removed = ()
    if null_ok:
        removed = paths.guard_edges(f, lambda fn, cc, pol: paths.cond_atoms(fn, cc, pol, subst=False) == (null_ok, False))
    rs = success_returns(f)
    if not rs:
        return not f.cfg.path_exists((f.cfg.entry, -1), "exit", is_barrier=node_pred, removed_edges=removed)
    return all(not f.cfg.path_exists((f.cfg.entry, -1), lambda e, r=r: e == r, is_barrier=node_pred, removed_edges=removed) for r in rs)


def required_resets(ctx, P, rid, only=None, only_paths=None):
    for (fname, unit, path, val) in REQUIRED:
        if only and fname not in only:
            continue
        if only_paths and path not in only_paths:
            continue
        f = P.fn(fname, unit)
        ctx.touch(f)
        ss = [s for s in paths.stores(f) if (s["path"] == path or s["spath"] == path) and s["rhs"] is not None and (val is None or f.canon(s["rhs"], subst=False) == val or (val in ("0", "1") and paths.is_const(f, s["rhs"], int(val))))]
        ok = any(must_before_success(f, lambda e, s=s: e == s["node"], null_ok=path.split("->")[0] if "->" in path else None) for s in ss)
        ctx.check(rid, ok, key(f, "reset:" + path), f.where(ss[0]["node"]) if ss else f.where(f.root), "`%s = %s` is no longer performed on every successful path of %s: state of the previous utterance leaks into the next one" % (path, val, fname))
    if only_paths:
        return
    for (fname, unit, cal) in REQUIRED_CALLS:
        if only and fname not in only:
            continue
        f = P.fn(fname, unit)
        ctx.touch(f)
        cs = f.calls(cal)
        ok = any(must_before_success(f, lambda e, c=c: e == c) for c in cs)
        ctx.check(rid, ok, key(f, "call:" + cal), f.where(cs[0]) if cs else f.where(f.root), "%s no longer calls %s on every successful path" % (fname, cal))
    if only and "decoder_start_utt" not in only and "decoder_start_utt_align_only" not in only:
        return
    # the aligner cache is emptied at the start of an utterance
    f = P.fn("decoder_start_utt", "decoder.c")
    nul = [s for s in paths.stores(f) if s["path"] == "d->align" and paths.is_const(f, s["rhs"], 0)]
    fr = [c for c in f.find("Call") if f.nodes[c].get("callee") == "search_module_free" or f.nodes[c].get("slot") == ["searchfuncs_s", "free"]]
    edges = paths.guard_edges(f, lambda fn, cc, pol: (not pol) and paths.cond_atoms(fn, cc, True, subst=False) == ("d->align", True))
    rs = success_returns(f)
    ok = len(nul) >= 1 and len(fr) >= 1 and all(not f.cfg.path_exists((f.cfg.entry, -1), lambda e, r=r: e == r, is_barrier=lambda e: e == nul[0]["node"], removed_edges=edges) for r in rs) and paths.always_before(f, nul[0]["node"], lambda e: e in fr)
    ctx.check(rid, ok, key(f, "reset:d->align"), f.where(f.root), "a state aligner left from the previous utterance is not released and forgotten at the start of an utterance: decoder_alignment would hand back the previous utterance's alignment when the frame counts coincide")
    # the reuse test in decoder_alignment compares the frame count
    da = P.fn("decoder_alignment", "decoder.c")
    reuse = [r for r in da.find("Return") if da.canon(da.ch(r)[0], subst=False) == "align->al"]
    ctx.check(rid, len(reuse) == 1 and paths.guarded(da, reuse[0], lambda fn, cc, pol: paths.rel(fn, cc, pol, subst=False) in (("align->frame", "==", "d->acmod->output_frame"), ("d->acmod->output_frame", "==", "align->frame"))), key(da, "reuse-test"), da.where(da.root), "a cached alignment is returned without comparing its frame count with the frames searched")


def import_rule(ctx, P):
    """decoder_set_cmn replaces the whole normalisation state"""
    r = ctx.rule("RESET.G4-cmn-import", "importing a channel mean replaces the whole state: before the values are parsed the mean and the sum are cleared over all veclen components (or every component is assigned), and the frame count is set; what an earlier utterance adapted must not survive in components the text does not name", floor=3)
    f = P.fn("cmn_set_repr", "cmn.c")
    ctx.touch(f)
    loops = f.find("While") + f.find("For")
    first = min(loops, key=lambda lp: f.line(lp)) if loops else None
    if first is None:
        raise AnalysisIncomplete("anchor vanished: parsing loop of cmn_set_repr")
    head = f.ch(first)[0] if f.k(first) == "While" else f.ch(first)[1]
    hs = set(f.walk(head)) | {head}
    for fld in ("cmn_mean", "sum"):
        clears = []
        for c in f.calls("memset"):
            a = f.args(c)
            if f.canon(a[0], subst=False) == "cmn->%s" % fld and f.constval(a[1]) == 0 and "cmn->veclen" in f.canon(a[2], subst=False):
                clears.append(c)
        ok = any(paths.always_before(f, head, lambda e, c=c: e == c) for c in clears)
        if not ok:
            # or a loop over all components that assigns each
            for lp in f.find("For"):
                q = paths.rel(f, f.ch(lp)[1], True, subst=False) if f.k(f.ch(lp)[1]) != "Absent" else None
                if q and q[1] == "<" and q[2] == "cmn->veclen":
                    st = [s_ for s_ in paths.stores(f, lp) if s_["path"].startswith("cmn->%s[" % fld) and s_["op"] == "="]
                    if st and not [x for x in f.walk(lp) if f.k(x) in ("Break", "Continue", "Return")]:
                        ok = True
        ctx.check(r, ok, "cmn_set_repr:clears:" + fld, f.where(head), "cmn->%s is not cleared over all veclen components before the text is parsed: a text with fewer values leaves the other components as the previous utterances adapted them" % fld)
    nf = [s_ for s_ in paths.stores(f) if s_["path"] == "cmn->nframe" and s_["op"] == "="]
    ctx.check(r, bool(nf) and all(paths.must_pass(f, head, lambda e, n_=s_["node"]: e == n_) for s_ in nf[:1]), "cmn_set_repr:nframe", f.where(f.root), "the frame count is not set on every path of the import")


def lazy_rule(ctx, P):
    """fields classified `lazy` in the table (noise tracker): the claim is that the first frame of an utterance
    re-initialises them.  Decided per field of noise_stats_s that is an array: either it is stored in the block
    guarded by `undefined` (set by the start path), or the frame's first access to it outside that block is a
    plain assignment whose right-hand side does not read it."""
    r = ctx.rule("LAZY.G5-first-frame", "every array of the noise tracker that carries values from frame to frame (read, or updated from its own previous value, before it is assigned in fe_remove_noise) is assigned in the first-frame block guarded by `undefined`: nothing of the previous utterance's last frame survives fe_start", floor=4)
    f = P.fn("fe_remove_noise", "fe_noise.c")
    ctx.touch(f)
    rec = P.records.get("noise_stats_s")
    if rec is None:
        raise AnalysisIncomplete("record noise_stats_s not found")
    arrays = [x[0] for x in rec["fields"] if "*" in x[2]]
    obj = "noise_stats"

    def in_init(n):
        return paths.guarded(f, n, lambda fn, cc, pol: paths.cond_atoms(fn, cc, pol, subst=False) == ("%s->undefined" % obj, True))
    for fld in arrays:
        path = "%s->%s" % (obj, fld)
        refs = [i for i in f.walk() if f.k(i) == "Member" and f.canon(i, subst=False) == path]
        if not refs:
            continue
        init_store = [s for s in paths.stores(f) if s["path"].startswith(path + "[") and s["op"] == "=" and in_init(s["node"])]
        outside = [i for i in refs if not in_init(i)]
        carried = False
        if outside:
            order = {n_: k_ for k_, n_ in enumerate(f.walk())}     # syntactic order, bodies of new helpers at their calls
            first = min(outside, key=lambda i: order.get(i, 1 << 30))
            st = [s for s in paths.stores(f) if s["op"] == "=" and s["rhs"] is not None and first in set(f.walk(s["lhs"]))]
            carried = not st or any(f.k(j) == "Member" and f.canon(j, subst=False) == path for j in f.walk(st[0]["rhs"]))
        if carried or init_store:
            ctx.check(r, bool(init_store) or not carried, key(f, "first-frame:" + fld), f.where(refs[0]), "`%s[]` carries values from one frame to the next (it is read, or updated from its own previous value, before anything is assigned to it) but the first-frame block under `undefined` does not assign it: after fe_start it still holds the last frame of the previous utterance" % path)


def run(ctx):
    P = ctx.P
    P.load_all()
    import_rule(ctx, P)
    lazy_rule(ctx, P)

    # ---- G1 ------------------------------------------------------------------------------------------
    g1 = ctx.rule("CENSUS.G1-static-storage", "every object of static storage (file scope or function-static) that is not const is never written, or is in the reasoned table (logging configuration allowed; random-number and frequency-warping state are known findings); a new writable global or function-static is a violation", floor=30)
    defs = {}
    for g in P.globals:
        if not g["def"]:
            continue
        if g["file"].endswith(GENERATED):
            continue
        fkey = g["file"]
        if fkey.startswith(build.REPO + "/"):
            fkey = fkey[len(build.REPO) + 1:]
        if fkey.startswith("src/"):
            fkey = fkey[4:]
        defs[(fkey, g["name"], g.get("infunc"))] = g
    writers = {}
    for f in P.functions():
        if f.unit.startswith("fixture"):
            continue
        frel = f.relfile().replace("src/", "")
        def note(name, node, how):
            # resolve: a static of this file first, else an extern of any file
            cands = [k for k in defs if k[1] == name and (k[0] == frel or not defs[k]["static"])]
            local = [k for k in cands if k[0] == frel]
            for k in (local or cands):
                writers.setdefault(k, []).append((f, node, how))
        for s in paths.stores(f):
            b = f.base_var(s["lhs"])
            if b is not None and f.nodes[b]["ref"] == "global":
                note(f.nodes[b]["name"], s["node"], "store")
        for c in f.calls(set(LIBC_WRITERS)):
            a = f.args(c)
            if a:
                b = f.base_var(a[0])
                if b is not None and f.nodes[b]["ref"] == "global":
                    note(f.nodes[b]["name"], c, f.nodes[c]["callee"])
    decode_time = P.reachable_functions(["decoder_start_utt", "decoder_process_int16", "decoder_process_float32", "decoder_end_utt", "decoder_hyp", "decoder_seg_iter", "decoder_alignment",
                                         "decoder_lattice", "decoder_result_json", "decoder_nbest", "decoder_get_cmn", "decoder_set_cmn", "endpointer_process", "endpointer_end_stream", "vad_classify"])
    nobj = 0
    for k, g in sorted(defs.items(), key=lambda kv: (kv[0][0], kv[0][1], str(kv[0][2]))):
        fkey, name, infunc = k
        nobj += 1
        w = writers.get(k, [])
        entry = G1_TABLE.get((fkey.split("/")[-1], name))
        kk = "%s:%s%s" % (fkey, (infunc + ".") if infunc else "", name)
        where = "%s:%d" % (g["file"].replace(build.REPO + "/", ""), g["l"][0])
        if g["const"] and not w:
            ctx.ok(g1, kk, where, "const, no writer")
            continue
        if not w and not infunc:
            ctx.ok(g1, kk, where, "never written (dispatch / name table)")
            continue
        if infunc and not w and g["const"] is False and name in ("mag01",):
            ctx.ok(g1, kk, where, "function-static lookup table, never written")
            continue
        if entry is None:
            wf = sorted(set(x[0].name for x in w))
            ctx.bad(g1, kk, where, "%s `%s` in %s is writable%s: hidden state shared by every decoder in the process" % ("function-static" if infunc else "static-storage object", name, fkey, (" and written by " + ", ".join(wf)) if wf else ""))
            continue
        status, reason = entry
        # writers must stay inside the object's own module
        outside = sorted(set(x[0].name for x in w if not x[0].file.endswith(fkey.split("/")[-1])))
        if outside:
            ctx.bad(g1, kk + ":outside-writer", where, "`%s` is written outside its module by %s" % (name, outside))
        elif status == "allowed":
            ctx.ok(g1, kk, where, "allowed: " + reason)
        elif status == "init-only":
            users = set()
            for f in P.functions():
                if f.file.endswith(fkey.split("/")[-1]):
                    for i_, nd_ in enumerate(f.nodes):
                        if nd_["k"] == "DeclRef" and nd_.get("ref") == "global" and nd_["name"] == name:
                            users.add(f.name)
            hot = sorted(users & decode_time)
            ctx.check(g1, not hot, kk, where, "`%s` (%s) is reachable from the utterance-time API through %s: the file-static is then shared decode-time state" % (name, fkey, hot), "init-only: " + reason[:80])
        else:
            ctx.bad(g1, kk, where, "process-wide mutable state `%s` (%s): %s" % (name, fkey, reason))
    ctx.check(g1, nobj >= 60, "census:objects", "src", "static-storage census saw only %d objects" % nobj)

    # ---- G2 required resets -----------------------------------------------------------------------------
    g2 = ctx.rule("EFFECT.G2-resets", "the start-of-utterance path (decoder_start_utt, acmod_start_utt, fe_start, fsg_search_start) and the end path (fsg_search_finish) re-initialise the listed per-utterance fields on every successful path", floor=40)
    required_resets(ctx, P, g2)
    # deactivation at the end of an utterance: both active lists are walked
    fin = P.fn("fsg_search_finish", "fsg_search.c")
    de = fin.calls("fsg_psubtree_pnode_deactivate")
    lists = sorted(set(fin.canon(s["rhs"], subst=False) for s in paths.stores(fin) if s["path"] == "gn" and "pnode_active" in fin.canon(s["rhs"], subst=False)))
    ctx.check(g2, len(de) == 2 and lists == ["fsgs->pnode_active", "fsgs->pnode_active_next"], key(fin, "deactivate-all"), fin.where(fin.root), "HMMs of both active lists are not deactivated at the end of an utterance (lists walked: %s)" % lists)
    dn = P.fn("fsg_psubtree_pnode_deactivate", "fsg_lextree.c")
    ctx.touch(dn)
    ctx.check(g2, len(dn.calls("hmm_clear")) == 1, key(dn, "clear"), dn.where(dn.root), "deactivating a node does not clear its HMM")
    hc = P.fn("hmm_clear", "hmm.c")
    ctx.touch(hc)
    cleared = sorted(set(s["path"] for s in paths.stores(hc) if s["kind"] != "DeclRef"))
    ctx.check(g2, cleared == ["h->bestscore", "h->frame", "h->history[0]", "h->history[i]", "h->out_history", "h->out_score", "h->score[0]", "h->score[i]"], key(hc, "fields"), hc.where(hc.root), "hmm_clear resets %s" % cleared)

    # ---- G2 carry-over classification ------------------------------------------------------------------------
    g3 = ctx.rule("CENSUS.G2-per-utterance-fields", "every field written while an utterance is processed is reset on the start path or classified in the reasoned table (carry-over, statistics, capacity, scratch, lazy, reset at end, construction)", floor=40)
    proc = P.reachable_functions(["decoder_process_int16", "decoder_process_float32", "decoder_end_utt", "decoder_hyp", "decoder_seg_iter", "decoder_alignment", "decoder_lattice", "decoder_result_json", "decoder_nbest"])
    W = {}
    for n in proc:
        for f in P.fn_index.get(n, []):
            if f.unit.startswith("fixture"):
                continue
            for s in paths.stores(f):
                wf = written_field(f, s)
                if wf and wf[0] in PER_UTT_RECS:
                    W.setdefault(wf, f)
    reset = set()
    for (fname, unit, path, val) in REQUIRED:
        f = P.fn(fname, unit)
        for s in paths.stores(f):
            if s["path"] == path:
                wf = written_field(f, s)
                if wf:
                    reset.add(wf)
    unclassified = []
    for wf, f in sorted(W.items()):
        if wf in FORBIDDEN:
            ctx.bad(g3, "%s.%s" % wf, f.where(f.root), "`%s.%s` (%s) is written by %s while an utterance is processed: the result of a later utterance then depends on what was decoded before" % (wf[0], wf[1], FORBIDDEN[wf], f.name))
            continue
        if wf in reset:
            ctx.ok(g3, "%s.%s" % wf, f.where(f.root), "reset on the start / end path")
        elif wf in CARRY:
            ctx.ok(g3, "%s.%s" % wf, f.where(f.root), "%s: %s" % CARRY[wf])
        elif wf[0] in CONSTRUCTION_RECS:
            ctx.ok(g3, "%s.%s" % wf, f.where(f.root), "construction: " + CONSTRUCTION_RECS[wf[0]])
        else:
            unclassified.append(wf)
    for wf in unclassified:
        # a field the table does not know (added since the rules were confirmed), written while decoding and
        # not reset: harmless only if nothing that decodes ever reads what an earlier utterance left in it -
        # every read is an argument of a log message, or is preceded in its function by a store to the field
        # on every path (scratch); otherwise a later utterance reads what an earlier one wrote
        carried = None
        nreads = 0
        for n in proc:
            for g in P.fn_index.get(n, []):
                if g.unit.startswith("fixture"):
                    continue
                st = [s_ for s_ in paths.stores(g) if written_field(g, s_) == wf]
                plain_lhs = set(s_["lhs"] for s_ in st if s_["op"] == "=")
                snodes = set(s_["node"] for s_ in st)
                for i in g.walk():
                    nd = g.nodes[i]
                    if nd["k"] != "Member" or (nd.get("rec"), nd.get("field")) != wf or i in plain_lhs or g.strip(i) in plain_lhs:
                        continue
                    if any(g.k(a_) in ("Subscript",) and g.strip(g.ch(a_)[0]) == i and (a_ in plain_lhs or any(g.strip(l_) == a_ for l_ in plain_lhs)) for a_ in g.ancestors(i)):
                        continue        # the base of an element that is being assigned
                    nreads += 1
                    if any(g.k(a_) == "Call" and g.nodes[a_].get("callee") in ("err_msg", "err_msg_system") for a_ in g.ancestors(i)):
                        continue
                    if snodes and paths.always_before(g, i, lambda e: e in snodes):
                        continue
                    carried = carried or (g, i)
        if carried is None:
            ctx.ok(g3, "%s.%s" % wf, W[wf].where(W[wf].root), "not in the table: written while decoding, %d read(s), each a log argument or preceded by a store in its function (statistics / scratch)" % nreads)
        else:
            g, i = carried
            ctx.bad(g3, "%s.%s" % wf, g.where(i), "`%s.%s` is written while an utterance is processed (%s), is not reset where an utterance starts, and is read here by %s before anything in this call stored it: what an earlier utterance left in it decides what this one computes" % (wf[0], wf[1], W[wf].name, g.name))
