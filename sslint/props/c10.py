"""C10 — untrusted grammar, dictionary, configuration and text inputs.

Decided (structural necessary conditions) on the call graph below the parsing
entry points (JSGF, FSG, dictionary, JSON / key-value configuration, alignment
text, word + pronunciation, channel-mean text):
  EXIT.input   no process exit on input contents (census; generated scanner's
               internal / allocation exits classified)
  ERRD.null    results of parsers that can fail are tested before use and
               before success is reported
  UNWIND       nothing is released twice or read after release, temporaries are
               released on every exit
  OWN.consume  an argument that a callee consumes on every path (stored into an
               object that its failure exits release) is not used or released by
               the caller afterwards
  SPAN         text taken from an s3file (not NUL-terminated) is only handed to
               length-limited primitives whose limit comes from the span itself
  NUM.range    numbers parsed from an FSG file reach the model constructors only
               after a two-sided range test
  LOOP.growth  a capacity that is grown by doubling until it fits is positive
               when the loop is entered (termination)
  EMIT.config  the sizing and the writing pass of the JSON configuration writer
               agree byte for byte (escape sets, fixed punctuation)
Not decided: memory safety inside the generated scanner / parser and jsmn;
termination of parsing loops in general; allocation-size upper bounds.
"""
import re

from .. import paths, lin
from ..prog import AnalysisIncomplete
from . import c17

FIXTURES = ["span_fx.c", "hash_fx.c"]


class _Collect:
    """stand-in for the report context when a rule is run on a fixture"""
    def __init__(self):
        self.bads, self.oks = [], []

    def rule(self, rid, desc, floor=0):
        return rid

    def touch(self, f):
        pass

    def ok(self, r, k, w, d=""):
        self.oks.append(k)

    def bad(self, r, k, w, what, fn=None):
        self.bads.append(k)

    def check(self, r, cond, k, w, what, d=""):
        (self.oks if cond else self.bads).append(k)
        return cond

UNITS = ("jsgf.c", "fsg_model.c", "dict.c", "config.c", "decoder.c", "strfuncs.c", "cmn.c", "s3file.c", "dict2pid.c",
         "fsg_search.c", "fsg_lextree.c", "fe_interface.c", "feat.c")
GENERATED = ("jsgf_parser.c", "jsgf_scanner.c")
ROOTS = ("jsgf_parse_string", "jsgf_parse_file", "jsgf_build_fsg", "jsgf_build_fsg_raw", "jsgf_read_string", "jsgf_read_file",
         "fsg_model_read_s3file", "fsg_model_readfile", "dict_init", "dict_init_s3file", "dict_add_word", "config_parse_json",
         "config_init", "config_set_str", "config_set_int", "config_set_float", "config_set_bool", "config_set", "config_validate",
         "decoder_set_align_text", "decoder_add_word", "decoder_set_jsgf_string", "decoder_set_jsgf_file", "decoder_set_fsg",
         "cmn_set_repr", "decoder_set_cmn", "config_serialize_json", "decoder_init_grammar", "decoder_init_grammar_s3file",
         "config_expand", "decoder_init_config", "fe_init", "fe_parse_general_params")


def key(fn, what):
    return "%s:%s" % (fn.name, what)


def unit_of(fn):
    return fn.relfile().split("/")[-1]


def input_functions(P):
    roots = [r for r in ROOTS if r in P.fn_index]
    if len(roots) < 25:
        raise AnalysisIncomplete("input entry points vanished: only %d of %d found" % (len(roots), len(ROOTS)))
    names = P.reachable_functions(roots)
    own, gen = [], []
    for n in sorted(names):
        for f in P.fn_index.get(n, []):
            if not f.relfile().startswith("src/"):
                continue
            if unit_of(f) in GENERATED:
                gen.append(f)
            elif unit_of(f) in UNITS:
                own.append(f)
    return own, gen


# -------------------------------------------------------------------------------- exits
EXIT_CLASS = {
    ("yy_fatal_error", "jsgf_scanner.c"): "generated scanner: reached only from allocation failures and internal-consistency errors of flex (checked: every YY_FATAL_ERROR message is one of flex's fixed internal messages)",
    ("ckd_fail", "ckd_alloc.c"): "allocation failure policy (memory exhaustion is outside the property)",
    ("fsg_psubtree_init", "fsg_lextree.c"): "compile-time capacity of the phone-context bit vector against the phone count of the loaded model, not input text",
}
FLEX_MSGS = ("out of dynamic memory", "fatal flex scanner internal error", "input buffer overflow", "flex scanner push-back overflow",
             "bad buffer in yy_scan_bytes", "yyset_lineno called with no buffer", "yyset_column called with no buffer",
             "flex scanner jammed", "fatal error - scanner input buffer overflow", "input in flex scanner failed", "unexpected last match")


def exit_rule(ctx, P, own, gen):
    r = ctx.rule("EXIT.input", "no process exit (E_FATAL, exit, abort) is reachable from the text-input entry points on a condition computed from the input; the generated scanner's exits carry only flex's fixed internal messages", floor=3)
    n = 0
    names = set(f.name for f in own + gen)
    extra = [f for nme in ("ckd_fail",) for f in P.fn_index.get(nme, [])]
    for f in own + gen + extra:
        for c in f.calls():
            cal = f.nodes[c].get("callee")
            if cal not in ("exit", "abort"):
                continue
            n += 1
            ctx.touch(f)
            cls = EXIT_CLASS.get((f.name, unit_of(f)))
            if cls:
                ctx.ok(r, key(f, cal), f.where(c), "classified: " + cls)
                continue
            msg = ""
            blk = f.enclosing(c, ("Do", "Compound"))
            if blk is not None:
                for c2 in f.calls(root=blk):
                    if f.nodes[c2].get("callee") in ("err_msg", "err_msg_system"):
                        for a in f.args(c2):
                            s = f.strip(a)
                            if f.k(s) == "Str" and not str(f.nodes[s].get("v", "")).endswith(".c"):
                                msg = str(f.nodes[s]["v"])
                                break
            ctx.bad(r, key(f, re.sub(r"[^A-Za-z#%() -]", "", msg)[:34].strip() or cal), f.where(c), "process exit on input contents: \"%s\"" % msg.strip()[:80])
    # the flex classification: every message passed to yy_fatal_error / YY_FATAL_ERROR is a fixed flex message
    for f in gen:
        for c in f.calls("yy_fatal_error"):
            a = f.strip(f.args(c)[0])
            m = str(f.nodes[a].get("v", "")) if f.k(a) == "Str" else None
            if f.name == "yy_fatal_error":
                continue
            ctx.check(r, m is not None and any(x in m for x in FLEX_MSGS), key(f, "flex-msg:%s" % (m or "?")[:30]), f.where(c), "the scanner exits with a message that is not one of flex's internal ones: \"%s\"" % m)
    if n < 3:
        raise AnalysisIncomplete("exit census found only %d exits" % n)


# -------------------------------------------------------------------------------- ownership
def consumed_params(P, fns):
    """(function, param index) such that the parameter is stored into an object
    field before any return (the object's release then owns it), directly or by
    being passed on to such a function first thing"""
    cons = {}
    for _round in range(3):
        for f in fns:
            for pi, prm in enumerate(f.params):
                if (f.name, pi) in cons or "*" not in prm[1]:
                    continue
                pname = prm[0]
                decl = prm[2]
                # direct: obj->field = param, before every return
                hit = None
                for s in paths.stores(f):
                    if s["rhs"] is not None and s["kind"] == "Member" and s["op"] == "=" and f.canon(s["rhs"], subst=False) == pname:
                        if all(paths.always_before(f, rt, lambda e, n=s["node"]: e == n) for rt in f.find("Return")):
                            hit = "stored into %s" % s["path"]
                for c in f.calls():
                    for cal in P.callees(f, c):
                        for ai, a in enumerate(f.args(c)):
                            if (cal, ai) in cons and f.canon(a, subst=False) == pname:
                                if all(paths.always_before(f, rt, lambda e, c=c: e == c) for rt in f.find("Return")):
                                    hit = "passed to %s" % cal
                if hit and "retain" not in f.name:
                    # not if the function retains it itself (then the caller keeps its reference)
                    retains = [c for c in f.calls() if (f.nodes[c].get("callee") or "").endswith("_retain") and f.args(c) and f.canon(f.args(c)[0], subst=False) == pname]
                    if not retains:
                        cons[(f.name, pi)] = hit
    return cons


def consume_rule(ctx, P, fns):
    r = ctx.rule("OWN.consume", "an argument that the callee consumes on every path (it is stored into an object whose release also runs on the callee's failure exits) is not used or released by the caller after the call", floor=6)
    allf = [f for f in P.repo_functions() if unit_of(f) not in GENERATED]
    cons = consumed_params(P, allf)
    cons = {k: v for k, v in cons.items() if k[0] in ("fsg_search_init", "decoder_set_fsg", "state_align_search_init") or k[0].endswith("_init") and False}
    if ("decoder_set_fsg", 1) not in cons or ("fsg_search_init", 1) not in cons:
        raise AnalysisIncomplete("consuming convention of fsg_search_init / decoder_set_fsg no longer recognised (%s)" % sorted(cons))
    n = 0
    for f in allf:
        for c in f.calls():
            for cal in P.callees(f, c):
                for ai, a in enumerate(f.args(c)):
                    if (cal, ai) not in cons:
                        continue
                    d = paths.local_of(f, a)
                    if d is None or d in f.new_aliases:      # a local that merely names a field of another object is not owned
                        continue
                    ctx.touch(f)
                    n += 1
                    later = paths.use_after(f, c, d)
                    # a retained reference may be used
                    retained = any((f.nodes[c2].get("callee") or "").endswith("_retain") and f.args(c2) and paths.local_of(f, f.args(c2)[0]) == d for c2 in f.calls())
                    ctx.check(r, not later or retained, key(f, "%s(%s)#%d" % (cal, f.canon(a, subst=False), sum(1 for c2 in f.calls(cal) if c2 <= c))), f.where(c), "`%s` is consumed by %s (%s) but is used again at line %s: on the callee's failure path it has already been released" % (f.canon(a, subst=False), cal, cons[(cal, ai)], f.line(later[0]) if later else "?"))


# -------------------------------------------------------------------------------- spans
SPAN_SOURCES = ("s3file_nextline", "s3file_nextword")
UNBOUNDED = {"strlen": (0,), "strcmp": (0, 1), "strchr": (0,), "strrchr": (0,), "strtol": (0,), "strtod": (0,), "atof": (0,), "atoi": (0,),
             "atol": (0,), "strstr": (0, 1), "strcpy": (1,), "strcat": (1,), "sscanf": (0,), "__ckd_salloc__": (0,), "strcasecmp": (0, 1), "strdup": (0,)}


def span_locals(f, seed=()):
    """locals (and parameters) that hold a pointer into an s3file buffer"""
    out = set(seed)
    changed = True
    while changed:
        changed = False
        for i in f.find("Assign") + f.find("Var"):
            if f.k(i) == "Assign":
                d = paths.local_of(f, f.ch(i)[0])
                rhs = f.ch(i)[1]
            else:
                d = f.nodes[i].get("decl")
                rhs = f.ch(i)[0] if f.ch(i) else None
            if d is None or rhs is None or d in out:
                continue
            v = f.strip(rhs)
            src = False
            while f.k(v) == "Assign":      # a = b = nextline()
                v = f.strip(f.ch(v)[1])
            if f.k(v) == "Call" and f.nodes[v].get("callee") in SPAN_SOURCES:
                src = True
            elif paths.local_of(f, v) in out:
                src = True
            elif f.k(v) == "Bin" and f.nodes[v]["op"] in ("+", "-") and any(paths.local_of(f, x) in out for x in f.ch(v)):
                src = True
            elif f.k(v) == "Member" and f.nodes[v].get("rec") == "s3file_s" and f.nodes[v]["field"] in ("ptr", "buf"):
                src = True
            if src:
                out.add(d)
                changed = True
        # out-parameter of nextword: &ptr
        for c in f.calls():
            if f.nodes[c].get("callee") in ("s3file_nextword", "s3file_copy_nextword") and len(f.args(c)) > 1:
                a = f.strip(f.args(c)[1])
                if f.k(a) == "Un" and f.nodes[a]["op"] == "&":
                    d = paths.local_of(f, f.ch(a)[0])
                    if d is not None and d not in out:
                        out.add(d)
                        changed = True
    return out


def span_params(P, fns):
    """parameters that receive a span at some call site (fixpoint over the analysed functions)"""
    byname = {}
    for f in fns:
        byname.setdefault(f.name, []).append(f)
    extra = {}
    changed = True
    while changed:
        changed = False
        for f in fns:
            sp = span_locals(f, extra.get((f.name, f.unit), ()))
            for c in f.calls():
                cal = f.nodes[c].get("callee")
                if cal not in byname or cal.startswith("s3file_"):
                    continue
                for ai, a in enumerate(f.args(c)):
                    v = f.strip(a)
                    if paths.local_of(f, v) in sp or (f.k(v) == "Member" and f.nodes[v].get("rec") == "s3file_s" and f.nodes[v]["field"] == "ptr"):
                        for g in byname[cal]:
                            if ai < len(g.params) and "char" in g.params[ai][1]:
                                cur = extra.setdefault((g.name, g.unit), set())
                                if g.params[ai][2] not in cur:
                                    cur.add(g.params[ai][2])
                                    changed = True
    return extra


def span_rule(ctx, P, fns, floor=6):
    extra = span_params(P, fns)
    r = ctx.rule("SPAN", "text taken from an s3file (not NUL-terminated) is only handed to length-limited primitives (strncmp / memcpy with a limit computed from the span's own end, s3file_copy_*): no strlen / strcmp / strtol / atof / atoi / %s on it, and no strncmp with a constant length unless a dominating test shows that many bytes remain; the raw cursor is not handed out as a C string", floor=floor)
    for f in fns:
        sp = span_locals(f, extra.get((f.name, f.unit), ()))
        cursor_reads = [i for i in f.walk() if f.k(i) == "Member" and f.nodes[i].get("rec") == "s3file_s" and f.nodes[i]["field"] == "ptr"]
        if not sp and not cursor_reads:
            continue
        if unit_of(f) == "s3file.c" and f.name in ("s3file_nextline", "s3file_nextword", "s3file_copy_nextword", "s3file_get", "s3file_init", "s3file_map_file", "s3file_rewind"):
            continue

        def is_span(a):
            for x in f.walk(a):
                if f.k(x) == "DeclRef" and f.nodes[x].get("decl") in sp:
                    # pointer-valued use (not *p or p[i] element reads)
                    return True
                if f.k(x) == "Member" and f.nodes[x].get("rec") == "s3file_s" and f.nodes[x]["field"] == "ptr":
                    return True
            return False
        def terminated(c):
            """the call is dominated by a test that the string at the cursor ends with a zero byte inside its counted length"""
            def pred(fn, cc, pol):
                q = paths.rel(fn, cc, pol, subst=False)
                return q is not None and q[1] == "==" and "0" in (q[0], q[2]) and re.search(r"->ptr\[\(\w+ - 1\)\]$", q[0] if q[2] == "0" else q[2]) is not None
            if not paths.guarded(f, c, pred):
                return False
            # the test must be about the string the cursor points to now: it has to follow every advance of the cursor
            for st in paths.stores(f):
                if st["rec"] == "s3file_s" and st["field"] == "ptr" and paths.may_reach(f, st["node"], lambda e, c=c: e == c):
                    if not paths.guarded_from(f, st["node"], c, pred):
                        return False
            return True
        for c in f.calls():
            cal = f.nodes[c].get("callee")
            args = f.args(c)
            if cal in UNBOUNDED or cal in ("strncmp", "memcmp", "strncasecmp", "err_msg", "err_msg_system"):
                if any(f.k(x) == "Member" and f.nodes[x].get("rec") == "s3file_s" and f.nodes[x]["field"] == "ptr" for a in args for x in f.walk(a)) and terminated(c):
                    ctx.touch(f)
                    ctx.ok(r, key(f, "%s@%d" % (cal, f.line(c))), f.where(c), "string at the cursor tested for its terminator")
                    continue
            if cal and cal not in UNBOUNDED and not cal.startswith("s3file_") and cal not in ("strncmp", "memcmp", "memcpy", "strncasecmp", "err_msg", "err_msg_system", "isspace_c") and unit_of(f) != "s3file.c":
                for ai, a in enumerate(args):
                    v = f.strip(a)
                    if f.k(v) == "Member" and f.nodes[v].get("rec") == "s3file_s" and f.nodes[v]["field"] in ("ptr", "buf") and "char" in f.nodes[v].get("t", ""):
                        tgt = [g for g in P.fn_index.get(cal, [])]
                        takes_len = any("len" in pp[0] or "size" in pp[0] for g in tgt for pp in g.params)
                        ctx.touch(f)
                        ctx.check(r, takes_len, key(f, "%s(cursor)" % cal), f.where(c), "the raw cursor of an s3file is handed to %s as a C string: the buffer is not NUL-terminated" % cal)
            if cal in UNBOUNDED:
                for ai in UNBOUNDED[cal]:
                    if ai < len(args) and "*" in f.nodes[f.strip(args[ai])].get("t", "*") and is_span(args[ai]):
                        ctx.touch(f)
                        n = sum(1 for c2 in f.calls(cal) if c2 <= c)
                        ctx.bad(r, key(f, "%s#%d" % (cal, n)), f.where(c), "%s reads `%s`, which points into an s3file buffer that is not NUL-terminated: at the end of the buffer it reads past it" % (cal, f.src(args[ai])[:40]))
            elif cal in ("strncmp", "memcmp", "strncasecmp"):
                if not any(is_span(a) for a in args[:2]):
                    continue
                ctx.touch(f)
                n = sum(1 for c2 in f.calls(cal) if c2 <= c)
                ln = args[2]
                # the limit is derived from the span (pointer difference of span pointers), not a constant
                derived = any(f.k(x) == "DeclRef" and f.nodes[x].get("decl") in sp for x in f.walk(ln)) or "->end" in f.canon(ln, subst=False)
                kv = f.constval(ln)
                if not derived and kv is not None:
                    # a constant length is fine under a dominating test that the span holds at least that many bytes
                    def room(fn, cc, pol, kv=kv):
                        q = paths.rel(fn, cc, pol, subst=False)
                        if q is None or q[1] not in ("<", "<=") or not re.match(r"^\d+$", q[0]):
                            return False
                        have = int(q[0]) + (1 if q[1] == "<" else 0)
                        diff = q[2]
                        return have >= kv and " - " in diff and ("->ptr" in diff or "->end" in diff or any(fn.nodes[x].get("decl") in sp for x in range(len(fn.nodes)) if fn.k(x) == "DeclRef" and fn.nodes[x].get("name", "") and False))
                    derived = paths.guarded(f, c, room)
                ctx.check(r, derived, key(f, "%s#%d" % (cal, n)), f.where(c), "%s compares %s bytes of text from an s3file buffer with a fixed length: a line shorter than that at the end of the buffer is read past its end" % (cal, f.src(ln)))
            elif cal in ("err_msg", "err_msg_system", "printf", "snprintf", "fprintf"):
                fmt = [a for a in args if f.k(f.strip(a)) == "Str" and "%" in str(f.nodes[f.strip(a)].get("v", ""))]
                if not fmt:
                    continue
                fi = args.index(fmt[0])
                specs = re.findall(r"%[-+ #0]*(\*|\d+)?(\.(\*|\d+))?(?:l|ll|h|z)?([a-zA-Z%])", str(f.nodes[f.strip(fmt[0])]["v"]))
                ai = fi + 1
                for (w, pr, _p, conv) in specs:
                    if conv == "%":
                        continue
                    if w == "*":
                        ai += 1
                    if _p == "*":
                        ai += 1
                    if ai < len(args) and conv == "s" and not pr and is_span(args[ai]):
                        ctx.touch(f)
                        ctx.bad(r, key(f, "%%s@%d" % f.line(c)), f.where(c), "`%s` (text in an s3file buffer, not NUL-terminated) is printed with %%s without a precision" % f.src(args[ai])[:40])
                    ai += 1


# -------------------------------------------------------------------------------- numbers
def num_rule(ctx, P):
    r = ctx.rule("NUM.range", "numbers parsed from an FSG file reach fsg_model_init / fsg_model_trans_add / fsg_model_null_trans_add and the start / final state only after a two-sided range test whose failing edge leaves", floor=8)
    f = P.fn("fsg_model_read_s3file", "fsg_model.c")
    ctx.touch(f)

    def lower(x):
        return lambda fn, c, pol: (lambda rr: rr is not None and rr[2] == x and rr[1] in ("<", "<=") and re.match(r"^-?[\d.]+$", rr[0]) is not None)(paths.rel(fn, c, pol, subst=False))

    def upper(x):
        return lambda fn, c, pol: (lambda rr: rr is not None and rr[0] == x and rr[1] in ("<", "<="))(paths.rel(fn, c, pol, subst=False))
    sinks = []
    for c in f.calls("fsg_model_trans_add") + f.calls("fsg_model_null_trans_add") + f.calls("fsg_model_tag_trans_add"):
        for ai in (1, 2):
            sinks.append((c, f.canon(f.args(c)[ai], subst=False), "state", True))
    for c in f.calls("logmath_log"):
        sinks.append((c, f.canon(f.args(c)[1], subst=False), "probability", True))
    for c in f.calls("fsg_model_init"):
        sinks.append((c, f.canon(f.args(c)[3], subst=False), "state count", False))
    if len(sinks) < 6:
        raise AnalysisIncomplete("FSG reader sinks vanished (%d)" % len(sinks))
    for (c, x, what, two) in sinks:
        n = sum(1 for (c2, x2, _w, _t) in sinks if c2 <= c and x2 == x)
        lo = paths.guarded(f, c, lower(x))
        hi = paths.guarded(f, c, upper(x)) if two else True
        if not (lo and hi):
            # the test may reach the call through a status or a flag instead of dominating it: path by path over values
            from .. import symx
            ai_ = [i_ for i_, a_ in enumerate(f.args(c)) if f.canon(a_, subst=False) == x][0]
            vl, vh, _n, _facts = symx.arg_bounds(f, P, c, ai_)
            lo, hi = lo or vl, hi or vh or not two
        ctx.check(r, lo and hi, key(f, "%s:%s#%d" % (what, x, n)), f.where(c), "the %s `%s` parsed from the file reaches %s without a %s range test" % (what, x, f.nodes[c].get("callee"), "lower" if not lo else "upper"))
    for s in paths.stores(f):
        if s["path"] in ("fsg->start_state", "fsg->final_state"):
            x = s["path"]
            # tested after the store, before anything else uses it: every path to a success return passes both tests
            conds_lo = set()
            conds_hi = set()
            for (s0, d0, c, pol) in f.cfg.cond_edges():
                if lower(x)(f, c, pol) or lower(x)(f, c, not pol):
                    conds_lo.add(c)
                    conds_lo.update(f.walk(c))
                if upper(x)(f, c, pol) or upper(x)(f, c, not pol):
                    conds_hi.add(c)
                    conds_hi.update(f.walk(c))
            succ = [rt for rt in f.find("Return") if f.ch(rt) and not paths._is_zero(f, f.ch(rt)[0])]
            up = lambda fn, c, pol, x=x: (lambda rr: rr is not None and rr[0] == x and rr[1] in ("<", "<=") and not re.match(r"^-?\d+$", rr[2]))(paths.rel(fn, c, pol, subst=False))
            ok = bool(succ) and all(paths.guarded_from(f, s["node"], rt, lower(x)) and paths.guarded_from(f, s["node"], rt, up) for rt in succ)
            ctx.check(r, ok, key(f, x), f.where(s["node"]), "`%s` is taken from the file and the reader can succeed without having tested it against 0 and the number of states" % x)


def pron_rule(ctx, P):
    """a dictionary line is added only with at least one phone: everything downstream reads dict_pron(w, 0)"""
    from .. import symx
    r = ctx.rule("NUM.pron-length", "the dictionary reader hands a line to dict_add_word only with a pronunciation length that is excluded from being zero on every value path to the call (a word without phones is refused: the lextree and the alignment read its first and last phone)", floor=1)
    f = P.fn("dict_read_s3file", "dict.c")
    ctx.touch(f)
    cs = f.calls("dict_add_word")
    if not cs:
        raise AnalysisIncomplete("dict_read_s3file no longer calls dict_add_word")
    def cst(p_):
        """the value of a constant polynomial, None otherwise"""
        return p_.get((), 0) if all(m_ == () for m_ in p_) else None
    for c in cs:
        loop = None
        for a in f.ancestors(c):
            if f.k(a) in ("While", "For", "Do"):
                loop = a
        pts = symx.loop_paths(f, loop, P) if loop is not None else symx.run_paths(f, P)
        n = 0
        bad = None
        for pt in pts:
            for ev_ in pt.events:
                if ev_[0] != "call" or ev_[3] != c:
                    continue
                n += 1
                Ns = ev_[2][3]
                N = lin.p_parse(Ns)
                ok = cst(N) is not None and cst(N) != 0
                for k_, pol in pt.atoms.items():
                    if ok or cst(N) is not None:
                        break
                    if k_[0] == "nz":
                        ok = pol and lin.p_parse(k_[1]) == N
                        continue
                    if k_[0] not in ("==", "<"):
                        continue
                    D = lin.p_add(lin.p_parse(k_[1]), lin.p_parse(k_[2]), -1)      # A - B
                    if k_[0] == "==":
                        ok = (not pol) and (N == D or lin.p_add(N, D) == {})        # A != B and N is +-(A - B)
                    elif pol:
                        c_ = cst(lin.p_add(N, D))                                   # A < B: B - A >= 1; N = (B - A) + c
                        ok = c_ is not None and c_ >= 0
                    else:
                        c_ = cst(lin.p_add(N, D, -1))                               # A >= B: N = (A - B) + c
                        ok = c_ is not None and c_ >= 1
                if not ok:
                    bad = Ns
        if n == 0:
            raise AnalysisIncomplete("dict_read_s3file: no value path reaches dict_add_word")
        ctx.check(r, bad is None, key(f, "pronlen@%d" % f.line(c)), f.where(c), "a line reaches dict_add_word with the pronunciation length `%s`, which nothing on the path excludes from being 0: a word without phones enters the dictionary and the first grammar or alignment that uses it reads a phone that is not there" % bad)


def unescape_rule(ctx, P):
    """the JSON value un-escaper works on a span (in, len) inside the configuration text: it may look one byte
    past the byte it is at (the byte after a span is at worst the text's terminator), never further"""
    from .. import symx
    r = ctx.rule("SPAN.unescape", "unescape reads its input span only at the loop position and one byte ahead, under a loop bounded by the span's length, and hands the span to no function that reads on from a position", floor=3)
    f = P.fn("unescape", "config.c")
    ctx.touch(f)
    src, ln = f.params[1][0], f.params[2][0]
    loops = [l_ for l_ in f.find("For") + f.find("While")]
    if len(loops) != 1:
        raise AnalysisIncomplete("unescape: expected one loop over the span (found %d)" % len(loops))
    cnd = f.ch(loops[0])[1] if f.k(loops[0]) == "For" else f.ch(loops[0])[0]
    rr = paths.rel(f, cnd, True, subst=False)
    ctx.check(r, rr is not None and rr[1] == "<" and rr[2] == ln, key(f, "bounded"), f.where(loops[0]), "the loop over the span is not bounded by its length `%s` (%s)" % (ln, rr))
    iv = rr[0] if rr else "i"
    far, handed, nread = None, None, 0
    symx.LOG_READS = True
    try:
        pts = symx.loop_paths(f, loops[0], P)
    finally:
        symx.LOG_READS = False
    for pt in pts:
        for ev_ in pt.events:
            if ev_[0] == "read":
                m_ = re.match(r"^%s\[(.*)\]$" % re.escape(src), symx.plain(ev_[1]))
                if ev_[1] == "*" + src or ev_[1] == "*(%s)" % src:
                    m_ = re.match("(0)", "0")
                if m_:
                    nread += 1
                    d_ = lin.p_add(lin.p_parse(m_.group(1)), lin.p_atom(iv), -1)
                    c_ = d_.get((), 0) if all(k_ == () for k_ in d_) else None
                    if c_ is None or c_ < 0 or c_ > 1:
                        far = (ev_[1], ev_[3])
            elif ev_[0] == "call":
                for a_ in ev_[2]:
                    if any(src in mono for mono in lin.p_parse(a_)):
                        handed = (ev_[1], a_, ev_[3])
    if nread < 2:
        raise AnalysisIncomplete("unescape: reads of the span not found (%d)" % nread)
    ctx.check(r, far is None, key(f, "lookahead"), f.where(far[1]) if far else f.where(f.root), "unescape reads `%s`: more than one byte past the position the loop bound covers; for a span that ends the configuration text this is past its terminator" % (far[0] if far else ""))
    ctx.check(r, handed is None, key(f, "handed-on"), f.where(handed[2]) if handed else f.where(f.root), "unescape hands `%s` to %s, which reads on from there without knowing where the span ends" % ((handed[1], handed[0]) if handed else ("", "")))


# -------------------------------------------------------------------------------- growth loops
def growth_rule(ctx, P):
    r = ctx.rule("LOOP.growth", "a capacity that is doubled until it reaches a required size is positive when the loop is entered: every definition reaching the loop is a positive constant or a positive multiple of a value tested non-zero, and the doubled value cannot wrap to a non-positive one before it reaches the limit", floor=1)
    found = 0
    for f in P.repo_functions():
        if unit_of(f) in GENERATED:
            continue
        for w in f.find("While"):
            cnd = f.ch(w)[0]
            rr = paths.rel(f, cnd, True, subst=False)
            if rr is None or rr[1] not in ("<", "<="):
                continue
            grow = [i for i in f.walk(w) if f.k(i) == "CompoundAssign" and f.nodes[i]["op"] in ("*=", "<<=") and f.canon(f.ch(i)[0], subst=False) == rr[0]]
            if not grow:
                continue
            found += 1
            ctx.touch(f)
            x = rr[0]
            limit = rr[2]
            lhs = f.strip(f.ch(grow[0])[0])
            # definitions of x reaching the loop head from outside the loop
            inside = set(f.walk(w))
            alldefs = set(s["node"] for s in paths.stores(f) if s["path"] == x and s["op"] == "=")
            cset = set(f.walk(cnd)) | {cnd}
            defs = [s for s in paths.stores(f) if s["path"] == x and s["node"] not in inside
                    and f.cfg.path_exists(paths.pos_of(f, s["node"]), lambda e: e in cset, is_barrier=lambda e, me=s["node"]: e in alldefs and e != me)]
            ok = bool(defs)
            why = "no definition found"
            for s in defs:
                if s["op"] != "=" or s["rhs"] is None:
                    ok = False
                    why = "updated by `%s`" % s["op"]
                    continue
                v = f.constval(s["rhs"])
                rv = f.strip(s["rhs"])
                if v is not None:
                    if v <= 0:
                        ok = False
                        why = "set to %d" % v
                    continue
                if f.k(rv) == "Bin" and f.nodes[rv]["op"] == "<<" and f.constval(f.ch(rv)[0]) and f.constval(f.ch(rv)[0]) > 0:
                    continue
                # K * n with n tested positive / non-zero at the definition
                m = None
                if f.k(rv) == "Bin" and f.nodes[rv]["op"] == "*":
                    a, b = f.ch(rv)
                    if f.constval(a) and f.constval(a) > 0:
                        m = f.canon(b, subst=False)
                    elif f.constval(b) and f.constval(b) > 0:
                        m = f.canon(a, subst=False)
                if m is None:
                    ok = False
                    why = "set to `%s`" % f.src(s["rhs"])
                    continue

                def pos(fn, c, pol, m=m):
                    q = paths.rel(fn, c, pol, subst=False)
                    if q is None:
                        return False
                    if q[2] == m and q[1] in ("<", "<=") and re.match(r"^\d+$", q[0]) and (int(q[0]) > 0 or q[1] == "<"):
                        return True
                    return q[1] == "!=" and {q[0], q[2]} == {m, "0"}
                if not paths.guarded(f, s["node"], pos):
                    ok = False
                    why = "set to `%s` where `%s` may be zero: doubling zero never reaches the limit" % (f.src(s["rhs"]), m)
            # wrap-around: the type of the capacity must be able to hold twice the largest limit tested before the loop
            t = f.nodes[lhs].get("ct", f.nodes[lhs].get("t", ""))
            bits = {"short": 15, "int16": 15, "unsigned short": 16, "int": 31, "int32": 31, "long": 63, "unsigned long": 64, "size_t": 64, "unsigned int": 32}.get(t.replace("const ", "").strip())
            if ok and bits is not None and bits < 31:
                # an upper bound on the limit must dominate the loop: limit <= 2^(bits-1)
                def small(fn, c, pol, limit=limit, bits=bits):
                    q = paths.rel(fn, c, pol, subst=False)
                    if q is None or q[0] != limit or q[1] not in ("<", "<="):
                        return False
                    try:
                        b = int(q[2])
                    except ValueError:
                        return False
                    return b <= (1 << (bits - 1))
                if not paths.guarded(f, cnd, small):
                    ok = False
                    why = "`%s` is a %s: doubling it past %d wraps to a negative value before it reaches a limit that is only known to be below %s" % (x, t, 1 << bits - 1, _ub_of(f, cnd, limit))
            ctx.check(r, ok, key(f, x), f.where(w), "the loop doubles `%s` until it reaches `%s` but %s (no termination)" % (x, limit, why))
    if found < 1:
        raise AnalysisIncomplete("growth loops vanished (%d)" % found)


def _ub_of(f, node, limit):
    best = None
    for (s0, d0, c, pol) in f.cfg.cond_edges():
        q = paths.rel(f, c, pol, subst=False)
        if q and q[0] == limit and q[1] in ("<", "<=") and re.match(r"^\d+$", q[2]):
            best = q[2]
    return best or "nothing"


# -------------------------------------------------------------------------------- config emitter
def escape_set(f, counter_is_len):
    """characters that the function treats as two output bytes; None if the
    shape is not one of the two recognised forms"""
    two = set()
    sws = f.find("Switch")
    if sws:
        sw = sws[0]
        # group consecutive case labels: a case's body is the first non-case statement after it
        cases = [c for c in f.find("Case", root=sw)]
        for c in cases:
            body = c
            while f.k(body) in ("Case",) and f.ch(body):
                nxt = [x for x in f.ch(body) if f.k(x) not in ("Int", "Char", "ICast", "Cast", "Paren")]
                if not nxt:
                    break
                body = nxt[-1]
                if f.k(body) != "Case":
                    break
            amount = 0
            seq = [body]
            # statements following the label in the enclosing compound until break/continue
            par = f.parent[c]
            while par is not None and f.k(par) == "Case":
                c_top = par
                par = f.parent[par]
            if par is not None and f.k(par) == "Compound":
                ch = f.ch(par)
                top = c
                while f.parent[top] != par:
                    top = f.parent[top]
                k0 = ch.index(top)
                seq = [body] + ch[k0 + 1:]
            for st in seq:
                stop = False
                for i in f.walk(st):
                    nd = f.nodes[i]
                    if nd["k"] in ("Break", "Continue"):
                        stop = True
                        break
                    if counter_is_len:
                        if nd["k"] == "CompoundAssign" and nd["op"] == "+=":
                            amount += f.constval(nd["ch"][1]) or 0
                        if nd["k"] == "Un" and nd["op"] in ("pre++", "post++"):
                            amount += 1
                    else:
                        if nd["k"] == "Un" and nd["op"] == "post++" and f.canon(nd["ch"][0], subst=False) == "buf":
                            amount += 1
                if stop:
                    break
                if f.k(st) in ("Case", "Default"):
                    break
            if amount == 2:
                two.add(f.nodes[c].get("v"))
            elif amount != 1:
                return None
        return two
    # strchr("literal", c) != NULL form
    for c in f.calls("strchr"):
        a = f.strip(f.args(c)[0])
        if f.k(a) == "Str":
            lit = f.nodes[a]["v"]
            s = set(ord(ch) for ch in lit) if isinstance(lit, str) else set(lit)
            s.add(0)          # strchr also finds the terminator
            return s
    return None


def emit_rule(ctx, P):
    r = ctx.rule("EMIT.config", "the sizing pass and the writing pass of the JSON configuration writer agree: measure_string counts two bytes for exactly the characters serialize_string writes as an escape pair; in serialize_key / serialize_value the bytes counted into `len` equal the bytes written and taken off the remainder under `if (ptr)`", floor=6)
    ms = P.fn("measure_string", "config.c")
    ss = P.fn("serialize_string", "config.c")
    ctx.touch(ms)
    ctx.touch(ss)
    a = escape_set(ms, True)
    b = escape_set(ss, False)
    if a is None or b is None:
        raise AnalysisIncomplete("escape handling of measure_string / serialize_string is in neither recognised form (switch on the character, strchr in a literal)")
    show = lambda s: "{" + ", ".join(repr(chr(x)) for x in sorted(s)) + "}"
    ctx.check(r, a == b, key(ms, "escape-set"), ms.where(ms.root), "measure_string counts two bytes for %s but serialize_string writes two bytes for %s: the buffer is %s" % (show(a - b) + " only" if a - b else show(a), show(b - a) + " only" if b - a else show(b), "too small (heap overflow)" if b - a else "sized for bytes that are never written"))
    ctx.check(r, len(b) >= 7, key(ss, "escapes"), ss.where(ss.root), "serialize_string escapes only %s" % show(b))
    for name in ("serialize_key", "serialize_value"):
        f = P.fn(name, "config.c")
        ctx.touch(f)
        L, O, M = {}, {}, {}
        for s in paths.stores(f):
            under = any(f.k(x) == "If" and f.canon(f.ch(x)[0], subst=False) == "ptr" and s["node"] in set(f.walk(f.ch(x)[1])) for x in f.find("If"))
            amt = None
            if s["op"] in ("++", "--"):
                amt = lin.p_const(1)
            elif s["op"] in ("+=", "-=") and s["rhs"] is not None:
                amt = lin.poly(f, s["rhs"], subst=False)
            if amt is None:
                continue
            if s["path"] == "len" and not under:
                L = lin.p_add(L, amt)
            elif s["path"] == "ptr" and under:
                O = lin.p_add(O, amt)
            elif s["path"] == "maxlen" and under:
                M = lin.p_add(M, amt)
        ctx.check(r, L == O, key(f, "counted=written"), f.where(f.root), "%s counts %s bytes but writes %s" % (name, lin.p_str(L), lin.p_str(O)))
        ctx.check(r, L == M, key(f, "counted=remainder"), f.where(f.root), "%s counts %s bytes but takes %s off the remainder" % (name, lin.p_str(L), lin.p_str(M)))
        # the two passes call the twin functions with the same arguments
        m = f.calls("measure_string")
        w = f.calls("serialize_string")
        ok = len(m) == 1 and len(w) == 1 and [f.canon(x, subst=False) for x in f.args(m[0])] == [f.canon(x, subst=False) for x in f.args(w[0])[1:]]
        ctx.check(r, ok, key(f, "twin-args"), f.where(f.root), "%s measures and writes different strings" % name)


# -------------------------------------------------------------------------------- discarded status
STATUS_EXEMPT = {("set_logfile", "decoder_set_logfile"): "a log file that cannot be opened is reported by the callee; initialisation goes on without it by design"}


def status_rule(ctx, P):
    r = ctx.rule("ERRD.status", "the result of a function that reports failure through its integer result (it has both a `return 0` and a negative return) is not discarded: a call whose value is unused lets a refused configuration / input go on as if accepted", floor=40)
    status = {}
    for f in P.repo_functions():
        if unit_of(f) in GENERATED or f.d.get("ret") not in ("int", "int32", "int32_t", "long"):
            continue
        neg = zero = False
        for rt in f.find("Return"):
            if f.ch(rt):
                v = f.constval(f.ch(rt)[0])
                neg = neg or (v is not None and v < 0)
                zero = zero or v == 0
        if neg and zero:
            status[f.name] = f
    for f in P.repo_functions():
        if unit_of(f) in GENERATED:
            continue
        for c in f.calls():
            cal = f.nodes[c].get("callee")
            if cal not in status:
                continue
            ctx.touch(f)
            p_ = f.parent[c]
            while p_ is not None and f.k(p_) == "Paren":
                p_ = f.parent[p_]
            discarded = False
            if p_ is not None and f.k(p_) in ("Compound", "Case", "Default", "Label"):
                discarded = True
            elif p_ is not None and f.k(p_) in ("If", "While", "For", "Do"):
                cnd = f.ch(p_)[1] if f.k(p_) == "For" else (f.ch(p_)[0] if f.k(p_) != "Do" else f.ch(p_)[-1])
                discarded = c not in set(f.walk(cnd))
            n = sum(1 for c2 in f.calls(cal) if c2 <= c)
            if discarded and (f.name, cal) in STATUS_EXEMPT:
                ctx.ok(r, key(f, "%s#%d" % (cal, n)), f.where(c), "exempt: " + STATUS_EXEMPT[(f.name, cal)])
                continue
            ctx.check(r, not discarded, key(f, "%s#%d" % (cal, n)), f.where(c), "the result of %s, which reports failure by a negative value, is discarded" % cal)


# -------------------------------------------------------------------------------- configuration numbers
def config_rule(ctx, P):
    r = ctx.rule("CONFIG.range", "an integer taken from the configuration that is used as a divisor, an allocation size or a loop bound (in the storing function or, through the field it is stored in, anywhere) is range-tested in the function that reads it: every path from the read to a success return passes a lower-bound test (failing edge leaves) or an assignment of a valid value", floor=5)
    allf = [f for f in P.repo_functions() if unit_of(f) not in GENERATED]
    # sinks by field name: divisor / allocation size / loop bound
    fsinks = {}
    for f in allf:
        for i in f.walk():
            nd = f.nodes[i]
            tgt = []
            if nd["k"] in ("Bin", "CompoundAssign") and nd["op"] in ("/", "%", "/=", "%=") and not c18_float(f, nd):
                tgt.append((nd["ch"][1], "a divisor"))
            if nd["k"] == "Call" and nd.get("callee") in c17.ALLOCS:
                for ai in c17.ALLOCS[nd["callee"]]:
                    if ai < len(f.args(i)):
                        tgt.append((f.args(i)[ai], "an allocation size"))
            if nd["k"] == "For" and f.k(nd["ch"][1]) != "Absent":
                q = paths.rel(f, nd["ch"][1], True, subst=False)
                if q and q[1] in ("<", "<="):
                    cj = f.strip(nd["ch"][1])
                    tgt.append((f.ch(cj)[1] if f.canon(f.ch(cj)[0], subst=False) == q[0] else f.ch(cj)[0], "a loop bound"))
            for (t, what) in tgt:
                for x in f.walk(t):
                    if f.k(x) == "Member":
                        fsinks.setdefault((f.nodes[x].get("rec"), f.nodes[x]["field"]), []).append((f, i, what))
    for f in allf:
        for c in f.calls("config_int"):
            p_ = f.up(c)
            while p_ is not None and f.k(p_) in ("Paren", "ICast", "Cast"):
                p_ = f.parent[p_]
            if p_ is None or f.k(p_) not in ("Assign", "Var"):
                continue
            kname = f.strip(f.args(c)[1])
            kname = str(f.nodes[kname].get("v")) if f.k(kname) == "Str" else f.src(kname)
            if f.k(p_) == "Assign":
                lhs = f.strip(f.ch(p_)[0])
                x = f.canon(lhs, subst=False)
            else:
                lhs = None
                x = f.nodes[p_]["name"]
            sinks = []
            if lhs is not None and f.k(lhs) == "Member":
                sinks = [(g, i, w) for (g, i, w) in fsinks.get((f.nodes[lhs].get("rec"), f.nodes[lhs]["field"]), [])]
            # a local that is copied into a field: the field's uses count as well
            if lhs is None or f.k(lhs) != "Member":
                for st in paths.stores(f):
                    if st["kind"] == "Member" and st["op"] == "=" and st["rhs"] is not None and f.canon(st["rhs"], subst=False) == x:
                        sinks += [(g, i, w) for (g, i, w) in fsinks.get((st["rec"], st["field"]), [])]
            # local uses in the same function
            for i in f.walk():
                nd = f.nodes[i]
                if nd["k"] in ("Bin", "CompoundAssign") and nd["op"] in ("/", "%", "/=", "%=") and not c18_float(f, nd) and x in f.canon(nd["ch"][1], subst=False).replace("(", " ").replace(")", " ").split():
                    sinks.append((f, i, "a divisor"))
                if nd["k"] == "Call" and nd.get("callee") in c17.ALLOCS:
                    for ai in c17.ALLOCS[nd["callee"]]:
                        if ai < len(f.args(i)) and x in re.findall(r"[\w>.\-]+", f.canon(f.args(i)[ai], subst=False)):
                            sinks.append((f, i, "an allocation size"))
            if not sinks:
                continue
            ctx.touch(f)
            need_pos = any(w == "a divisor" for (_g, _i, w) in sinks)

            srccall = f.canon(c, subst=False)

            def lb(fn, cc, pol, x=x, need_pos=need_pos, srccall=srccall):
                q = paths.rel(fn, cc, pol, subst=False)
                if q is None:
                    return False
                if q[2] in (x, srccall) and q[1] in ("<", "<=") and re.match(r"^-?\d+$", q[0]):
                    v = int(q[0]) + (1 if q[1] == "<" else 0)
                    return v >= (1 if need_pos else 0)
                # bounded below by another quantity of the same set-up (frame size <= FFT size): accepted as a
                # range test of the value; the other quantity has its own obligation if it is a configuration value
                if q[2] == x and q[1] in ("<", "<=") and x not in q[0] and not re.match(r"^-?\d+$", q[0]):
                    return True
                if need_pos and q[1] == "!=" and {q[0], q[2]} == {x, "0"}:
                    return False        # non-zero alone does not exclude negative sizes; accepted only for pure divisors below
                return False
            pure_div = all(w == "a divisor" for (_g, _i, w) in sinks)

            def nz(fn, cc, pol, x=x):
                q = paths.rel(fn, cc, pol, subst=False)
                return q is not None and q[1] == "!=" and {q[0], q[2]} == {x, "0"}
            pred = (lambda fn, cc, pol: lb(fn, cc, pol) or nz(fn, cc, pol)) if pure_div else lb
            redefs = set(st["node"] for st in paths.stores(f) if st["path"] == x and st["op"] == "=" and st["node"] != p_ and st["rhs"] is not None and "config_int" not in f.canon(st["rhs"], subst=False))
            succ = [rt for rt in f.find("Return") if not f.ch(rt) or not ((f.constval(f.ch(rt)[0]) is not None and f.constval(f.ch(rt)[0]) < 0) or (paths._is_zero(f, f.ch(rt)[0]) and "*" in f.d.get("ret", "")))]
            edges = set(paths.guard_edges(f, pred))
            start = c17._elem_of(f, p_)
            if paths.guarded(f, start, pred):
                ctx.ok(r, key(f, "%s<-%s" % (x, kname)), f.where(c), "tested before it is stored")
                continue
            bad = any(f.cfg.path_exists(paths.pos_of(f, start), lambda e, rt=rt: e == rt, is_barrier=lambda e: e in redefs, removed_edges=edges) for rt in succ) if succ else f.cfg.path_exists(paths.pos_of(f, start), "exit", is_barrier=lambda e: e in redefs, removed_edges=edges)
            g0, i0, w0 = sinks[0]
            ctx.check(r, not bad, key(f, "%s<-%s" % (x, kname)), f.where(c), "configuration value \"%s\" is kept in `%s` and used as %s (%s:%d%s) but %s can succeed without having tested it: %s" % (kname, x, w0, g0.relfile().split("/")[-1], g0.line(i0), " and %d more" % (len(sinks) - 1) if len(sinks) > 1 else "", f.name, "a zero value divides by zero" if w0 == "a divisor" else "a zero or negative value is handed to the allocator / the loops"))


def c18_float(f, nd):
    ts = [nd.get("t", "")] + [f.nodes[c].get("t", "") for c in nd["ch"]]
    tds = f.prog.typedefs
    for t in ts:
        t = t.replace("const ", "").strip()
        k = 0
        while t in tds and k < 8:
            t = tds[t]
            k += 1
        if t in ("float", "double", "long double"):
            return True
    return False


def run(ctx):
    P = ctx.P
    own, gen = input_functions(P)
    if len(own) < 120:
        raise AnalysisIncomplete("input function set shrank to %d" % len(own))
    exit_rule(ctx, P, own, gen)
    parsers = [f for f in own if unit_of(f) in ("jsgf.c", "fsg_model.c", "dict.c", "config.c", "decoder.c", "cmn.c", "strfuncs.c")]
    c17.errd_null(ctx, P, parsers, floor=14, what="parser / constructor", skip=("hash_table_enter", "hash_table_replace", "glist_add_ptr", "config_str", "config_get", "hash_table_iter", "hash_table_iter_next", "jsgf_get_rule", "jsgf_get_public_rule"))
    c17.unwind_rule(ctx, P, parsers, floor=15, only_readers=False, extra_allocs=("copy_header_value", "string_join", "s3file_copy_nextword"))
    consume_rule(ctx, P, own)
    span_rule(ctx, P, own)
    fx = [f for f in P.functions("fixture:span_fx.c") if f.name.startswith("fx_span")]
    col = _Collect()
    span_rule(col, P, fx)
    ctx.control("SPAN", any(k.startswith("fx_span_bad:atoi") for k in col.bads) and any(k.startswith("fx_span_bad:strncmp") for k in col.bads) and not any(k.startswith("fx_span_good") for k in col.bads),
                "fixture fx_span_bad (atoi and constant-length strncmp on a line of an s3file) must be reported, fx_span_good (length tested first) must not (got %s)" % col.bads)
    num_rule(ctx, P)
    pron_rule(ctx, P)
    unescape_rule(ctx, P)
    from . import c09
    c09.align_text_rule(ctx, P)     # the alignment text is untrusted input too: states sized by the tokenisation that adds the arcs
    growth_rule(ctx, P)
    emit_rule(ctx, P)
    config_rule(ctx, P)
    status_rule(ctx, P)
    # a refused dictionary line / word must leave the dictionary as it was: the entry it would have been chained to
    # is otherwise left pointing at a slot that holds nothing (seed C10-10 crashes the next grammar on it)
    from . import c16
    from ..report import Only
    c16.run(Only(ctx, ("EFFECT.D1-failure-paths",)))
