"""C03 — segmentation tiles the utterance and agrees with hypothesis and score.

Decides S1 (segment time provenance and the +1 offset), S2 (score identity
ascr + lscr = score(e) - score(pred e), symbolically), S3 (the two passes of
the hypothesis builder agree with each other and with the back-trace), S4
(frame counting pairs), S6 (segment order).  Not decided: first segment starts
at 0 / nothing extends past the frames searched (runtime values).
"""
import re

from .. import lin, paths
from ..prog import AnalysisIncomplete
from .c01 import S

U = "fsg_search.c"


def key(fn, what):
    return "%s:%s" % (fn.name, what)


def api_passthrough_rule(ctx, P):
    """the decoder's result functions hand out what the search computes in the same call"""
    r = ctx.rule("PROV.S8-no-stale-result", "decoder_hyp, decoder_seg_iter and decoder_prob return NULL / an error value or what the search's slot returned in this very call, and the score out-parameter is written by that slot call: a hypothesis or score remembered from an earlier call (for instance from before decoder_end_utt) is never handed out", floor=4)
    for name, slot in (("decoder_hyp", "hyp"), ("decoder_seg_iter", "seg_iter"), ("decoder_prob", "prob")):
        f = P.fn(name, "decoder.c")
        ctx.touch(f)
        calls = [c for c in f.calls() if (f.nodes[c].get("slot") or [None, None])[1] == slot]
        if not calls:
            ctx.bad(r, "%s:slot-call" % name, f.where(f.root), "%s no longer calls the search's `%s` function" % (name, slot))
            continue
        okall = True
        for rt in f.find("Return"):
            if not f.ch(rt):
                continue
            v = f.ch(rt)[0]
            if paths._is_zero(f, v) or (f.constval(v) is not None):
                continue
            txt = f.canon(v, calls=True)
            fresh = any(txt == f.canon(c, subst=False) or f.canon(c, subst=False) in txt for c in calls)
            d = paths.local_of(f, v)
            if not fresh and d is not None:
                # a local whose every definition reaching the return is the slot call's result
                defs = [dn for dn in paths.defs_of_local(f, d) if isinstance(dn, int)]
                vals = []
                for dn in defs:
                    val = f.ch(dn)[1] if f.k(dn) == "Assign" else (f.ch(dn)[0] if f.k(dn) == "Var" and f.ch(dn) else None)
                    vals.append(f.strip(val) if val is not None else None)
                fresh = bool(vals) and all(x is not None and (x in calls or paths._is_zero(f, x)) for x in vals)
            okall = okall and fresh
            ctx.check(r, fresh, "%s:return@%d" % (name, sum(1 for r2 in f.find("Return") if r2 <= rt)), f.where(rt), "%s returns `%s`, which is not the result of the search's `%s` function in this call: a remembered result can be stale (the utterance may have ended, words may have been added)" % (name, f.src(v)[:50], slot))
        # the score out-parameter goes to the slot call
        if name in ("decoder_hyp", "decoder_prob") and len(f.params) > 1:
            outp = f.params[1][0]
            direct = any(outp in [f.canon(a, subst=False) for a in f.args(c)] for c in calls)
            others = [s_ for s_ in paths.stores(f) if s_["path"] == "*%s" % outp]
            ctx.check(r, direct and not others, "%s:score-out" % name, f.where(calls[0]), "%s does not pass its score out-parameter to the search's `%s` function (or writes it from elsewhere)" % (name, slot))


def score_of_exit_rule(ctx, P):
    """shared with C02: the score the search reports is the score of the entry it back-traces"""
    fns = {f.name: f for f in P.functions(U) if f.file.endswith(U)}
    # ---- S7 reported score belongs to the selected exit -------------------------------------------------
    s7 = ctx.rule("PAIR.S7-score-of-exit", "in the exit search the best score and the selected entry are updated together under the same conditions, so the reported path score is the score of the entry the hypothesis and segments are traced from", floor=2)
    fe = fns.get("fsg_search_find_exit")
    if fe is None:
        raise AnalysisIncomplete("anchor vanished: fsg_search_find_exit")
    ctx.touch(fe)
    bs = [s for s in paths.stores(fe) if s["path"] == "bestscore" and s["rhs"] is not None and not paths.is_const(fe, s["rhs"])]
    bh = [s for s in paths.stores(fe) if s["path"] == "besthist" and s["rhs"] is not None and not paths.is_const(fe, s["rhs"], -1)]
    for s in bs:
        mates = [t for t in bh if paths.same_block(fe, t["node"], s["node"])]
        ctx.check(s7, len(mates) == 1, key(fe, "score-with-entry"), fe.where(s["node"]), "best score is updated without selecting the entry it belongs to in the same branch: the reported score can come from an entry that is not the one back-traced (segment scores no longer add up to it)")
    for t in bh:
        mates = [s for s in bs if paths.same_block(fe, t["node"], s["node"])]
        tie = paths.guarded(fe, t["node"], lambda fn, cc, pol: paths.rel(fn, cc, pol) in (("bestscore", "==", "hist_entry->score"), ("hist_entry->score", "==", "bestscore")))
        ctx.check(s7, len(mates) == 1 or tie, key(fe, "entry-with-score:%s" % ("tie" if tie else "better")), fe.where(t["node"]), "an entry is selected without taking its score (and not under score == bestscore)")
    outs = [s for s in paths.stores(fe) if s["path"] == "*out_score"]
    ctx.check(s7, len(outs) == 1 and fe.canon(outs[0]["rhs"]) == "bestscore" and len(bs) >= 1, key(fe, "reported"), fe.where(fe.root), "the score reported is not the best score of the selection loop")


def run(ctx):
    P = ctx.P
    api_passthrough_rule(ctx, P)
    fns = {f.name: f for f in P.functions(U) if f.file.endswith(U)}
    for n in ("fsg_seg_bp2itor", "fsg_search_hyp", "fsg_search_seg_iter", "fsg_seg_next"):
        if n not in fns:
            raise AnalysisIncomplete("anchor vanished: %s" % n)
        ctx.touch(fns[n])

    # ---- S1 times ------------------------------------------------------------------
    s1 = ctx.rule("PROV.S1-times", "a segment ends at its entry's frame and starts one frame after its predecessor entry ends (0 without predecessor), clamped to its end for null entries; word and grammar score come from the same entry's link", floor=6)
    f = fns["fsg_seg_bp2itor"]
    seg, he = f.params[0][0], f.params[1][0]
    st = {}
    for s in paths.stores(f):
        if s["rec"] == "seg_iter_s":
            st.setdefault(s["field"], []).append(s)
    def form(s, subst=True):
        return f.canon(s["rhs"], subst=subst) if s["rhs"] is not None else s["op"]
    srch = S(f)
    PH = "fsg_history_entry_get(%s->search->history, %s->pred)" % (seg, he)
    ctx.check(s1, [form(s) for s in st.get("ef", [])] == ["%s->frame" % he], key(f, "ef"), f.where(f.root), "segment end is %s" % [form(s) for s in st.get("ef", [])])
    sfs = st.get("sf", [])
    sf_forms = [form(s, subst=False) for s in sfs]
    ctx.check(s1, len(sfs) == 2 and sf_forms[0] == "(ph ? (1 + ph->frame) : 0)" and sf_forms[1] == "%s->ef" % seg, key(f, "sf"), f.where(f.root), "segment start is computed as %s, expected `ph ? ph->frame + 1 : 0` then the clamp to ef" % sf_forms)
    if len(sfs) == 2:
        g = paths.guarded(f, sfs[1]["node"], lambda fn, c, pol: paths.rel(fn, c, pol, subst=False) == ("%s->ef" % seg, "<", "%s->sf" % seg))
        ctx.check(s1, g, key(f, "sf-clamp"), f.where(sfs[1]["node"]), "start is overwritten with the end frame outside the `sf > ef` case (a real word would lose its duration)")
    # ph provenance
    phs = [s for s in paths.stores(f) if s["path"] == "ph" and s["rhs"] is not None and not paths.is_const(f, s["rhs"], 0)]
    okph = len(phs) == 1 and f.canon(phs[0]["rhs"]) == PH
    if okph:
        okph = paths.guarded(f, phs[0]["node"], lambda fn, c, pol: paths.rel(fn, c, pol) in (("0", "<=", "%s->pred" % he), ("0", "<=", "bp = %s->pred" % he)) or paths.rel(fn, c, pol, subst=False) == ("0", "<=", "bp = %s->pred" % he))
    ctx.check(s1, okph, key(f, "pred-entry"), f.where(f.root), "predecessor entry is not fetched at `%s->pred` under pred >= 0 (found %s)" % (he, [f.canon(s["rhs"]) for s in phs]))
    phinit = [v for v in f.find("Var") if f.nodes[v]["name"] == "ph"]
    ctx.check(s1, len(phinit) == 1 and f.ch(phinit[0]) and paths.is_const(f, f.ch(phinit[0])[0], 0), key(f, "pred-null"), f.where(f.root), "ph is not NULL when there is no predecessor")
    ctx.check(s1, [form(s) for s in st.get("word", [])] == ["((-1 == %s->fsglink->wid) ? \"(NULL)\" : %s->search->fsg->vocab[%s->fsglink->wid])" % (he, seg, he)], key(f, "word"), f.where(f.root), "segment word is %s" % [form(s) for s in st.get("word", [])])
    ctx.check(s1, [form(s) for s in st.get("lscr", [])] == ["(%s->fsglink->logs2prob >> 10)" % he], key(f, "lscr"), f.where(f.root), "grammar score is %s" % [form(s) for s in st.get("lscr", [])])

    # ---- S2 score identity ----------------------------------------------------------------
    s2 = ctx.rule("LIN.S2-score", "ascr + lscr equals score(entry) - score(predecessor) (just score(entry) without predecessor) as a symbolic identity on both branches, so segment scores telescope to the path score; prob = ascr + lscr", floor=3)
    for s in st.get("ascr", []):
        withph = paths.guarded(f, s["node"], lambda fn, c, pol: paths.cond_atoms(fn, c, pol, subst=False) == ("ph", True))
        p = lin.poly(f, s["rhs"], subst=False)
        total = lin.p_add(p, lin.p_atom("%s->lscr" % seg))
        want = lin.p_atom("%s->score" % he)
        if withph:
            want = lin.p_add(want, lin.p_atom("ph->score"), -1)
        ctx.check(s2, total == want, key(f, "ascr:" + ("pred" if withph else "nopred")), f.where(s["node"]), "ascr + lscr = %s, expected %s: segment scores no longer add up to the path score" % (lin.p_str(total), lin.p_str(want)), lin.p_str(total))
    ctx.check(s2, len(st.get("ascr", [])) == 2, key(f, "ascr-branches"), f.where(f.root), "expected ascr on the predecessor and the no-predecessor branch")
    pr = st.get("prob", [])
    ctx.check(s2, len(pr) == 1 and lin.poly(f, pr[0]["rhs"], subst=False) == lin.p_add(lin.p_atom("%s->lscr" % seg), lin.p_atom("%s->ascr" % seg)), key(f, "prob"), f.where(f.root), "prob is not ascr + lscr")
    # lscr must be assigned before it is used in ascr
    for s in st.get("ascr", []):
        ctx.check(s2, paths.always_before(f, s["node"], lambda e: e == st["lscr"][0]["node"]) if st.get("lscr") else False, key(f, "lscr-first"), f.where(s["node"]), "ascr uses lscr before it is set for this segment")

    # ---- S3 hypothesis string passes ---------------------------------------------------------
    s3 = ctx.rule("TWIN.S3-hyp-passes", "the length pass and the fill pass of fsg_search_hyp skip the same entries, take the word from the same source, and count strlen+1 per word where the fill writes strlen bytes plus one separator except at the buffer start; the buffer is the counted length", floor=6)
    f = fns["fsg_search_hyp"]
    loops = [w for w in f.find("While") if paths.rel(f, f.ch(w)[0], True, subst=False) and paths.rel(f, f.ch(w)[0], True, subst=False)[1] == "<"]
    ctx.check(s3, len(loops) == 2, key(f, "two-passes"), f.where(f.root), "expected a length pass and a fill pass")
    sigs = []
    for w in loops:
        body = f.ch(w)[1]
        skips = []
        for c in f.find("Continue", root=body):
            b = paths.pos_of(f, c)[0]
            conds = sorted(paths.cond_atoms(f, cc, pol) for (s0, d0, cc, pol) in f.cfg.cond_edges() if d0 == b)
            skips.append(tuple(conds))
        words = [f.canon(s["rhs"]) for s in paths.stores(f, body) if s["path"] == "baseword"]
        sigs.append((sorted(skips), words))
    if len(sigs) == 2:
        ctx.check(s3, sigs[0] == sigs[1] and len(sigs[0][0]) == 1, key(f, "same-skip-and-word"), f.where(loops[0]), "length pass %s and fill pass %s disagree" % (sigs[0], sigs[1]), str(sigs[0]))
        skip = sigs[0][0][0] if sigs[0][0] else ()
        want_skip = sorted([("(fsg_history_entry_get(%s->history, bp)->fsglink->wid < 0)" % S(f), True), ("fsg_model_is_filler", True)])
        okskip = len(skip) == 2 and any(a[0].endswith("->wid < 0)") and a[1] for a in skip) and any(("is_filler" in a[0] or "silwords" in a[0]) and a[1] for a in skip)
        ctx.check(s3, okskip, key(f, "skip-pred"), f.where(loops[0]), "entries skipped under %s, expected exactly null (wid < 0) or filler entries" % (skip,))
        wsrc = sigs[0][1]
        ctx.check(s3, len(wsrc) == 1 and wsrc[0].startswith("(dict_wordid(") is False and "basewid" in wsrc[0] or (len(wsrc) == 1 and wsrc[0].startswith("dict_basestr(")), key(f, "base-form"), f.where(loops[0]), "word text is `%s`, not the base form (alternate marker removed)" % wsrc)
    if len(loops) == 2:
        b1, b2 = f.ch(loops[0])[1], f.ch(loops[1])[1]
        acc = [s for s in paths.stores(f, b1) if s["path"] == "len"]
        ctx.check(s3, len(acc) == 1 and acc[0]["op"] == "+=" and f.canon(acc[0]["rhs"], subst=False) == "(1 + strlen(baseword))", key(f, "count"), f.where(loops[0]), "length pass counts %s per word" % [f.canon(s["rhs"], subst=False) for s in acc])
        mc = f.calls("memcpy", root=b2)
        okm = len(mc) == 1 and [f.canon(a, subst=False) for a in f.args(mc[0])] == ["c", "baseword", "len"]
        ctx.check(s3, okm, key(f, "copy"), f.where(loops[1]), "fill pass does not copy the word with memcpy(c, baseword, len)")
        ln = [s for s in paths.stores(f, b2) if s["path"] == "len"]
        cd = [s for s in paths.stores(f, b2) if s["path"] == "c"]
        okc = len(ln) == 1 and f.canon(ln[0]["rhs"], subst=False) == "strlen(baseword)" and [(s["op"], f.canon(s["rhs"], subst=False) if s["rhs"] is not None else None) for s in cd] == [("-=", "len"), ("--", None)]
        ctx.check(s3, okc, key(f, "cursor"), f.where(loops[1]), "fill pass moves the cursor by %s" % [(s["op"], f.canon(s["rhs"], subst=False) if s["rhs"] is not None else None) for s in cd])
        if okc and okm:
            # cursor moved back before the copy; separator only when not at buffer start
            ctx.check(s3, paths.pos_of(f, cd[0]["node"]) < paths.pos_of(f, mc[0]) or paths.always_before(f, mc[0], lambda e: e == cd[0]["node"]), key(f, "move-then-copy"), f.where(mc[0]), "word copied before the cursor was moved back")
            g = paths.guarded(f, cd[1]["node"], lambda fn, c, pol: paths.rel(fn, c, pol, subst=False) in (("%s->hyp_str" % S(f), "<", "c"), ("search->hyp_str", "<", "c")))
            ctx.check(s3, g, key(f, "separator-guard"), f.where(cd[1]["node"]), "separator written without the `c > hyp_str` test (writes before the buffer for the first word)")
        al = [s for s in paths.stores(f) if s["field"] == "hyp_str" and s["rhs"] is not None and "calloc" in f.canon(s["rhs"], subst=False)]
        ctx.check(s3, len(al) == 1 and f.canon(al[0]["rhs"], subst=False).startswith("__ckd_calloc__(1, len,"), key(f, "alloc"), f.where(f.root), "buffer is not allocated with the counted length")
        ci = [s for s in paths.stores(f) if s["path"] == "c" and s["op"] == "=" and s["rhs"] is not None]
        ctx.check(s3, len(ci) == 1 and lin.poly(f, ci[0]["rhs"], subst=False) == lin.p_add(lin.p_add(lin.p_atom("%s->hyp_str" % ("search" if S(f) == "search" else S(f))), lin.p_atom("len")), lin.p_const(-1)), key(f, "cursor-start"), f.where(f.root), "fill cursor does not start at hyp_str + len - 1")
        # len == 0 -> NULL
        z = [r for r in f.find("Return") if paths.guarded(f, r, lambda fn, c, pol: paths.rel(fn, c, pol, subst=False) in (("0", "==", "len"), ("len", "==", "0")))]
        ctx.check(s3, len(z) == 1, key(f, "empty"), f.where(f.root), "no NULL return for a hypothesis without words")

    # ---- S4 frame counting ---------------------------------------------------------------------
    s4 = ctx.rule("PAIR.S4-frames", "each successful search step is followed on the same path by exactly one acmod_advance and one increment of every frame counter; processing calls return the sum of the frames searched; acmod_advance moves output_frame, n_feat_frame and feat_outidx exactly once", floor=8)
    fw = P.fn("search_module_forward", "decoder.c")
    ctx.touch(fw)
    steps = fw.calls(None)
    stepc = [c for c in fw.find("Call") if fw.nodes[c].get("slot") == ["searchfuncs_s", "step"] or fw.nodes[c].get("callee") == "search_module_step"]
    adv = fw.calls("acmod_advance")
    ok = len(stepc) == 1 and len(adv) == 1
    ctx.check(s4, ok, key(fw, "one-step-one-advance"), fw.where(fw.root), "expected one step and one acmod_advance in the forward loop (found %d / %d)" % (len(stepc), len(adv)))
    if ok:
        # the failing edge (k < 0) leaves; otherwise advance follows
        rets = [r for r in fw.find("Return") if paths.guarded(fw, r, lambda fn, c, pol: pol and (paths.rel(fn, c, True) or (0, 0, 0))[1] == "<" and (paths.rel(fn, c, True) or (0, 0, "x"))[2] == "0")]
        ctx.check(s4, paths.must_pass(fw, stepc[0], lambda e: e == adv[0] or e in rets), key(fw, "advance-after-step"), fw.where(stepc[0]), "a frame is searched without advancing the acoustic model")
        ctx.check(s4, not fw.cfg.path_exists(paths.pos_of(fw, adv[0]), lambda e: e == adv[0], is_barrier=lambda e: e == stepc[0]), key(fw, "one-advance-per-step"), fw.where(adv[0]), "acmod advanced twice for one searched frame")
        ctx.check(s4, fw.canon(fw.args(stepc[0])[1]).endswith("->acmod->output_frame"), key(fw, "frame-arg"), fw.where(stepc[0]), "the frame index searched is `%s`, not the acoustic model's output frame" % fw.canon(fw.args(stepc[0])[1]))
        for cnt in ("nfr", "d->n_frame"):
            incs = [s for s in paths.stores(fw) if s["path"] == cnt and s["op"] == "++"]
            okc = len(incs) == 1 and paths.paired(fw, incs[0]["node"], adv[0])
            ctx.check(s4, okc, key(fw, "count:" + cnt), fw.where(fw.root), "`%s` is not incremented exactly once per advanced frame" % cnt)
        rv = [fw.canon(fw.ch(r)[0], subst=False) for r in fw.find("Return") if not paths.guarded(fw, r, lambda fn, c, pol: True and (paths.cond_atoms(fn, c, pol, subst=False)[0].endswith("->search") or "step" in paths.cond_atoms(fn, c, pol, subst=False)[0] or "k" == paths.cond_atoms(fn, c, pol, subst=False)[0][1:2]))]
        ctx.check(s4, "nfr" in [fw.canon(fw.ch(r)[0], subst=False) for r in fw.find("Return")], key(fw, "returns-count"), fw.where(fw.root), "forward does not return the number of frames it searched")
        # loop condition: frames available
        conds = [paths.rel(fw, c, pol) for (s0, d0, c, pol) in fw.cfg.cond_edges() if pol]
        ctx.check(s4, any(r and r[0] == "0" and r[1] == "<" and r[2].endswith("->n_feat_frame") for r in conds), key(fw, "while-frames"), fw.where(fw.root), "forward loop is not `while n_feat_frame > 0`")
    for name, inner in (("decoder_process_int16", "acmod_process_raw"), ("decoder_process_float32", "acmod_process_float32")):
        g = P.fn(name, "decoder.c")
        ctx.touch(g)
        fwc = g.calls("search_module_forward")
        accs = [s for s in paths.stores(g) if s["op"] == "+=" and s["kind"] == "DeclRef"]
        ok = len(fwc) == 1 and len(accs) == 1 and g.canon(accs[0]["rhs"]) == "search_module_forward(d)".replace("d", g.params[0][0], 1) if False else (len(fwc) == 1 and len(accs) == 1)
        if ok:
            tot = accs[0]["path"]
            ok = g.canon(accs[0]["rhs"], calls=True).startswith("search_module_forward(") and paths.must_pass(g, fwc[0], lambda e: e == accs[0]["node"] or (g.k(e) == "Return" and paths.guarded(g, e, lambda fn, c, pol: pol and "search_module_forward" in fn.canon(c))))
            finals = [g.canon(g.ch(r)[0], subst=False) for r in g.find("Return")]
            ok = ok and finals.count(tot) == 1
            inits = [v for v in g.find("Var") if g.nodes[v]["name"] == tot and g.ch(v) and paths.is_const(g, g.ch(v)[0], 0)]
            ok = ok and len(inits) == 1
        ctx.check(s4, ok, key(g, "sum"), g.where(g.root), "the value returned is not the sum of search_module_forward results starting from 0")
    av = P.fn("acmod_advance", "acmod.c")
    ctx.touch(av)
    for fld, op in (("output_frame", "++"), ("n_feat_frame", "--"), ("feat_outidx", "++")):
        ss = [s for s in paths.field_stores(av, "acmod_s", fld) if s["op"] == op]
        ctx.check(s4, len(ss) == 1 and paths.entry_must_pass(av, lambda e: e == ss[0]["node"]), key(av, fld), av.where(av.root), "acmod_advance does not apply `%s%s` exactly once on every path" % (op, fld))

    score_of_exit_rule(ctx, P)
    from . import c07
    c07.feat_capacity_rule(ctx, P)

    # ---- S6 segment order -----------------------------------------------------------------------------
    s6 = ctx.rule("PROV.S6-order", "the segment list is filled from the back while the back-trace walks from the exit, so iteration is in time order; the iterator hands out hist[cur] for cur = 0, 1, ... and frees itself at n_hist", floor=4)
    f = fns["fsg_search_seg_iter"]
    hs = [s for s in paths.stores(f) if s["kind"] == "Subscript" and s["path"].endswith("->hist[cur]")]
    ok = len(hs) == 1
    if ok:
        cds = [s for s in paths.stores(f) if s["path"] == "cur"]
        forms = sorted((s["op"], f.canon(s["rhs"], subst=False) if s["rhs"] is not None else "") for s in cds)
        ok = forms == [("--", ""), ("=", "(itor->n_hist - 1)")] and paths.same_block(f, hs[0]["node"], [s for s in cds if s["op"] == "--"][0]["node"])
    ctx.check(s6, ok, key(f, "fill-from-back"), f.where(f.root), "segment list is not filled from index n_hist-1 downwards, one slot per back-trace step")
    nh = [s for s in paths.field_stores(f, "fsg_seg_s", "n_hist")]
    ctx.check(s6, sorted(s["op"] for s in nh) == ["++", "="], key(f, "count"), f.where(f.root), "n_hist is not counted once per back-trace step from 0")
    first = f.calls("fsg_seg_bp2itor")
    ctx.check(s6, len(first) == 1 and f.canon(f.args(first[0])[1], subst=False) == "itor->hist[0]", key(f, "first"), f.where(f.root), "first segment is not hist[0]")
    al = [s for s in paths.field_stores(f, "fsg_seg_s", "hist")]
    ctx.check(s6, len(al) == 1 and f.canon(al[0]["rhs"], subst=False).startswith("__ckd_calloc__(itor->n_hist, 8,"), key(f, "alloc"), f.where(f.root), "segment list is not allocated n_hist entries")
    g = fns["fsg_seg_next"]
    ctx.touch(g)
    nx = g.calls("fsg_seg_bp2itor")
    ctx.check(s6, len(nx) == 1 and g.canon(g.args(nx[0])[1]) == "%s->hist[%s->cur]" % (S(g), S(g)) or (len(nx) == 1 and g.canon(g.args(nx[0])[1], subst=False) == "itor->hist[itor->cur]"), key(g, "next"), g.where(g.root), "next segment is not hist[cur]")
    conds = [paths.rel(g, c, pol, subst=False) for (s0, d0, c, pol) in g.cfg.cond_edges() if pol]
    ctx.check(s6, any(r and r[1] == "==" and "++itor->cur" in (r[0], r[2]) and "itor->n_hist" in (r[0], r[2]) for r in conds), key(g, "end"), g.where(g.root), "iterator does not stop when ++cur == n_hist")
