"""C03 — segmentation tiles the utterance and agrees with hypothesis and score.

Decides S1 (segment time provenance and the +1 offset), S2 (score identity
ascr + lscr = score(e) - score(pred e), symbolically), S3 (the two passes of
the hypothesis builder agree with each other and with the back-trace), S4
(frame counting pairs), S6 (segment order).  Not decided: first segment starts
at 0 / nothing extends past the frames searched (runtime values).
"""
import re

from .. import lin, paths
from ..prog import AnalysisIncomplete
from .c01 import S

U = "fsg_search.c"


def key(fn, what):
    return "%s:%s" % (fn.name, what)


def api_passthrough_rule(ctx, P):
    """the decoder's result functions hand out what the search computes in the same call"""
    r = ctx.rule("PROV.S8-no-stale-result", "decoder_hyp, decoder_seg_iter and decoder_prob return NULL / an error value or what the search's slot returned in this very call, and the score out-parameter is written by that slot call: a hypothesis or score remembered from an earlier call (for instance from before decoder_end_utt) is never handed out", floor=4)
    for name, slot in (("decoder_hyp", "hyp"), ("decoder_seg_iter", "seg_iter"), ("decoder_prob", "prob")):
        f = P.fn(name, "decoder.c")
        ctx.touch(f)
        calls = [c for c in f.calls() if (f.nodes[c].get("slot") or [None, None])[1] == slot]
        if not calls:
            ctx.bad(r, "%s:slot-call" % name, f.where(f.root), "%s no longer calls the search's `%s` function" % (name, slot))
            continue
        okall = True
        for rt in f.find("Return"):
            if not f.ch(rt):
                continue
            v = f.ch(rt)[0]
            if paths._is_zero(f, v) or (f.constval(v) is not None):
                continue
            txt = f.canon(v, calls=True)
            fresh = any(txt == f.canon(c, subst=False) or f.canon(c, subst=False) in txt for c in calls)
            d = paths.local_of(f, v)
            if not fresh and d is not None:
                # a local whose every definition reaching the return is the slot call's result
                defs = [dn for dn in paths.defs_of_local(f, d) if isinstance(dn, int)]
                vals = []
                for dn in defs:
                    val = f.ch(dn)[1] if f.k(dn) == "Assign" else (f.ch(dn)[0] if f.k(dn) == "Var" and f.ch(dn) else None)
                    vals.append(f.strip(val) if val is not None else None)
                fresh = bool(vals) and all(x is not None and (x in calls or paths._is_zero(f, x)) for x in vals)
            okall = okall and fresh
            ctx.check(r, fresh, "%s:return@%d" % (name, sum(1 for r2 in f.find("Return") if r2 <= rt)), f.where(rt), "%s returns `%s`, which is not the result of the search's `%s` function in this call: a remembered result can be stale (the utterance may have ended, words may have been added)" % (name, f.src(v)[:50], slot))
        # the score out-parameter goes to the slot call
        if name in ("decoder_hyp", "decoder_prob") and len(f.params) > 1:
            outp = f.params[1][0]
            direct = any(outp in [f.canon(a, subst=False) for a in f.args(c)] for c in calls)
            others = [s_ for s_ in paths.stores(f) if s_["path"] == "*%s" % outp]
            ctx.check(r, direct and not others, "%s:score-out" % name, f.where(calls[0]), "%s does not pass its score out-parameter to the search's `%s` function (or writes it from elsewhere)" % (name, slot))
    return r


def fresh_string_rule(ctx, P, r=None):
    """the search's own hypothesis function: the string it keeps in the search is only a buffer - whatever it
    returns from that field was stored there in this very call (built by the backtrace of the exit just
    selected, or reset), never left over from an earlier call (a partial result, the previous state of `final`)"""
    r = r or ctx.rule("PROV.S8-no-stale-result", "", floor=4)
    f = P.fn("fsg_search_hyp", U)
    ctx.touch(f)
    st = set(s_["node"] for s_ in paths.stores(f) if s_["field"] == "hyp_str")
    n = 0
    for rt in f.find("Return"):
        if not f.ch(rt) or "hyp_str" not in f.canon(f.ch(rt)[0], subst=False):
            continue
        n += 1
        ctx.check(r, paths.always_before(f, rt, lambda e: e in st), "fsg_search_hyp:fresh-string@%d" % n, f.where(rt), "fsg_search_hyp returns the string kept in the search on a path that did not store it in this call: a string built by an earlier call (a partial result, before the utterance was ended) is handed out with the score and segmentation of the present exit")
    if n == 0:
        raise AnalysisIncomplete("fsg_search_hyp no longer returns the kept string")
    # the exit is selected before anything is returned from the history
    fe = [c for c in f.calls("fsg_search_find_exit")]
    ctx.check(r, len(fe) == 1 and all(paths.always_before(f, rt, lambda e: e == fe[0]) for rt in f.find("Return") if f.ch(rt) and not paths._is_zero(f, f.ch(rt)[0])), "fsg_search_hyp:exit-first", f.where(f.root), "fsg_search_hyp can return a hypothesis without having selected the exit in this call (the final-state constraint is applied by the selection)")


def score_of_exit_rule(ctx, P):
    """shared with C02: the score the search reports is the score of the entry it back-traces"""
    fns = {f.name: f for f in P.functions(U) if f.file.endswith(U)}
    # ---- S7 reported score belongs to the selected exit -------------------------------------------------
    s7 = ctx.rule("PAIR.S7-score-of-exit", "in the exit search the best score and the selected entry are updated together under the same conditions, so the reported path score is the score of the entry the hypothesis and segments are traced from", floor=2)
    fe = fns.get("fsg_search_find_exit")
    if fe is None:
        raise AnalysisIncomplete("anchor vanished: fsg_search_find_exit")
    ctx.touch(fe)
    bs = [s for s in paths.stores(fe) if s["path"] == "bestscore" and s["rhs"] is not None and not paths.is_const(fe, s["rhs"])]
    bh = [s for s in paths.stores(fe) if s["path"] == "besthist" and s["rhs"] is not None and not paths.is_const(fe, s["rhs"], -1)]
    for s in bs:
        mates = [t for t in bh if paths.same_block(fe, t["node"], s["node"])]
        ctx.check(s7, len(mates) == 1, key(fe, "score-with-entry"), fe.where(s["node"]), "best score is updated without selecting the entry it belongs to in the same branch: the reported score can come from an entry that is not the one back-traced (segment scores no longer add up to it)")
    for t in bh:
        mates = [s for s in bs if paths.same_block(fe, t["node"], s["node"])]
        tie = paths.guarded(fe, t["node"], lambda fn, cc, pol: paths.rel(fn, cc, pol) in (("bestscore", "==", "hist_entry->score"), ("hist_entry->score", "==", "bestscore")))
        ctx.check(s7, len(mates) == 1 or tie, key(fe, "entry-with-score:%s" % ("tie" if tie else "better")), fe.where(t["node"]), "an entry is selected without taking its score (and not under score == bestscore)")
    outs = [s for s in paths.stores(fe) if s["path"] == "*out_score"]
    ctx.check(s7, len(outs) == 1 and fe.canon(outs[0]["rhs"]) == "bestscore" and len(bs) >= 1, key(fe, "reported"), fe.where(fe.root), "the score reported is not the best score of the selection loop")


def run(ctx):
    P = ctx.P
    r8 = api_passthrough_rule(ctx, P)
    fresh_string_rule(ctx, P, r8)
    fns = {f.name: f for f in P.functions(U) if f.file.endswith(U)}
    for n in ("fsg_seg_bp2itor", "fsg_search_hyp", "fsg_search_seg_iter", "fsg_seg_next"):
        if n not in fns:
            raise AnalysisIncomplete("anchor vanished: %s" % n)
        ctx.touch(fns[n])

    # ---- S1 times ------------------------------------------------------------------
    s1 = ctx.rule("PROV.S1-times", "a segment ends at its entry's frame and starts one frame after its predecessor entry ends (0 without predecessor), clamped to its end for null entries; word and grammar score come from the same entry's link", floor=6)
    s2 = ctx.rule("LIN.S2-score", "ascr + lscr equals score(entry) - score(predecessor) (just score(entry) without predecessor) as a symbolic identity on every path, so segment scores telescope to the path score; prob = ascr + lscr", floor=3)
    f = fns["fsg_seg_bp2itor"]
    seg, he = f.params[0][0], f.params[1][0]
    # decided case by case over the paths of the (loop-free) function, so that temporaries, conditional
    # expressions vs. if / else and the order of independent statements do not matter (symx.py)
    from .. import symx
    pths = symx.run_paths(f, P)
    PH = "fsg_history_entry_get(%s->search->history, %s->pred)" % (seg, he)
    EF = "%s->frame" % he
    bad = {}
    seen = {"pred": 0, "nopred": 0}

    def note(k_, msg):
        bad.setdefault(k_, msg)
    for pt in pths:
        nopred_by_index = pt.atoms.get(("<", "%s->pred" % he, "0"))
        fetched = [c_ for c_ in pt.calls if c_[0] == "fsg_history_entry_get"]
        if nopred_by_index is None and fetched:
            note("pred-entry", "the predecessor entry is fetched without testing pred >= 0")
        if any(c_[1] != ["%s->search->history" % seg, "%s->pred" % he] for c_ in fetched):
            note("pred-entry", "predecessor entry is fetched as %s, expected %s" % (["%s(%s)" % (c_[0], ", ".join(c_[1])) for c_ in fetched], PH))
        if nopred_by_index is True and fetched:
            note("pred-entry", "a predecessor is fetched although pred < 0")
        haspred = nopred_by_index is False and bool(fetched) and pt.atoms.get(("nz", PH)) is not False
        if nopred_by_index is False and not fetched:
            note("pred-null", "pred >= 0 but the predecessor entry is not looked at")
        seen["pred" if haspred else "nopred"] += 1
        START = lin.p_add(lin.p_atom("(%s)->frame" % PH), lin.p_const(1)) if haspred else {}
        PSC = lin.p_atom("(%s)->score" % PH) if haspred else {}
        ef = pt.get("%s->ef" % seg)
        sf = pt.get("%s->sf" % seg)
        if lin.p_str(ef) != EF:
            note("ef", "segment end is %s, expected %s" % (lin.p_str(ef), EF))
        st_, ef_ = lin.p_str(START), lin.p_str(ef)
        clamp = pt.atoms.get(("<", ef_, st_))
        if clamp is None and pt.atoms.get(("<", st_, ef_)) is True:
            clamp = False
        if clamp is None:
            note("sf-clamp", "on some path the start (%s) is not compared with the end: a null entry after a word would start after it ends" % st_)
        elif clamp and lin.p_str(sf) != ef_:
            note("sf-clamp", "start %s exceeds the end but the segment starts at %s" % (st_, lin.p_str(sf)))
        elif not clamp and sf != START:
            note("sf", "segment start is %s where %s is expected (%s predecessor)" % (lin.p_str(sf), st_, "with" if haspred else "without"))
        lscr = pt.get("%s->lscr" % seg)
        if lin.p_str(lscr) != "(%s->fsglink->logs2prob >> 10)" % he:
            note("lscr", "grammar score is %s" % lin.p_str(lscr))
        isnull = pt.atoms.get(("==", "-1", "%s->fsglink->wid" % he))
        word = lin.p_str(pt.get("%s->word" % seg))
        wantw = {True: '"(NULL)"', False: "%s->search->fsg->vocab[%s->fsglink->wid]" % (seg, he)}.get(isnull)
        if wantw is None or word != wantw:
            note("word", "segment word is %s, expected %s" % (word, wantw))
        total = lin.p_add(pt.get("%s->ascr" % seg), lscr)
        want = lin.p_add(lin.p_atom("%s->score" % he), PSC, -1)
        if total != want:
            note("ascr:" + ("pred" if haspred else "nopred"), "ascr + lscr = %s, expected %s: segment scores no longer add up to the path score" % (lin.p_str(total), lin.p_str(want)))
        if pt.get("%s->prob" % seg) != total:
            note("prob", "prob is %s, not ascr + lscr" % lin.p_str(pt.get("%s->prob" % seg)))
    if not pths or not seen["pred"] or not seen["nopred"]:
        note("pred-null", "expected paths with and without a predecessor entry (%s)" % seen)
    for k_ in ("ef", "sf", "sf-clamp", "pred-entry", "pred-null", "word", "lscr"):
        ctx.check(s1, k_ not in bad, key(f, k_), f.where(f.root), bad.get(k_, ""))
    for k_ in ("ascr:pred", "ascr:nopred", "prob"):
        ctx.check(s2, k_ not in bad, key(f, k_), f.where(f.root), bad.get(k_, ""))

    # ---- S3 hypothesis string passes ---------------------------------------------------------
    s3 = ctx.rule("TWIN.S3-hyp-passes", "the length pass and the fill pass of fsg_search_hyp skip the same entries, take the word from the same source, and count strlen+1 per word where the fill writes strlen bytes plus one separator except at the buffer start; the buffer is the counted length", floor=6)
    f = fns["fsg_search_hyp"]
    loops = [w for w in f.find("While") if paths.rel(f, f.ch(w)[0], True, subst=False) and paths.rel(f, f.ch(w)[0], True, subst=False)[1] == "<"]
    ctx.check(s3, len(loops) == 2, key(f, "two-passes"), f.where(f.root), "expected a length pass and a fill pass")
    # one iteration of each pass, path by path (symx.loop_paths): which entries are skipped, which text is
    # taken, what is counted and what is written do not depend on how the source spells it
    if len(loops) == 2:
        from .. import symx
        sig = []
        for w in loops:
            rows = []
            for pt in symx.loop_paths(f, w, P):
                if pt.end != "next":
                    continue
                if any(k_[0] == "nz" and (".basewid].word" in k_[1] or k_[1].startswith("dict_basestr(")) and not v_ for k_, v_ in pt.atoms.items()):
                    continue        # "the word has no text": not a case either pass could count or copy
                sl = [c_ for c_ in pt.calls if c_[0] == "strlen"]
                cp = [c_ for c_ in pt.calls if c_[0] in ("memcpy", "strcpy", "memmove")]
                widk = [k_ for k_ in pt.atoms if k_[0] == "<" and k_[1].endswith("->fsglink->wid") and k_[2] == "0"]
                nullw = pt.atoms.get(widk[0]) if widk else None
                fill = any(k_[0] == "nz" and "silwords[" in k_[1] and v_ for k_, v_ in pt.atoms.items())
                rows.append({"skip": not sl and not cp, "nullw": nullw, "fill": fill, "word": sl[0][1][0] if sl else None, "pt": pt, "copy": cp, "n_strlen": len(sl)})
            sig.append(rows)
        proj = [sorted(set((r["skip"], r["nullw"], r["fill"], r["word"]) for r in rows), key=str) for rows in sig]
        ctx.check(s3, proj[0] == proj[1] and any(r[0] for r in proj[0]) and any(not r[0] for r in proj[0]), key(f, "same-skip-and-word"), f.where(loops[0]), "length pass and fill pass disagree on which entries they skip or which text they take: %s vs %s" % ([r[:3] for r in proj[0]], [r[:3] for r in proj[1]]), str([r[:3] for r in proj[0]]))
        okskip = all(r["nullw"] is not None and r["skip"] == (r["nullw"] is True or r["fill"]) for rows in sig for r in rows)
        ctx.check(s3, okskip, key(f, "skip-pred"), f.where(loops[0]), "the entries skipped are not exactly the null (wid < 0) and filler entries: %s" % sorted(set((r["skip"], r["nullw"], r["fill"]) for rows in sig for r in rows), key=str))
        words = sorted(set(r["word"] for rows in sig for r in rows if r["word"]))
        ctx.check(s3, bool(words) and all(".basewid].word" in w_ or w_.startswith("dict_basestr(") for w_ in words), key(f, "base-form"), f.where(loops[0]), "word text is `%s`, not the base form (alternate marker removed)" % words)
        okcount = True
        for r in sig[0]:
            if not r["skip"]:
                want = lin.p_add(lin.p_add(lin.p_atom("len"), lin.p_const(1)), lin.p_atom("strlen(%s)" % r["word"]))
                okcount = okcount and r["pt"].get("len") == want and r["n_strlen"] == 1
        ctx.check(s3, okcount, key(f, "count"), f.where(loops[0]), "length pass does not add strlen(word) + 1 per word: %s" % sorted(set(lin.p_str(r["pt"].get("len")) for r in sig[0] if not r["skip"]))[:2])
        okcopy = okcur = oksep = True
        HYP = "%s->hyp_str" % ("search" if S(f) == "search" else S(f))
        for r in sig[1]:
            if r["skip"]:
                continue
            n = lin.p_atom("strlen(%s)" % r["word"])
            dst = lin.p_add(lin.p_atom("c"), n, -1)
            if len(r["copy"]) != 1 or r["copy"][0][1] != [lin.p_str(dst), r["word"], lin.p_str(n)]:
                okcopy = False
            sep = r["pt"].atoms.get(("<", HYP, lin.p_str(dst)), r["pt"].atoms.get(("<", "search->hyp_str", lin.p_str(dst))))
            cfin = r["pt"].get("c")
            if sep is None:
                oksep = oksep and cfin == dst and False
            elif sep:
                okcur = okcur and cfin == lin.p_add(dst, lin.p_const(1), -1)
            else:
                okcur = okcur and cfin == dst
        ctx.check(s3, okcopy, key(f, "copy"), f.where(loops[1]), "fill pass does not copy strlen(word) bytes of the word to c - strlen(word)")
        ctx.check(s3, okcur, key(f, "cursor"), f.where(loops[1]), "fill pass does not leave the cursor at the start of the word (one before it when a separator is due)")
        ctx.check(s3, oksep, key(f, "separator-guard"), f.where(loops[1]), "separator written without the `c > hyp_str` test (writes before the buffer for the first word)")
        al = [s for s in paths.stores(f) if s["field"] == "hyp_str" and s["rhs"] is not None and "calloc" in f.canon(s["rhs"], subst=False)]
        ctx.check(s3, len(al) == 1 and f.canon(al[0]["rhs"], subst=False).startswith("__ckd_calloc__(1, len,"), key(f, "alloc"), f.where(f.root), "buffer is not allocated with the counted length")
        ci = [s for s in paths.stores(f) if s["path"] == "c" and s["op"] == "=" and s["rhs"] is not None]
        ctx.check(s3, len(ci) == 1 and lin.poly(f, ci[0]["rhs"], subst=False) == lin.p_add(lin.p_add(lin.p_atom("%s->hyp_str" % ("search" if S(f) == "search" else S(f))), lin.p_atom("len")), lin.p_const(-1)), key(f, "cursor-start"), f.where(f.root), "fill cursor does not start at hyp_str + len - 1")
        # len == 0 -> NULL
        z = [r for r in f.find("Return") if paths.guarded(f, r, lambda fn, c, pol: paths.rel(fn, c, pol, subst=False) in (("0", "==", "len"), ("len", "==", "0")))]
        ctx.check(s3, len(z) == 1, key(f, "empty"), f.where(f.root), "no NULL return for a hypothesis without words")

    # ---- S4 frame counting ---------------------------------------------------------------------
    s4 = ctx.rule("PAIR.S4-frames", "each successful search step is followed on the same path by exactly one acmod_advance and one increment of every frame counter; processing calls return the sum of the frames searched; acmod_advance moves output_frame, n_feat_frame and feat_outidx exactly once", floor=8)
    fw = P.fn("search_module_forward", "decoder.c")
    ctx.touch(fw)
    steps = fw.calls(None)
    stepc = [c for c in fw.find("Call") if fw.nodes[c].get("slot") == ["searchfuncs_s", "step"] or fw.nodes[c].get("callee") == "search_module_step"]
    adv = fw.calls("acmod_advance")
    ok = len(stepc) == 1 and len(adv) == 1
    ctx.check(s4, ok, key(fw, "one-step-one-advance"), fw.where(fw.root), "expected one step and one acmod_advance in the forward loop (found %d / %d)" % (len(stepc), len(adv)))
    if ok:
        # the failing edge (k < 0) leaves; otherwise advance follows
        rets = [r for r in fw.find("Return") if paths.guarded(fw, r, lambda fn, c, pol: pol and (paths.rel(fn, c, True) or (0, 0, 0))[1] == "<" and (paths.rel(fn, c, True) or (0, 0, "x"))[2] == "0")]
        ctx.check(s4, paths.must_pass(fw, stepc[0], lambda e: e == adv[0] or e in rets), key(fw, "advance-after-step"), fw.where(stepc[0]), "a frame is searched without advancing the acoustic model")
        ctx.check(s4, not fw.cfg.path_exists(paths.pos_of(fw, adv[0]), lambda e: e == adv[0], is_barrier=lambda e: e == stepc[0]), key(fw, "one-advance-per-step"), fw.where(adv[0]), "acmod advanced twice for one searched frame")
        ctx.check(s4, fw.canon(fw.args(stepc[0])[1]).endswith("->acmod->output_frame"), key(fw, "frame-arg"), fw.where(stepc[0]), "the frame index searched is `%s`, not the acoustic model's output frame" % fw.canon(fw.args(stepc[0])[1]))
        for cnt in ("nfr", "d->n_frame"):
            incs = [s for s in paths.stores(fw) if s["path"] == cnt and s["op"] == "++"]
            okc = len(incs) == 1 and paths.paired(fw, incs[0]["node"], adv[0])
            ctx.check(s4, okc, key(fw, "count:" + cnt), fw.where(fw.root), "`%s` is not incremented exactly once per advanced frame" % cnt)
        rv = [fw.canon(fw.ch(r)[0], subst=False) for r in fw.find("Return") if not paths.guarded(fw, r, lambda fn, c, pol: True and (paths.cond_atoms(fn, c, pol, subst=False)[0].endswith("->search") or "step" in paths.cond_atoms(fn, c, pol, subst=False)[0] or "k" == paths.cond_atoms(fn, c, pol, subst=False)[0][1:2]))]
        ctx.check(s4, "nfr" in [fw.canon(fw.ch(r)[0], subst=False) for r in fw.find("Return")], key(fw, "returns-count"), fw.where(fw.root), "forward does not return the number of frames it searched")
        # loop condition: frames available
        conds = [paths.rel(fw, c, pol) for (s0, d0, c, pol) in fw.cfg.cond_edges() if pol]
        ctx.check(s4, any(r and r[0] == "0" and r[1] == "<" and r[2].endswith("->n_feat_frame") for r in conds), key(fw, "while-frames"), fw.where(fw.root), "forward loop is not `while n_feat_frame > 0`")
    for name, inner in (("decoder_process_int16", "acmod_process_raw"), ("decoder_process_float32", "acmod_process_float32")):
        g = P.fn(name, "decoder.c")
        ctx.touch(g)
        fwc = g.calls("search_module_forward")
        accs = [s for s in paths.stores(g) if s["op"] == "+=" and s["kind"] == "DeclRef"]
        ok = len(fwc) == 1 and len(accs) == 1 and g.canon(accs[0]["rhs"]) == "search_module_forward(d)".replace("d", g.params[0][0], 1) if False else (len(fwc) == 1 and len(accs) == 1)
        if ok:
            tot = accs[0]["path"]
            ok = g.canon(accs[0]["rhs"], calls=True).startswith("search_module_forward(") and paths.must_pass(g, fwc[0], lambda e: e == accs[0]["node"] or (g.k(e) == "Return" and paths.guarded(g, e, lambda fn, c, pol: pol and "search_module_forward" in fn.canon(c))))
            finals = [g.canon(g.ch(r)[0], subst=False) for r in g.find("Return")]
            ok = ok and finals.count(tot) == 1
            inits = [v for v in g.find("Var") if g.nodes[v]["name"] == tot and g.ch(v) and paths.is_const(g, g.ch(v)[0], 0)]
            ok = ok and len(inits) == 1
        ctx.check(s4, ok, key(g, "sum"), g.where(g.root), "the value returned is not the sum of search_module_forward results starting from 0")
    av = P.fn("acmod_advance", "acmod.c")
    ctx.touch(av)
    for fld, op in (("output_frame", "++"), ("n_feat_frame", "--"), ("feat_outidx", "++")):
        ss = [s for s in paths.field_stores(av, "acmod_s", fld) if s["op"] == op]
        ctx.check(s4, len(ss) == 1 and paths.entry_must_pass(av, lambda e: e == ss[0]["node"]), key(av, fld), av.where(av.root), "acmod_advance does not apply `%s%s` exactly once on every path" % (op, fld))

    score_of_exit_rule(ctx, P)
    from . import c07
    c07.feat_capacity_rule(ctx, P)

    # ---- S6 segment order -----------------------------------------------------------------------------
    s6 = ctx.rule("PROV.S6-order", "the segment list is filled from the back while the back-trace walks from the exit, so iteration is in time order; the iterator hands out hist[cur] for cur = 0, 1, ... and frees itself at n_hist", floor=4)
    f = fns["fsg_search_seg_iter"]
    hs = [s for s in paths.stores(f) if s["kind"] == "Subscript" and s["path"].endswith("->hist[cur]")]
    ok = len(hs) == 1
    if ok:
        cds = [s for s in paths.stores(f) if s["path"] == "cur"]
        forms = sorted((s["op"], f.canon(s["rhs"], subst=False) if s["rhs"] is not None else "") for s in cds)
        ok = forms == [("--", ""), ("=", "(itor->n_hist - 1)")] and paths.same_block(f, hs[0]["node"], [s for s in cds if s["op"] == "--"][0]["node"])
    ctx.check(s6, ok, key(f, "fill-from-back"), f.where(f.root), "segment list is not filled from index n_hist-1 downwards, one slot per back-trace step")
    nh = [s for s in paths.field_stores(f, "fsg_seg_s", "n_hist")]
    ctx.check(s6, sorted(s["op"] for s in nh) == ["++", "="], key(f, "count"), f.where(f.root), "n_hist is not counted once per back-trace step from 0")
    # the counting walk follows the predecessors down to the first entry: one count per step, no other way out
    # (segment scores are differences to the predecessor entry, so they sum to the path score only if every
    # entry of the path is a segment - null entries before the first frame included)
    from .. import symx as _sx
    cl = [l_ for l_ in f.find("While") + f.find("For") + f.find("Do") if any(s_["node"] in set(f.walk(l_)) for s_ in nh if s_["op"] != "=")]
    okc, whyc = len(cl) == 1, "counting loop not found"
    if okc:
        cnd = f.ch(cl[0])[1] if f.k(cl[0]) == "For" else f.ch(cl[0])[0]
        rr = paths.rel(f, cnd, True, subst=False)
        if rr is None or (rr[0], rr[1]) != ("0", "<"):
            okc, whyc = False, "the walk does not run while the entry index is positive (%s)" % (rr,)
        else:
            bpv = rr[2]
            for pt in _sx.loop_paths(f, cl[0], P):
                if pt.end != "next":
                    okc, whyc = False, "the walk can stop before the first entry of the path (%s)" % ", ".join("%s%s" % ("" if v_ else "not ", " ".join(k_)) for k_, v_ in pt.atoms.items())
                elif lin.p_str(pt.get(bpv)) != "fsg_history_entry_get(fsgs->history, %s)->pred" % bpv and "pred" not in lin.p_str(pt.get(bpv)):
                    okc, whyc = False, "the walk does not step to the predecessor (%s)" % lin.p_str(pt.get(bpv))
    ctx.check(s6, okc, key(f, "whole-path"), f.where(cl[0]) if cl else f.where(f.root), "counting the segments: %s - entries left out are paid for by the first segment kept but reported by none, so the segment scores no longer sum to the path score" % whyc)
    first = f.calls("fsg_seg_bp2itor")
    ctx.check(s6, len(first) == 1 and f.canon(f.args(first[0])[1], subst=False) == "itor->hist[0]", key(f, "first"), f.where(f.root), "first segment is not hist[0]")
    al = [s for s in paths.field_stores(f, "fsg_seg_s", "hist")]
    ctx.check(s6, len(al) == 1 and f.canon(al[0]["rhs"], subst=False).startswith("__ckd_calloc__(itor->n_hist, 8,"), key(f, "alloc"), f.where(f.root), "segment list is not allocated n_hist entries")
    g = fns["fsg_seg_next"]
    ctx.touch(g)
    from .. import symx
    sg = g.params[0][0]
    oknext = okend = True
    npaths = 0
    for pt in symx.run_paths(g, P):
        npaths += 1
        nxt = lin.p_add(lin.p_atom("%s->cur" % sg), lin.p_const(1))
        atend = pt.atoms.get(("==",) + tuple(sorted((lin.p_str(nxt), "%s->n_hist" % sg))))
        b2i = [c_ for c_ in pt.calls if c_[0] == "fsg_seg_bp2itor"]
        if pt.stored("%s->cur" % sg) != nxt or atend is None:
            okend = False
        elif atend:
            okend = okend and not b2i and pt.ret is not None and lin.p_str(pt.ret) == "0"
        else:
            oknext = oknext and len(b2i) == 1 and b2i[0][1] == [sg, "%s->hist[%s]" % (sg, lin.p_str(nxt))] and pt.ret is not None and lin.p_str(pt.ret) == sg
    ctx.check(s6, oknext and npaths >= 2, key(g, "next"), g.where(g.root), "next segment is not hist[cur + 1] of the same iterator")
    ctx.check(s6, okend and npaths >= 2, key(g, "end"), g.where(g.root), "iterator does not stop (returning NULL) exactly when cur + 1 == n_hist")
