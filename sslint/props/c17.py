"""C17 — damaged acoustic-model files are rejected without memory errors.

Decided (structural necessary conditions, per loader function):
  ERRD.read     every checked-read primitive's result (s3file_get, _get_1d/2d/3d,
                _parse_header, _verify_chksum) is tested and the failing edge
                leaves the function (return / goto the error label)
  ERRD.null     the result of a loader that can return NULL is tested before
                it is dereferenced
  EXIT.loader   no process exit (E_FATAL, exit, abort) is reachable in the model
                loaders on a condition computed from file contents
  TAINT.lower   a signed count read from the file has a lower bound established
                (ordering test against a constant, or equality with a validated
                value, failing edge leaves) before it is used as an allocation
                size, loop bound, cursor advance, element count or index
  INDEX.dims    stores through an array allocated in a loader are indexed by
                loop variables whose bounds are the allocation's dimensions (or
                were tested equal to them)
  CURSOR        outside s3file.c the raw cursor of an s3file is moved only in
                the listed functions, and every advance is paired with a
                comparison against the end of the buffer before the cursor is
                dereferenced again
  UNWIND        no local released in a loader is released or read again on a
                path that follows (double free), and temporary buffers allocated
                in a loader are released on every exit
Not decided: that every file-derived index is in range wherever it is used
later by the decoder; upper bounds of allocation sizes (see EXIT.loader,
ckd_fail).
"""
import re

from .. import lin, paths
from ..prog import AnalysisIncomplete

LOADER_UNITS = ("s3file.c", "bin_mdef.c", "mdef.c", "ms_gauden.c", "ms_senone.c", "ms_mgau.c", "ptm_mgau.c",
                "s2_semi_mgau.c", "tmat.c", "lda.c", "acmod.c", "mmio.c", "feat.c", "cmn.c")
ROOTS = ("acmod_init", "acmod_create", "acmod_load_am", "acmod_reinit_feat", "bin_mdef_read", "bin_mdef_read_s3file",
         "tmat_init", "tmat_init_s3file", "ptm_mgau_init", "ptm_mgau_init_s3file", "s2_semi_mgau_init", "s2_semi_mgau_init_s3file",
         "ms_mgau_init", "ms_mgau_init_s3file", "gauden_init", "gauden_init_s3file", "senone_init", "senone_init_s3file",
         "feat_read_lda", "feat_read_lda_s3file", "s3file_map_file", "s3file_init", "read_sendump", "read_mixw",
         "feat_init", "feat_init_s3file", "s3file_get_1d", "s3file_get_2d", "s3file_get_3d")
READS = {"s3file_get": "count", "s3file_get_1d": "neg", "s3file_get_2d": "neg", "s3file_get_3d": "neg",
         "s3file_parse_header": "neg", "s3file_verify_chksum": "nonzero"}
ALLOCS = {"__ckd_calloc__": (0, 1), "__ckd_malloc__": (0,), "__ckd_calloc_2d__": (0, 1, 2), "__ckd_calloc_3d__": (0, 1, 2, 3),
          "__ckd_alloc_2d_ptr": (0, 1), "__ckd_alloc_3d_ptr": (0, 1, 2), "bitvec_alloc": (0,), "__ckd_realloc__": (1,)}
FREES = ("ckd_free", "ckd_free_2d", "ckd_free_3d", "ckd_free_4d")

FIXTURES = ["product_fx.c"]


def key(fn, what):
    return "%s:%s" % (fn.name, what)


def unit_of(fn):
    return fn.relfile().split("/")[-1]


def loader_functions(P):
    roots = [r for r in ROOTS if r in P.fn_index]
    if len(roots) < 12:
        raise AnalysisIncomplete("loader entry points vanished: only %s found" % roots)
    names = P.reachable_functions(roots)
    out = []
    for n in sorted(names):
        for f in P.fn_index.get(n, []):
            if f.relfile().startswith("src/") and unit_of(f) in LOADER_UNITS and "mllr" not in f.name:
                out.append(f)
    return out


# -------------------------------------------------------------------------------- leaving
def leaves(fn, stmt):
    """the statement always transfers control out of the enclosing region
    (return, goto, or a process exit) — AST shape: last statement of a
    compound, both arms of an if"""
    if stmt is None:
        return False
    k = fn.k(stmt)
    if k in ("Return", "Goto", "Continue", "Break"):
        return True
    if k == "Compound":
        ch = [c for c in fn.ch(stmt) if fn.k(c) != "Null"]
        return bool(ch) and leaves(fn, ch[-1])
    if k == "If":
        ch = fn.ch(stmt)
        return len(ch) >= 3 and fn.k(ch[2]) != "Absent" and leaves(fn, ch[1]) and leaves(fn, ch[2])
    if k == "Call" and fn.nodes[stmt].get("callee") in ("exit", "abort"):
        return True
    if k == "Do":
        # E_FATAL expands to do { err_msg(); exit(); } while (0)
        return any(fn.nodes[c].get("callee") in ("exit", "abort") for c in fn.calls(root=stmt))
    return False


def enclosing_if_cond(fn, node):
    """the If whose condition contains node, or None"""
    p = node
    while p is not None:
        q = fn.parent[p]
        if q is not None and fn.k(q) == "If" and fn.ch(q)[0] == p:
            return q
        if q is not None and fn.k(q) in ("Compound", "For", "While", "Do") and fn.k(p) not in ("Bin", "Un", "Paren", "ICast", "Cast", "Call"):
            return None
        p = q
    return None


def failing_arm(fn, ifn, call, mode):
    """which arm of `ifn` is taken when `call` failed: 1 (then) / 2 (else) /
    None (the comparison is not recognised)"""
    # find the comparison directly above the call
    p = fn.parent[call]
    node = call
    while p is not None and (fn.k(p) in ("Paren", "ICast", "Cast") or (fn.k(p) == "Assign" and fn.ch(p)[1] == node)):
        node = p
        p = fn.parent[p]
    if p is None or fn.k(p) != "Bin" or fn.nodes[p]["op"] not in ("!=", "==", "<", ">=", ">", "<="):
        return None
    op = fn.nodes[p]["op"]
    # polarity of the comparison: true means failure?
    if op == "!=":
        fail_true = True
    elif op == "==":
        other = [c for c in fn.ch(p) if c != node]
        fail_true = False
        if mode == "nonzero" and other and fn.constval(other[0]) == 0:
            fail_true = False
    elif op == "<":
        fail_true = True
    elif op == ">=":
        fail_true = False
    else:
        return None
    # walk up through ||, && and ! to the If condition
    cur = p
    pol = fail_true
    while True:
        q = fn.parent[cur]
        if q == ifn:
            break
        kq = fn.k(q)
        if kq in ("Paren", "ICast", "Cast"):
            pass
        elif kq == "Un" and fn.nodes[q]["op"] == "!":
            pol = not pol
        elif kq == "Bin" and fn.nodes[q]["op"] == "||":
            if not pol:
                return None      # success-test inside a disjunction: not an error idiom
        elif kq == "Bin" and fn.nodes[q]["op"] == "&&":
            if pol:
                return None
        else:
            return None
        cur = q
    return 1 if pol else 2


def errd_read(ctx, P, fns):
    r = ctx.rule("ERRD.read", "the result of every checked-read primitive (s3file_get, _get_1d/_2d/_3d, _parse_header, _verify_chksum) is tested and the failing edge leaves the function", floor=40)
    for f in fns:
        for c in f.calls():
            cal = f.nodes[c].get("callee")
            if cal not in READS:
                continue
            ctx.touch(f)
            n = sum(1 for c2 in f.calls(cal) if c2 <= c)
            k = key(f, "%s#%d" % (cal, n))
            ifn = enclosing_if_cond(f, c)
            tested = None
            if ifn is None:
                # result stored in a local that is tested next
                p = f.up(c)
                while p is not None and f.k(p) in ("Paren", "ICast", "Cast"):
                    p = f.parent[p]
                if p is not None and f.k(p) in ("Assign", "Var"):
                    d = paths.local_of(f, f.ch(p)[0]) if f.k(p) == "Assign" else f.nodes[p].get("decl")
                    q = f.parent[p]
                    # assignment inside an if condition: (rv = get(...)) != n
                    ifn = enclosing_if_cond(f, p)
                    if ifn is not None:
                        tested = p
                    elif d is not None:
                        # next test of that local
                        for i in f.find("If"):
                            cnd = f.ch(i)[0]
                            if any(f.nodes[x].get("decl") == d for x in f.walk(cnd) if f.k(x) == "DeclRef") and paths.may_reach(f, p, lambda e, cnd=cnd: e == cnd or e in set(f.walk(cnd))):
                                if not f.cfg.path_exists(paths.pos_of(f, p), "exit", is_barrier=lambda e, cnd=cnd: e in set(f.walk(cnd)) | {cnd}):
                                    ifn = i
                                    tested = [x for x in f.walk(cnd) if f.k(x) == "DeclRef" and f.nodes[x].get("decl") == d][0]
                                    tested = f.up(tested) if f.k(f.up(tested)) == "ICast" else tested
                                    break
            else:
                tested = c
            if ifn is None:
                ctx.bad(r, k, f.where(c), "the result of %s is not tested: a short or failed read goes unnoticed and the destination keeps whatever it held" % cal)
                continue
            arm = failing_arm(f, ifn, tested, READS[cal])
            if arm is None:
                ctx.bad(r, k, f.where(c), "the result of %s is used in a condition that is not a recognised failure test" % cal)
                continue
            ch = f.ch(ifn)
            branch = ch[arm] if len(ch) > arm and f.k(ch[arm]) != "Absent" else None
            if arm == 2 and branch is None:
                # `if (ok) {...}` with nothing else: the failing edge falls through
                ctx.bad(r, k, f.where(c), "the failing edge of the %s test falls through" % cal)
                continue
            if leaves(f, branch):
                ctx.ok(r, k, f.where(c), "failing edge leaves")
                continue
            # the failing arm falls through: harmless only if the unread destination is not used as a
            # size / bound / index / advance before the function leaves with an error or another
            # checked read fails (the cursor is at the end of the buffer: every later read fails too)
            dest = f.strip(f.args(c)[0]) if cal == "s3file_get" else None
            harmless = False
            if dest is not None and f.k(dest) == "Un" and f.nodes[dest]["op"] == "&":
                x = f.canon(f.ch(dest)[0], subst=False)
                sinks = set(_elem_of(f, u) for (u, _k) in sink_uses(f, x, None))
                later_reads = set(c2 for c2 in f.calls() if f.nodes[c2].get("callee") in READS and c2 != c)
                errs = _error_exits(f)
                last = branch
                harmless = not f.cfg.path_exists(paths.pos_of(f, _last_elem(f, last)), lambda e: e in sinks, is_barrier=lambda e: e in later_reads or e in errs)
            ctx.check(r, harmless, k, f.where(c), "when %s fails the function only logs and carries on, and the unread value is used before any later read can fail" % cal)


def errd_null(ctx, P, fns, floor=8, what="loader", skip=(), keep_check=True):
    r = ctx.rule("ERRD.null", "the result of a %s that can return NULL is tested before it is dereferenced, and before success is reported when it is kept in an object" % what, floor=floor)
    # callees that have a `return NULL` path
    nullable = set()
    for _round in range(4):
        for f in fns:
            if "*" not in f.d.get("ret", "") or f.name in nullable:
                continue
            for rt in f.find("Return"):
                if not f.ch(rt):
                    continue
                v = f.ch(rt)[0]
                if paths._is_zero(f, v):
                    # `if (p == NULL) return NULL;` on a parameter passes NULL through, it does not fail
                    prm = set(pp[0] for pp in f.params)
                    if paths.guarded(f, rt, lambda fn, cc, pol, prm=prm: (lambda a: a[1] is False and a[0] in prm)(paths.cond_atoms(fn, cc, pol, subst=False))):
                        continue
                    nullable.add(f.name)
                    continue
                d = paths.local_of(f, v)
                if d is not None:
                    # a returned local that may still hold NULL or a nullable callee's result
                    for dn in paths.defs_of_local(f, d):
                        if not isinstance(dn, int):
                            continue
                        val = f.ch(dn)[1] if f.k(dn) == "Assign" else (f.ch(dn)[0] if f.k(dn) == "Var" and f.ch(dn) else None)
                        if val is None:
                            continue
                        sv = f.strip(val)
                        if paths._is_zero(f, val) or (f.k(sv) == "Call" and f.nodes[sv].get("callee") in nullable):
                            nullable.add(f.name)
    nullable -= {"s3file_nextline", "s3file_nextword", "s3file_copy_nextword"}
    nullable -= set(skip)
    for f in fns:
        for c in f.calls():
            cal = f.nodes[c].get("callee")
            if cal not in nullable:
                continue
            p = f.up(c)
            while p is not None and f.k(p) in ("Paren", "ICast", "Cast"):
                p = f.parent[p]
            if p is None or f.k(p) not in ("Assign", "Var"):
                continue
            ctx.touch(f)
            if f.k(p) == "Var":
                lhs_paths = [f.nodes[p]["name"]]
                start = p
            else:
                # chained assignment s = msg->s = call()
                lhs_paths = [f.canon(f.ch(p)[0], subst=False)]
                start = p
                q = f.parent[p]
                while q is not None and f.k(q) in ("Assign", "Paren", "ICast", "Cast"):
                    if f.k(q) == "Assign":
                        lhs_paths.append(f.canon(f.ch(q)[0], subst=False))
                        start = q
                    q = f.parent[q]
            n = sum(1 for c2 in f.calls(cal) if c2 <= c)

            def nonnull(fn, cc, pol, lhs_paths=lhs_paths):
                j = fn.strip(cc)
                nd = fn.nodes[j]
                while nd["k"] == "Un" and nd["op"] == "!":
                    pol = not pol
                    j = fn.strip(nd["ch"][0])
                    nd = fn.nodes[j]
                if nd["k"] == "Bin" and nd["op"] in ("==", "!="):
                    a, b = nd["ch"]
                    if paths._is_zero(fn, a) or paths._is_zero(fn, b):
                        j = fn.strip(b if paths._is_zero(fn, a) else a)
                        pol = pol if nd["op"] == "!=" else not pol
                # (x = y = call()) tested as a whole: all assigned paths are tested
                names = []
                while fn.k(j) == "Assign":
                    names.append(fn.canon(fn.ch(j)[0], subst=False))
                    j = fn.strip(fn.ch(j)[1])
                if not names:
                    names = [fn.canon(j, subst=False)]
                return pol is True and any(n_ in lhs_paths for n_ in names)
            # dereferences of any alias after the call
            bad = None
            for i in f.walk():
                nd = f.nodes[i]
                if nd["k"] == "Member" and nd.get("arrow") and f.canon(f.ch(i)[0], subst=False) in lhs_paths:
                    if i in set(f.walk(start)):
                        continue
                    redefs = set(st["node"] for st in paths.stores(f) if st["path"] in lhs_paths and st["op"] == "=" and st["node"] not in set(f.ancestors(c)) and st["node"] != start)
                    tgt = _elem_of(f, i)
                    edges = set(paths.guard_edges(f, nonnull))
                    if f.cfg.path_exists(paths.pos_of(f, start), lambda e, tgt=tgt: e == tgt, is_barrier=lambda e: e in redefs, removed_edges=edges):
                        bad = i
                        break
            if bad is None:
                # handed to a function that dereferences that parameter without testing it
                for c2 in f.calls():
                    if c2 == c or c2 in set(f.walk(start)):
                        continue
                    for ai, a in enumerate(f.args(c2)):
                        if f.canon(a, subst=False) not in lhs_paths:
                            continue
                        for cal2 in P.callees(f, c2):
                            for g in P.fn_index.get(cal2, []):
                                if ai < len(g.params) and _derefs_param_unguarded(g, ai):
                                    redefs = set(st["node"] for st in paths.stores(f) if st["path"] in lhs_paths and st["op"] == "=" and st["node"] != start and st["node"] not in set(f.ancestors(c)))
                                    edges = set(paths.guard_edges(f, nonnull))
                                    if f.cfg.path_exists(paths.pos_of(f, start), lambda e, c2=c2: e == c2, is_barrier=lambda e: e in redefs, removed_edges=edges):
                                        bad = c2
                    if bad is not None:
                        break
            if bad is None and keep_check:
                # put into a container (hash table, list) without a test: the NULL is found again by code that assumes an object
                for c2 in f.calls():
                    if c2 == c or c2 in set(f.walk(start)):
                        continue
                    cal2 = f.nodes[c2].get("callee")
                    if cal2 not in ("hash_table_enter", "hash_table_replace", "glist_add_ptr", "hash_table_enter_bkey", "blkarray_list_append"):
                        continue
                    for ai, a in enumerate(f.args(c2)):
                        if ai > 0 and f.canon(a, subst=False) in lhs_paths and (cal2 != "hash_table_enter" or ai == 2):
                            redefs = set(st["node"] for st in paths.stores(f) if st["path"] in lhs_paths and st["op"] == "=" and st["node"] != start and st["node"] not in set(f.ancestors(c)))
                            edges = set(paths.guard_edges(f, nonnull))
                            if f.cfg.path_exists(paths.pos_of(f, start), lambda e, c2=c2: e == c2, is_barrier=lambda e: e in redefs, removed_edges=edges):
                                bad = c2
                if bad is not None:
                    ctx.bad(r, key(f, "%s#%d" % (cal, n)), f.where(c), "%s can return NULL; the result is put into a container by %s at line %d without a test" % (cal, f.nodes[bad].get("callee"), f.line(bad)))
                    continue
            if bad is None and any("->" in lp for lp in lhs_paths):
                # kept in the object: a success return must not be reachable without the test
                succ = set()
                for rt in f.find("Return"):
                    if f.ch(rt):
                        v = f.constval(f.ch(rt)[0])
                        if not ((v is not None and v < 0) or paths._is_zero(f, f.ch(rt)[0])) or (v == 0 and "*" not in f.d.get("ret", "")):
                            succ.add(rt)
                edges = set(paths.guard_edges(f, nonnull))
                if succ and f.cfg.path_exists(paths.pos_of(f, _elem_of(f, start)), lambda e: e in succ, removed_edges=edges):
                    ctx.bad(r, key(f, "%s#%d" % (cal, n)), f.where(c), "%s can return NULL (damaged file); the result is kept in `%s` and the function can still return success without having tested it" % (cal, lhs_paths[0]))
                    continue
            ctx.check(r, bad is None, key(f, "%s#%d" % (cal, n)), f.where(c), "%s can return NULL (damaged file) but `%s` is dereferenced at line %s without a test" % (cal, lhs_paths[0], f.line(bad) if bad is not None else "?"))


def _only_null_tested(f, read):
    """the read of the pointer is only compared with NULL (its value is not followed)"""
    p = f.parent[read]
    while p is not None and f.k(p) in ("Paren", "ICast", "Cast"):
        p = f.parent[p]
    if p is None:
        return False
    nd = f.nodes[p]
    if nd["k"] == "Un" and nd["op"] == "!":
        return True
    if nd["k"] == "Bin" and nd["op"] in ("==", "!=") and any(paths._is_zero(f, c) for c in nd["ch"]):
        return True
    if nd["k"] in ("If", "While", "For", "Cond") and f.strip(nd["ch"][0]) == f.strip(read):
        return True
    if nd["k"] == "Bin" and nd["op"] in ("&&", "||"):
        return True
    return False


# callees that store a pointer without taking over its release
BORROWERS = {("yyset_in", 0): "the scanner reads from the stream; yylex_destroy does not close it"}
_DEREF_CACHE = {}
_KEEP_CACHE = {}


def _ctor_keeps(g, ai):
    """g stores its parameter ai into a field of the object it returns (a constructor that takes
    ownership when it succeeds)"""
    if ai >= len(g.params):
        return False
    pn = g.params[ai][0]
    rets = set(g.canon(g.ch(r_)[0], subst=False) for r_ in g.find("Return") if g.ch(r_))
    for s_ in paths.stores(g):
        if s_["kind"] == "Member" and s_["op"] == "=" and s_["rhs"] is not None and g.canon(s_["rhs"], subst=False) == pn:
            base = s_["path"].split("->")[0]
            if base in rets or any(rv.endswith(base) or rv.endswith(base + ")") for rv in rets):
                return True
    return False


def _keeps_param(P, g, ai, depth=0):
    """the function may keep its ai-th parameter beyond the call: stores it into memory, returns it,
    releases it, or passes it on to a function that does (two levels; unknown callees keep)"""
    k = (g.name, g.unit, ai)
    if k in _KEEP_CACHE:
        return _KEEP_CACHE[k]
    _KEEP_CACHE[k] = True          # recursion guard: conservative
    if ai >= len(g.params):
        return True
    pname = g.params[ai][0]
    decl = g.params[ai][2]
    res = False
    for st in paths.stores(g):
        if st["rhs"] is not None and st["kind"] in ("Member", "Subscript", "Un") and any(g.k(x) == "DeclRef" and g.nodes[x].get("decl") == decl for x in g.walk(st["rhs"])):
            # element reads like *p or p[i] copy a character, not the pointer
            top = g.strip(st["rhs"])
            if g.k(top) in ("DeclRef", "Bin", "Cast", "Cond"):
                res = True
        if st["rhs"] is not None and st["kind"] == "DeclRef" and g.canon(g.strip(st["rhs"]), subst=False) == pname and st["op"] == "=":
            res = True        # aliased into another local: give up
    for rt in g.find("Return"):
        if g.ch(rt) and any(g.k(x) == "DeclRef" and g.nodes[x].get("decl") == decl for x in g.walk(g.ch(rt)[0])) and "*" in g.d.get("ret", ""):
            res = True
    for v in g.find("Var"):
        if g.ch(v) and "*" in g.nodes[v].get("t", "") and any(g.k(x) == "DeclRef" and g.nodes[x].get("decl") == decl for x in g.walk(g.ch(v)[0])):
            res = True
    if not res:
        for c in g.calls():
            cal = g.nodes[c].get("callee")
            for aj, a in enumerate(g.args(c)):
                if g.canon(g.strip(a), subst=False) != pname:
                    continue
                if cal in FREES:
                    res = True
                elif cal in ("strcmp", "strlen", "strncmp", "memcpy", "memcmp", "strchr", "strrchr", "atoi", "atof", "strtol", "err_msg", "err_msg_system", "__ckd_salloc__", "strcpy", "strcat", "snprintf", "sscanf", "strcasecmp", "strncasecmp", "hash_table_lookup", "hash_table_lookup_int32", "hash_table_lookup_bkey", "strstr", "isspace_c", "toupper", "tolower"):
                    continue
                else:
                    tg = P.fn_index.get(cal, []) if cal else []
                    if not tg or depth >= 2 or any(_keeps_param(P, h, aj, depth + 1) for h in tg):
                        res = True
    _KEEP_CACHE[k] = res
    return res


def _derefs_param_unguarded(g, ai):
    """the function dereferences its ai-th parameter on some path without a dominating non-NULL test"""
    k = (g.name, g.unit, ai)
    if k in _DEREF_CACHE:
        return _DEREF_CACHE[k]
    pname = g.params[ai][0]
    res = False
    for i in g.walk():
        nd = g.nodes[i]
        if nd["k"] == "Member" and nd.get("arrow") and g.canon(g.ch(i)[0], subst=False) == pname:
            def nn(fn, cc, pol, pname=pname):
                return paths.cond_atoms(fn, cc, pol, subst=False) == (pname, True)
            if not paths.guarded(g, _elem_of(g, i), nn):
                res = True
                break
    _DEREF_CACHE[k] = res
    return res


def _last_elem(f, stmt):
    """last CFG element inside a statement"""
    best = None
    for i in f.walk(stmt):
        if i in f.cfg.pos:
            p = f.cfg.pos[i]
            if best is None or (p[0] == best[1][0] and p[1] > best[1][1]) or p[0] != best[1][0]:
                best = (i, p)
    return best[0] if best else stmt


def _anc(f, i):
    return set(f.ancestors(i))


def _elem_of(f, i):
    """nearest CFG element at or above node i"""
    if i in f.cfg.pos:
        return i
    for a in f.ancestors(i):
        if a in f.cfg.pos:
            return a
    return i


# -------------------------------------------------------------------------------- exits
# exits that are not decided by file contents, with the reason
EXIT_EXEMPT = {
    ("bin_mdef_read_s3file", "Failed to read"): "the read asks for exactly the bytes that remain (end - ptr), which s3file_get always delivers; checked below",
    ("ciphone_add", "hash_table_enter"): "its only caller looks the name up in the same table first and exits there (parse_base_line: Duplicate base phone); checked below",
    ("chksum_accum", "Unsupported elemsize"): "element size is a compile-time constant at every call site (sizeof / literal), checked below",
    ("swap_buf", "Unsupported elemsize"): "element size is a compile-time constant at every call site (sizeof / literal), checked below",
    ("mdef_init", "No mdef-file"): "NULL file name: caller error, not file contents",
    ("parse_subvecs", "'%s': 0-length subvector"): "dead: every sub-vector list receives at least one dimension (the range n..n2 is tested non-empty just before it is added)",
    ("gauden_mllr_transform", "Feature length"): "MLLR adaptation API, not model loading",
}


def exit_rule(ctx, P, fns):
    r = ctx.rule("EXIT.loader", "no process exit (E_FATAL, exit, abort) is reachable in the model loaders on a condition computed from file contents", floor=10)
    seen = 0
    used = {}
    for f in fns:
        for c in f.calls():
            cal = f.nodes[c].get("callee")
            if cal not in ("exit", "abort"):
                continue
            ctx.touch(f)
            # message of the E_FATAL this exit belongs to
            msg = ""
            blk = f.enclosing(c, ("Do", "Compound"))
            if blk is not None:
                for c2 in f.calls(root=blk):
                    if f.nodes[c2].get("callee") in ("err_msg", "err_msg_system"):
                        for a in f.args(c2):
                            s = f.strip(a)
                            if f.k(s) == "Str" and not str(f.nodes[s].get("v", "")).endswith(".c"):
                                msg = str(f.nodes[s]["v"])
                                break
            short = re.sub(r"[^A-Za-z#%() -]", "", msg)[:34].strip()
            seen += 1
            ex = None
            for (fn_, pref), why in EXIT_EXEMPT.items():
                if fn_ == f.name and msg.startswith(pref):
                    ex = why
            k = key(f, short or "exit@%d" % sum(1 for c2 in f.calls(cal) if c2 <= c))
            used[k] = used.get(k, 0) + 1
            if used[k] > 1:
                k = "%s#%d" % (k, used[k])
            if ex:
                ctx.ok(r, k, f.where(c), "exempt: " + ex)
                continue
            if f.name == "ckd_fail":
                ctx.ok(r, key(f, cal), f.where(c), "exempt: allocation failure policy of ckd_alloc (memory exhaustion is outside the property; lower bounds of file counts are TAINT.lower)")
                continue
            ctx.bad(r, k, f.where(c), "process exit on file contents: \"%s\"" % msg.strip()[:80])
    # the exemption for element sizes: every call of s3file_get passes a constant size
    for f in fns:
        for c in f.calls("s3file_get"):
            a = f.args(c)[1]
            okc = f.constval(a) is not None or f.k(f.strip(a)) == "Sizeof" or (f.name in ("s3file_get_1d",) and paths.local_of(f, a) is not None)
            if not okc:
                ctx.bad(r, key(f, "elemsize"), f.where(c), "s3file_get element size `%s` is not a constant: the unsupported-size exits become data-dependent" % f.src(a))
    # conditions the two structural exemptions rest on
    bm = P.fn("bin_mdef_read_s3file", "bin_mdef.c")
    for c in bm.calls("s3file_get"):
        ifn = enclosing_if_cond(bm, c)
        if ifn is not None and any(bm.nodes[c2].get("callee") == "exit" for c2 in bm.calls(root=ifn)):
            cnt = bm.canon(bm.args(c)[2])
            ctx.check(r, cnt == "(s->end - s->ptr)" and bm.constval(bm.args(c)[1]) == 1, key(bm, "exempt-cond:whole-rest"), bm.where(c), "the exempted exit in bin_mdef_read_s3file no longer guards a read of exactly the remaining bytes (count `%s`)" % cnt)
    pb = P.fn("parse_base_line", "mdef.c")
    adds = pb.calls("ciphone_add")
    looks = pb.calls("mdef_ciphone_id")
    callers = [g.name for (g, _c) in P.callers.get("ciphone_add", [])]
    okx = bool(adds) and bool(looks) and set(callers) == {"parse_base_line"} and all(paths.always_before(pb, a, lambda e: e in looks) for a in adds) \
        and pb.canon(pb.args(adds[0])[1], subst=False) == pb.canon(pb.args(looks[0])[1], subst=False)
    ctx.check(r, okx, key(pb, "exempt-cond:lookup-first"), pb.where(adds[0]) if adds else pb.where(pb.root), "ciphone_add is no longer preceded by a lookup of the same name in its only caller")
    if seen < 10:
        raise AnalysisIncomplete("exit census found only %d exits" % seen)


# -------------------------------------------------------------------------------- taint
def tainted_scalars(f):
    """(path, decl|None, source call node, signed?) for scalars written by a
    one-element s3file_get or parsed from the cursor with atoi"""
    out = []
    for c in f.calls("s3file_get"):
        a = f.args(c)
        if f.constval(a[2]) != 1:
            continue
        d = f.strip(a[0])
        if f.k(d) == "Un" and f.nodes[d]["op"] == "&":
            tgt = f.strip(f.ch(d)[0])
            t = f.nodes[tgt].get("ct", f.nodes[tgt].get("t", ""))
            out.append((f.canon(tgt, subst=False), paths.local_of(f, tgt), c, not t.startswith("unsigned")))
    for c in f.calls("atoi"):
        if "ptr" in f.canon(f.args(c)[0], subst=False):
            p = f.up(c)
            while p is not None and f.k(p) in ("Paren", "ICast", "Cast"):
                p = f.parent[p]
            if p is not None and f.k(p) == "Assign":
                tgt = f.strip(f.ch(p)[0])
                out.append((f.canon(tgt, subst=False), paths.local_of(f, tgt), p, True))
    return out


def lower_bound_pred(x, validated, tainted=()):
    def pred(fn, c, pol):
        rr = paths.rel(fn, c, pol, subst=False)
        if rr is None:
            return False
        a, op, b = rr
        if b == x and op in ("<", "<="):
            try:
                v = int(a, 0)
            except ValueError:
                return a in validated
            return v >= 0 or (v == -1 and op == "<")
        if op == "==" and x in (a, b):
            o = b if a == x else a
            try:
                return int(o, 0) >= 0
            except ValueError:
                pass
            # equal to an expression made only of validated / trusted names
            names = set(re.findall(r"[A-Za-z_][\w>.\-\[\]]*", o))
            names = {n_ for n_ in names if not re.match(r"^\d", n_)}
            # derived locals (sums of validated lengths) are not file counts themselves
            return bool(names) and all(n_ in validated or _trusted(n_) or (n_ not in tainted and re.match(r'^[A-Za-z_]\w*$', n_)) for n_ in names) and any(n_ in validated or _trusted(n_) for n_ in names)
        return False
    return pred


def _trusted(name):
    # values that come from an already constructed object, not from this file
    return name.startswith(("g->", "acmod->", "mdef_", "feat->", "fcb->", "s->g->", "msg->g->")) or name in ("mdef_n_sen",)


WIDE = ("long", "unsigned long", "size_t", "long long", "unsigned long long", "ptrdiff_t", "int64", "uint64")


def product_rule(ctx, P, fns):
    """a bound test over a product of counts is only a bound test if the product cannot wrap"""
    r = ctx.rule("TAINT.wide-product", "in the loaders an ordering test over a product of two run-time values, at least one of them a field of the object being loaded or a value read from the file, is computed in a 64-bit type: a 32-bit product of counts taken from a damaged file wraps and passes the test it was meant to fail (none on this tree: the fixture is the positive control)", floor=0)
    for f in fns:
        tainted = set(t[0] for t in tainted_scalars(f))
        n = 0
        for i in f.walk():
            nd = f.nodes[i]
            if nd["k"] != "Bin" or nd["op"] not in ("<", ">", "<=", ">="):
                continue
            for side in nd["ch"]:
                for x in f.walk(side):
                    xd = f.nodes[x]
                    if xd["k"] != "Bin" or xd["op"] != "*":
                        continue
                    a, b = xd["ch"]
                    if f.constval(a) is not None or f.constval(b) is not None or f.k(f.strip(a)) == "Sizeof" or f.k(f.strip(b)) == "Sizeof":
                        continue
                    fromfile = any(f.k(y) == "Member" or f.canon(y, subst=False) in tainted for o in (a, b) for y in f.walk(o))
                    if not fromfile:
                        continue
                    n += 1
                    ctx.touch(f)
                    t = (xd.get("ct") or xd.get("t", "")).replace("const ", "").strip()
                    ctx.check(r, t in WIDE, key(f, "product@%d" % n), f.where(i), "the test `%s` multiplies `%s` in the type `%s`: for counts from a damaged file the product wraps and the test passes, so what it guards (offsets into the mapped file, allocation sizes) is reached with the oversized count" % (f.canon(i, subst=False)[:90], f.canon(x, subst=False)[:60], t))


def taint_rule(ctx, P, fns):
    r = ctx.rule("TAINT.lower", "a signed count read from the file has a lower bound (ordering test against a constant or equality with a validated value, failing edge leaves) before it is used as an allocation size, loop bound, cursor advance, element count or index", floor=18)
    for f in fns:
        ts = tainted_scalars(f)
        if not ts:
            continue
        ctx.touch(f)
        # fixpoint of validated names is per use; start with names validated somewhere by constants
        paths_seen = {}
        for (x, decl, src, signed) in ts:
            paths_seen.setdefault(x, []).append((decl, src, signed))
        for x, lst in sorted(paths_seen.items()):
            signed = any(s for (_d, _s, s) in lst)
            srcs = [s for (_d, s, _s) in lst]
            uses = sink_uses(f, x, lst[0][0])
            if not uses:
                continue
            if not signed:
                ctx.ok(r, key(f, x), f.where(srcs[0]), "unsigned: no lower bound needed")
                continue
            validated = set()
            for _round in range(3):
                for y in paths_seen:
                    if y in validated:
                        continue
                    py = lower_bound_pred(y, validated, set(paths_seen))
                    if paths.guard_edges(f, py):
                        validated.add(y)
            pred = lower_bound_pred(x, validated - {x}, set(paths_seen))
            bad = None
            kills = set(st["node"] for st in paths.stores(f) if st["path"] == x and st["op"] == "=" and st["node"] not in srcs)
            for (u, kind) in uses:
                e = _elem_of(f, u)
                # on every path from a source to the use a bounding edge is taken
                for s in srcs:
                    se = _elem_of(f, s)
                    if se == e:
                        continue
                    if f.cfg.path_exists(paths.pos_of(f, se), lambda el, e=e: el == e, is_barrier=lambda el: el in kills, removed_edges=set(paths.guard_edges(f, pred))):
                        bad = (u, kind)
                        break
                if bad:
                    break
            ctx.check(r, bad is None, key(f, x), f.where(srcs[0]), "`%s` is read from the file as a signed count and used as %s at line %s without a lower bound: a negative value %s" % (
                x, bad[1] if bad else "", f.line(bad[0]) if bad else "", "moves the cursor backwards / wraps to a huge size / skips the loops that fill what is used later"))


def sink_uses(f, x, decl):
    """(node, kind) where the value x is used as size / bound / advance / index"""
    out = []

    def reads(root):
        for i in f.walk(root):
            nd = f.nodes[i]
            if nd["k"] == "ICast" and nd.get("ck") == "LValueToRValue" and f.canon(nd["ch"][0], subst=False) == x:
                return True
        return False
    for c in f.calls():
        cal = f.nodes[c].get("callee")
        if cal in ALLOCS:
            for ai in ALLOCS[cal]:
                if ai < len(f.args(c)) and reads(f.args(c)[ai]):
                    out.append((c, "an allocation size"))
        if cal == "s3file_get" and reads(f.args(c)[2]):
            out.append((c, "an element count"))
        if cal in ("memcpy", "memset") and reads(f.args(c)[2]):
            out.append((c, "a byte count"))
    for lp in f.find("For") + f.find("While"):
        cnd = f.ch(lp)[1] if f.k(lp) == "For" else f.ch(lp)[0]
        if cnd is not None and f.k(cnd) != "Absent" and reads(cnd):
            out.append((cnd, "a loop bound"))
    for i in f.walk():
        nd = f.nodes[i]
        if nd["k"] == "CompoundAssign" and nd["op"] in ("+=", "-=") and "*" in (f.nodes[f.strip(nd["ch"][0])].get("t", "")) and reads(nd["ch"][1]):
            out.append((i, "a cursor advance"))
        if nd["k"] == "Bin" and nd["op"] in ("+", "-") and "*" in nd.get("t", "") and any(reads(c) for c in nd["ch"]):
            out.append((i, "a pointer offset"))
        if nd["k"] == "Subscript" and reads(nd["ch"][1]):
            out.append((i, "an index"))
    return out


# -------------------------------------------------------------------------------- index dims
def index_rule(ctx, P, fns):
    r = ctx.rule("INDEX.dims", "stores through an array allocated in a loader are indexed by loop variables whose bounds are the allocation's dimensions (same expression, or tested equal to it with the failing edge leaving)", floor=6)
    for f in fns:
        allocs = {}
        for c in f.calls():
            cal = f.nodes[c].get("callee")
            if cal in ("__ckd_calloc_2d__", "__ckd_calloc_3d__"):
                p = f.up(c)
                while p is not None and f.k(p) in ("Paren", "ICast", "Cast"):
                    p = f.parent[p]
                if p is not None and f.k(p) == "Assign":
                    nd_ = 2 if "2d" in cal else 3
                    allocs.setdefault(f.canon(f.ch(p)[0], subst=False), []).append((c, [f.canon(a, subst=False) for a in f.args(c)[:nd_]]))
        if not allocs:
            continue
        # loop bounds by induction variable
        bounds = {}
        for lp in f.find("For"):
            cnd = f.ch(lp)[1]
            if f.k(cnd) == "Absent":
                continue
            rr = paths.rel(f, cnd, True, subst=False)
            if rr and rr[1] == "<":
                v = re.sub(r"^\((?:unsigned int|uint32|size_t)\)", "", rr[0])
                bounds.setdefault(v, set()).add((rr[2], lp))
        for s in paths.stores(f):
            lhs = s["lhs"]
            idx = []
            j = lhs
            while f.k(j) == "Subscript":
                idx.insert(0, f.ch(j)[1])
                j = f.strip(f.ch(j)[0])
            base = f.canon(j, subst=False)
            base = re.sub(r"^\(\*(.*)\)$", r"*\1", base)
            als = allocs.get(base) or allocs.get(base.replace("(*", "*").rstrip(")"))
            if not als or len(idx) < len(als[0][1]):
                continue
            ctx.touch(f)
            # several allocations of one array (layout chosen by a mode test): the store must fit one of them entirely
            verdicts = []
            for (c, dims) in als:
                verdicts.append(_fits(f, s, idx, dims, bounds))
            best = max(verdicts, key=lambda v: sum(1 for x in v if x[0] is not False))
            for pos, (okp, dim, encl) in enumerate(best):
                if okp is None:
                    continue
                ctx.check(r, okp, key(f, "%s[%d]" % (base, pos)), f.where(s["node"]), "`%s` is allocated with dimension %d = `%s` but written with an index that runs to `%s`, and the two are never compared: a file with a larger count writes past the allocation" % (base, pos, dim, ", ".join(sorted(encl))))


def _fits(f, s, idx, dims, bounds):
    out = []
    if True:
        if True:
            for pos, (ix, dim) in enumerate(zip(idx, dims)):
                v = f.canon(ix, subst=False)
                encl = [b for (b, lp) in bounds.get(v, ()) if s["node"] in set(f.walk(lp))]
                if not encl:
                    out.append((None, dim, encl))       # not a loop-variable index (constant / computed): out of this rule's scope
                    continue
                ok = False
                for b in encl:
                    if b == dim:
                        ok = True
                    else:
                        # tested equal (or <=) on every path to the store
                        def eq(fn, cc, pol, b=b, dim=dim):
                            rr = paths.rel(fn, cc, pol, subst=False)
                            if rr is None:
                                return False
                            a_, op, b_ = rr
                            strip = lambda t: re.sub(r"^\((?:unsigned int|uint32|size_t|int)\)", "", t)
                            a_, b_ = strip(a_), strip(b_)
                            return (op == "==" and {a_, b_} == {b, dim}) or (op in ("<=",) and a_ == b and b_ == dim)
                        if paths.guarded(f, s["node"], eq):
                            ok = True
                        else:
                            # the bound is a local that is either set to the dimension itself or
                            # read from the file and then tested equal to it
                            assigns = [st for st in paths.stores(f) if st["path"] == b and st["op"] == "="]
                            reads = [c for c in f.calls("s3file_get") if f.canon(f.args(c)[0], subst=False) in ("&%s" % b, "(&%s)" % b)]
                            if (assigns or reads) and all(st["rhs"] is not None and f.canon(st["rhs"], subst=False) == dim for st in assigns) \
                                    and all(paths.guarded_from(f, c, s["node"], eq) for c in reads):
                                ok = True
                out.append((ok, dim, encl))
    return out


# fields that are views laid over the mapped file, per loader (assigned from cursor arithmetic there)
FILE_VIEWS = {"bin_mdef_read_s3file": ("m->phone", "m->sseq", "m->cd_tree", "m->sseq_len")}


def index_value_rule(ctx, P, fns):
    r = ctx.rule("INDEX.value", "an array allocated in a loader and indexed there by a value that is not a bounded loop counter (a value taken from the file) is only accessed under a dominating upper-bound test of that index; the array view built over a file-sized buffer (ckd_alloc_2d_ptr/_3d_ptr) is dominated by a test that the element count equals the product of the dimensions, and the count is not compared inside the expression that reads it", floor=6)
    for f in fns:
        arrays = {}
        for c in f.calls():
            cal = f.nodes[c].get("callee")
            if cal in ("__ckd_calloc__", "__ckd_malloc__"):
                p_ = f.up(c)
                while p_ is not None and f.k(p_) in ("Paren", "ICast", "Cast"):
                    p_ = f.parent[p_]
                if p_ is not None and f.k(p_) == "Assign":
                    arrays[f.canon(f.ch(p_)[0], subst=False)] = c
        loopvars = set()
        for lp in f.find("For"):
            cnd = f.ch(lp)[1]
            if f.k(cnd) != "Absent":
                rr = paths.rel(f, cnd, True, subst=False)
                if rr and rr[1] in ("<", "<="):
                    loopvars.add(re.sub(r"^\((?:unsigned int|uint32|size_t)\)", "", rr[0]))
        for i in f.find("Subscript"):
            base = f.canon(f.ch(i)[0], subst=False)
            if base not in arrays:
                continue
            ix = f.strip(f.ch(i)[1])
            if f.k(ix) != "DeclRef" or f.nodes[ix].get("ref") != "local":
                continue
            v = f.canon(ix, subst=False)
            if v in loopvars:
                continue
            # file-derived: some definition of the index reads one of the views laid over the mapped file
            views = FILE_VIEWS.get(f.name)
            if not views:
                continue
            d = f.nodes[ix].get("decl")
            vals = []
            for dn in paths.defs_of_local(f, d):
                if isinstance(dn, int):
                    val = f.ch(dn)[1] if f.k(dn) == "Assign" else (f.ch(dn)[0] if f.k(dn) == "Var" and f.ch(dn) else None)
                    if val is not None:
                        vals.append(f.canon(val, subst=False, inline_helpers=True))
            if not any(vw in val for val in vals for vw in views):
                continue
            ctx.touch(f)

            def ub(fn, cc, pol, v=v):
                rr = paths.rel(fn, cc, pol, subst=False)
                return rr is not None and rr[0] == v and rr[1] in ("<", "<=")
            ctx.check(r, paths.guarded(f, _elem_of(f, i), ub), key(f, "%s[%s]@%d" % (base, v, sum(1 for j in f.find("Subscript") if j <= i and f.canon(f.ch(j)[0], subst=False) == base))), f.where(i), "`%s[%s]`: the index is a value taken from the file and is not tested against the size of the array allocated at line %s" % (base, v, f.line(arrays[base])))
    # views over a raw buffer
    for f in fns:
        for c in f.calls():
            cal = f.nodes[c].get("callee")
            if cal not in ("__ckd_alloc_2d_ptr", "__ckd_alloc_3d_ptr"):
                continue
            ctx.touch(f)
            nd_ = 2 if "2d" in cal else 3
            dims = [f.canon(a, subst=False) for a in f.args(c)[:nd_]]

            def prod(fn, cc, pol, dims=dims):
                rr = paths.rel(fn, cc, pol, subst=False)
                if rr is None or rr[1] != "==":
                    return False
                for side in (rr[0], rr[2]):
                    facs = sorted(x.strip("() ") for x in side.split("*"))
                    if facs == sorted(dims):
                        return True
                return False
            ctx.check(r, paths.guarded(f, c, prod), key(f, cal.strip("_")), f.where(c), "rows of %s are laid over a buffer whose element count was not tested (at run time) to equal the product of the dimensions read from the file" % " x ".join(dims))
        for c in f.calls():
            if f.nodes[c].get("callee") in ("s3file_get_1d", "s3file_get_2d", "s3file_get_3d") and unit_of(f) == "s3file.c":
                # the count written through &n must not be read in the comparison that contains the call
                top = c
                while f.parent[top] is not None and f.k(f.parent[top]) in ("Bin", "Paren", "ICast", "Cast", "Un"):
                    top = f.parent[top]
                outs = [f.canon(f.ch(f.strip(a))[0], subst=False) for a in f.args(c) if f.k(f.strip(a)) == "Un" and f.nodes[f.strip(a)]["op"] == "&"]
                inside = set(f.walk(c))
                reads = [x for x in f.walk(top) if x not in inside and f.k(x) == "DeclRef" and f.canon(x, subst=False) in outs]
                ctx.check(r, not reads, key(f, "%s-result" % f.nodes[c]["callee"]), f.where(c), "the result of %s is compared with `%s`, which the same call writes and leaves unset when it fails" % (f.nodes[c]["callee"], outs and outs[0]))


# -------------------------------------------------------------------------------- cursor
CURSOR_FUNCS = {
    "bin_mdef_read_s3file": "maps the binary model definition in place",
    "read_sendump": "maps the quantised mixture weights in place",
    "dict_init_s3file": "rewinds the cursor between the counting and the reading pass",
    "decoder_init_grammar_s3file": "hands the rest of the buffer to the JSGF / FSG parsers",
    "acmod_read_senfh_header": "n/a",
}


def cursor_rule(ctx, P, fns):
    r = ctx.rule("CURSOR", "outside s3file.c the raw cursor of an s3file is written only in the listed functions; every advance by a file-derived amount is paired with a comparison of the cursor against the end of the buffer (before, or after and before any dereference) whose failing edge leaves", floor=6)
    for f in P.repo_functions():
        if unit_of(f) == "s3file.c":
            continue
        adv = [s for s in paths.stores(f) if s["rec"] == "s3file_s" and s["field"] == "ptr"]
        if not adv:
            continue
        ctx.touch(f)
        ctx.check(r, f.name in CURSOR_FUNCS, key(f, "writes-cursor"), f.where(adv[0]["node"]), "%s moves the raw cursor of an s3file but is not one of the audited functions %s" % (f.name, sorted(CURSOR_FUNCS)))
        for n, s in enumerate(adv):
            if s["op"] not in ("+=", "++"):
                continue
            cur = s["path"]
            amount = f.canon(s["rhs"], subst=False) if s["rhs"] is not None else "1"
            endp = cur[:-3] + "end"

            def before(fn, c, pol, cur=cur, amount=amount, endp=endp):
                rr = paths.rel(fn, c, pol, subst=False)
                if rr is None or rr[1] not in ("<=", "<"):
                    return False
                if rr[2] == endp and rr[0] in ("(%s + %s)" % (cur, amount), "(%s + %s)" % (amount, cur)):
                    return True
                # amount <= end - cursor
                if rr[0] == amount and rr[2] == "(%s - %s)" % (endp, cur):
                    return True
                # total of a loop of advances tested at once: (count * ... * amount) <= end - cursor, computed in a
                # 64-bit type (a product of 32-bit counts from the file can wrap and pass the test)
                if rr[2] == "(%s - %s)" % (endp, cur):
                    j = fn.strip(c)
                    for side in fn.ch(j):
                        sd = fn.strip(side, casts=False)
                        if fn.k(fn.strip(side)) == "Bin" and fn.nodes[fn.strip(side)]["op"] == "*" and amount in re.findall(r"[\w>.\-]+", fn.canon(side, subst=False)):
                            t = fn.nodes[fn.strip(side)].get("ct", fn.nodes[fn.strip(side)].get("t", ""))
                            return t.replace("const ", "").strip() in ("long", "unsigned long", "size_t", "long long", "unsigned long long", "ptrdiff_t", "int64", "uint64")
                return False

            def after(fn, c, pol, cur=cur, endp=endp):
                rr = paths.rel(fn, c, pol, subst=False)
                return rr is not None and rr[1] in ("<=", "<") and rr[2] == endp and rr[0] == cur
            okb = paths.guarded(f, s["node"], before)
            # after: every path from the advance to a dereference of the cursor or the exit with success passes the test with its failing edge leaving
            conds = set()
            for (s0, d0, c, pol) in f.cfg.cond_edges():
                if after(f, c, pol) or after(f, c, not pol):
                    conds.add(c)
                    conds.update(f.walk(c))
            derefs = set()
            for i in f.walk():
                nd = f.nodes[i]
                if nd["k"] in ("Subscript",) and f.canon(nd["ch"][0], subst=False) == cur:
                    derefs.add(_elem_of(f, i))
                if nd["k"] == "Un" and nd["op"] == "*" and f.canon(nd["ch"][0], subst=False) == cur:
                    derefs.add(_elem_of(f, i))
                if nd["k"] == "Call" and nd.get("callee") in ("strncmp", "strcmp", "atoi", "strlen", "memcpy", "s3file_get") and any(cur in f.canon(a, subst=False) for a in f.args(i)[:2]) and nd.get("callee") != "s3file_get":
                    derefs.add(i)
            oka = not f.cfg.path_exists(paths.pos_of(f, s["node"]), lambda e: e in derefs, is_barrier=lambda e: e in conds) and bool(conds) and paths.must_pass(f, s["node"], lambda e: e in conds or e in _error_exits(f))
            ctx.check(r, okb or oka, key(f, "advance#%d:%s" % (n, amount[:24])), f.where(s["node"]), "the cursor is advanced by `%s` without a comparison against `%s` before it is used again" % (amount, endp))


def _is_end(f, i, depth=0):
    """the expression denotes the end of the buffer holding the file's data: the `end` member of the
    mapped file, or a local every definition of which is such an end or `base + size` of a buffer
    allocated with that size"""
    j = f.strip(i)
    nd = f.nodes[j]
    if nd["k"] == "Member":
        return nd.get("field") == "end" and "s3file" in (nd.get("rec") or "")
    if nd["k"] != "DeclRef" or depth > 2:
        return False
    name = f.canon(j, subst=False)
    defs = [s_["rhs"] for s_ in paths.stores(f) if s_["path"] == name and s_["op"] == "="]
    defs += [f.ch(v)[0] for v in f.find("Var") if f.nodes[v].get("name") == name and f.ch(v)]
    if not defs:
        return False
    for d in defs:
        if d is None:
            return False
        if _is_end(f, d, depth + 1):
            continue
        dj = f.strip(d)
        dn = f.nodes[dj]
        ok = False
        if dn["k"] == "Bin" and dn["op"] == "+" and "*" in dn.get("t", ""):
            a, b = dn["ch"]
            for (base, size) in ((a, b), (b, a)):
                bc = f.canon(base, subst=False)
                sc = f.canon(size, subst=False)
                for s_ in paths.stores(f):
                    if s_["path"] == bc and s_["rhs"] is not None:
                        r_ = f.strip(s_["rhs"])
                        if f.k(r_) == "Call" and f.nodes[r_].get("callee") in ALLOCS and any(f.canon(x, subst=False) == sc for x in f.args(r_)):
                            ok = True
        if not ok:
            return False
    return True


def _region_tests(f):
    """truncation tests: relational branch conditions with the data end on one side and a pointer sum on
    the other; yields (cond, sum node, operand canons, pointer type)"""
    out = []
    for (s0, d0, c, pol) in f.cfg.cond_edges():
        if not pol:
            continue
        j = f.strip(c)
        nd = f.nodes[j]
        if nd["k"] != "Bin" or nd["op"] not in ("<", ">", "<=", ">="):
            continue
        a, b = nd["ch"]
        for (lhs, rhs) in ((a, b), (b, a)):
            if not _is_end(f, rhs):
                continue
            for i in f.walk(lhs):
                n2 = f.nodes[i]
                if n2["k"] == "Bin" and n2["op"] == "+" and "*" in n2.get("t", ""):
                    out.append((c, i, n2))
    return out


def _pointee_size(P, t):
    t = t.replace("const ", "").strip()
    if not t.endswith("*"):
        return None
    b = t[:-1].strip()
    for k_, v_ in (("unsigned char", 1), ("signed char", 1), ("char", 1), ("unsigned short", 2), ("short", 2), ("unsigned int", 4), ("int", 4), ("float", 4), ("double", 8), ("unsigned long", 8), ("long", 8)):
        if b == k_:
            return v_
    if b.startswith("struct "):
        rec = P.records.get(b[len("struct "):])
        if rec and rec.get("size"):
            return rec["size"]
    if b.endswith("*"):
        return 8
    return None


def _byte_region_tests(f):
    """tests of the form  N <= END - (char *)X  (any spelling of the comparison): yields
    (relational node, N node, X node (the region pointer in its own type), polarity on which the test holds)"""
    out = []
    seen = set()

    def deep(n_):
        k_ = 0
        n_ = f.strip(n_)
        while f.k(n_) == "DeclRef" and f.nodes[n_].get("ref") in ("local", "param") and k_ < 6:
            # only through byte views: the first pointer with an element type of its own is the region
            tn_ = f.nodes[n_].get("ct", f.nodes[n_].get("t", "")).replace("const ", "").strip()
            if tn_ not in ("char *", "void *", "unsigned char *"):
                break
            v_ = f.rd.unique_def_value(n_)
            if v_ is None:
                break
            n_ = f.strip(v_)
            k_ += 1
        return n_
    for (s0, d0, c, pol) in f.cfg.cond_edges():
        j = f.strip(c)
        if j in seen:
            continue
        nd = f.nodes[j]
        if nd["k"] != "Bin" or nd["op"] not in ("<", ">", "<=", ">="):
            continue
        a, b = nd["ch"]
        for (nside, dside, op) in ((a, b, nd["op"]), (b, a, {"<": ">", ">": "<", "<=": ">=", ">=": "<="}[nd["op"]])):
            dj = f.strip(dside)
            dn = f.nodes[dj]
            if dn["k"] != "Bin" or dn["op"] != "-":
                continue
            if not _is_end(f, dn["ch"][0]):
                continue
            x = deep(dn["ch"][1])
            if "*" not in f.nodes[x].get("ct", f.nodes[x].get("t", "")):
                continue
            seen.add(j)
            # nside OP (END - X): holds when OP is <= / <   (true polarity), fails otherwise
            out.append((c, nside, x, op in ("<=", "<")))
    return out


def region_rule(ctx, P, fns):
    r = ctx.rule("REGION.end", "a truncation test `region + count > end` computes the end of the region in the element type in which the region is laid out: the same base + count elsewhere in the function (start of the next region, loop limit) has the same pointer type", floor=4)
    r2 = ctx.rule("REGION.checked", "a region pointer that is tested against the end of the file's data is tested on every path before it is dereferenced: no configuration (byte order, allocation mode) reaches an element access without having passed the test", floor=4)
    for f in P.repo_functions():
        if f.name not in CURSOR_FUNCS:
            continue
        tests = []
        in_tests = set()
        conds = {}
        for (c, i, nd) in _region_tests(f):
            ops = frozenset(f.canon(x, subst=False) for x in nd["ch"])
            tests.append((i, ops, nd["t"].replace("const ", "").strip()))
            in_tests.update(f.walk(i))
            conds.setdefault(c, []).append((i, nd))
        # the same test counted in bytes: `nbytes <= end - (char *)region` - the byte count is a multiple of
        # the size of what the region holds, and every element access lies behind the test
        for (c, nside, xnode, pol_pass) in _byte_region_tests(f):
            ctx.touch(f)
            pc = f.canon(xnode, subst=False)
            esz = _pointee_size(P, f.nodes[xnode].get("ct", f.nodes[xnode].get("t", "")))
            pl = lin.poly(f, nside)
            okb = esz is not None and bool(pl) and all(cf % esz == 0 for cf in pl.values())
            ctx.check(r, okb, key(f, "bytes-of:%s" % pc[:40]), f.where(c), "the truncation test requires `%s` bytes for the region `%s`, whose elements are %s bytes each: the count is taken in the wrong unit, so a file cut inside the region passes the test" % (f.canon(nside), pc, esz))
            defs = [s_ for s_ in paths.stores(f) if s_["path"] == pc and s_["op"] == "=" and paths.always_before(f, c, lambda e, n_=s_["node"]: e == n_)]
            if not defs:
                continue
            start = defs[-1]["node"]
            cj = f.strip(c)

            def passed_b(fn, cc, pol, cj=cj, pol_pass=pol_pass):
                return fn.strip(cc) == cj and pol == pol_pass
            uses = []
            for u in f.walk():
                un = f.nodes[u]
                if un["k"] == "Subscript" or (un["k"] == "Un" and un["op"] == "*") or (un["k"] == "Member" and un.get("arrow")):
                    b0 = f.strip(f.ch(u)[0])
                    if f.canon(b0, subst=False) == pc and u not in f.walk(c) and "inl" not in un:
                        uses.append(u)
            if not uses:
                continue
            bad = [u for u in uses if f.cfg.path_exists(paths.pos_of(f, start), lambda e, u=u: e == u or u in f.walk(e), removed_edges=set(paths.guard_edges(f, passed_b)))]
            ctx.check(r2, not bad, key(f, "checked:%s" % pc), f.where(bad[0] if bad else c), "`%s` is read at line %s on a path that has not passed the truncation test at line %s" % (pc, f.line(bad[0]) if bad else "", f.line(c)))
        if not tests:
            continue
        ctx.touch(f)
        for (i, ops, t) in tests:
            others = []
            for j in f.find("Bin"):
                nd = f.nodes[j]
                if j in in_tests or nd["op"] != "+" or "*" not in nd.get("t", ""):
                    continue
                if frozenset(f.canon(x, subst=False) for x in nd["ch"]) == ops:
                    others.append((j, nd["t"].replace("const ", "").strip()))
            if not others:
                continue
            bad = [(j, t2) for (j, t2) in others if t2 != t]
            ctx.check(r, not bad, key(f, "end-of:%s" % "+".join(sorted(ops))[:40]), f.where(i), "the truncation test computes `%s` as `%s` but the region is laid out as `%s` (line %s): the test measures the region in the wrong unit" % (" + ".join(sorted(ops)), t, bad[0][1] if bad else "", f.line(bad[0][0]) if bad else ""))
        # every element access through a tested region pointer lies behind its test
        for c, sums in conds.items():
            for (i, nd) in sums:
                ptrs = [x for x in nd["ch"] if "*" in f.nodes[f.strip(x, casts=False)].get("t", "") or "*" in f.nodes[x].get("t", "")]
                if len(ptrs) != 1:
                    continue
                pj = f.strip(ptrs[0])
                if f.k(pj) not in ("DeclRef", "Member", "Subscript"):
                    continue
                pc = f.canon(pj, subst=False)
                defs = [s_ for s_ in paths.stores(f) if s_["path"] == pc and s_["op"] == "=" and paths.always_before(f, c, lambda e, n_=s_["node"]: e == n_)]
                if not defs:
                    continue
                start = defs[-1]["node"]
                cj = f.strip(c)

                def passed(fn, cc, pol, cj=cj):
                    return fn.strip(cc) == cj and not pol
                uses = []
                for u in f.walk():
                    un = f.nodes[u]
                    if un["k"] == "Subscript" or (un["k"] == "Un" and un["op"] == "*") or (un["k"] == "Member" and un.get("arrow")):
                        b0 = f.strip(f.ch(u)[0])
                        if f.canon(b0, subst=False) == pc and u not in f.walk(c):
                            uses.append(u)
                if not uses:
                    continue
                bad = [u for u in uses if f.cfg.path_exists(paths.pos_of(f, start), lambda e, u=u: e == u or u in f.walk(e), removed_edges=set(paths.guard_edges(f, passed)))]
                ctx.check(r2, not bad, key(f, "checked:%s" % pc), f.where(bad[0] if bad else c), "`%s` is read at line %s on a path that has not passed the truncation test at line %s (the test is conditional on something else): a short file of the other kind is read past the end of its buffer" % (pc, f.line(bad[0]) if bad else "", f.line(c)))


def _error_exits(f):
    out = set()
    for rt in f.find("Return"):
        if f.ch(rt):
            v = f.constval(f.ch(rt)[0])
            if (v is not None and v < 0) or (paths._is_zero(f, f.ch(rt)[0]) and "*" in f.d.get("ret", "")):
                out.add(rt)
    return out


# -------------------------------------------------------------------------------- unwinding
def unwind_rule(ctx, P, fns, floor=10, only_readers=True, extra_allocs=(), extra_frees=(), extra_owned=()):
    """extra_owned: constructors whose result is tracked for double release / use after release only
    (objects are reference counted and often kept, so no leak obligation is derived for them)"""
    r = ctx.rule("UNWIND", "a local buffer released in a loader / parser is not released or read again on any later path, a buffer handed to the caller is not released afterwards, and a temporary buffer (never stored into the object or returned) is released on every exit", floor=floor)
    for f in fns:
        if only_readers and not any(f.nodes[c].get("callee") in READS for c in f.calls()) and not any("s3file_t" in prm[1] for prm in f.params):
            continue
        # locals assigned from an allocator
        owned = {}
        objects = set()
        obj_sites = {}
        for c in f.calls():
            cal = f.nodes[c].get("callee")
            if cal in ALLOCS and cal not in ("__ckd_alloc_2d_ptr", "__ckd_alloc_3d_ptr") or cal in ("s3file_copy_header_value", "s3file_copy_header_name", "s3file_copy_nextword", "__ckd_salloc__") or cal in extra_allocs:
                p = f.up(c)
                while p is not None and f.k(p) in ("Paren", "ICast", "Cast"):
                    p = f.parent[p]
                if p is None:
                    continue
                if f.k(p) == "Assign":
                    d = paths.local_of(f, f.ch(p)[0])
                elif f.k(p) == "Var":
                    d = f.nodes[p].get("decl")
                else:
                    d = None
                if d is not None:
                    owned.setdefault(d, []).append(p)
            elif cal in extra_owned or (extra_owned and "*ctor" in extra_owned and cal and re.search(r"_(init|new|init_search|read|read_s3file|readfile|parse_string|parse_file|build_fsg|retain)$", cal) and any("*" in g.d.get("ret", "") for g in P.fn_index.get(cal, []))):
                p = f.up(c)
                while p is not None and f.k(p) in ("Paren", "ICast", "Cast"):
                    p = f.parent[p]
                if p is not None and f.k(p) in ("Assign", "Var"):
                    d = paths.local_of(f, f.ch(p)[0]) if f.k(p) == "Assign" else f.nodes[p].get("decl")
                    if d is not None and not cal.endswith("_retain"):
                        owned.setdefault(d, [])
                        objects.add(d)
                        obj_sites.setdefault(d, []).append(p)
        if not owned:
            continue
        ctx.touch(f)
        for d, allocs in sorted(owned.items()):
            name = d.split("@")[0]
            frees = []
            keepers = []
            escapes = False
            for c in f.calls():
                cal = f.nodes[c].get("callee")
                args = f.args(c)
                for ai, a in enumerate(args):
                    if paths.local_of(f, a) == d:
                        if cal in FREES or cal in extra_frees or (any(x == "*_free" for x in extra_frees) and cal and cal.endswith("_free") and ai == 0):
                            frees.append(c)
                        elif cal not in ("s3file_get", "memcpy", "memset", "vector_sum_norm", "vector_floor", "vector_nz_floor", "strcmp", "strlen", "atof", "atoi", "err_msg", "logmath_log", "strncmp", "sscanf", "strtol", "strchr", "err_msg_system", "strtod", "strcpy", "strcat", "snprintf", "sprintf", "strrchr", "strstr"):
                            tg = P.fn_index.get(cal, [])
                            if (cal, ai) in BORROWERS:
                                continue
                            if not tg or any(_keeps_param(P, g, ai) for g in tg):
                                escapes = True
                                if tg and any(_ctor_keeps(g, ai) for g in tg):
                                    keepers.append(c)
            # kept by a constructor: once its result is known to exist the object owns the buffer, and
            # releasing the buffer as well (on a later error path) leaves the object with a dangling
            # pointer and releases twice when the object goes
            for c in keepers:
                par = f.up(c)
                while par is not None and f.k(par) in ("Paren", "ICast", "Cast"):
                    par = f.parent[par]
                if par is None or f.k(par) not in ("Assign", "Var"):
                    continue
                R = f.canon(f.ch(par)[0], subst=False) if f.k(par) == "Assign" else f.nodes[par]["name"]
                failed = set(paths.guard_edges(f, lambda fn, cc, pol, R=R: paths.cond_atoms(fn, cc, pol, subst=False) == (R, False)))
                if not failed:
                    continue
                for n, fr in enumerate(frees):
                    if f.cfg.path_exists(paths.pos_of(f, c), lambda e, fr=fr: e == fr, removed_edges=failed):
                        ctx.bad(r, key(f, "%s:kept-by:%s#%d" % (name, f.nodes[c].get("callee"), n)), f.where(fr), "`%s` was handed to %s, which keeps it in the object it returns (`%s`); it is released here on a path where that object exists: the object is left with a dangling pointer and the buffer is released again with it" % (name, f.nodes[c].get("callee"), R))
                    else:
                        ctx.check(r, True, key(f, "%s:kept-by:%s#%d" % (name, f.nodes[c].get("callee"), n)), f.where(fr), "")
            for s in paths.stores(f):
                if s["rhs"] is not None and paths.local_of(f, s["rhs"]) == d and s["kind"] in ("Member", "Un", "Subscript"):
                    escapes = True
                # element pointers into the buffer stored elsewhere: out[i][j][k] = &buf[l]
                if s["rhs"] is not None and s["kind"] in ("Member", "Un", "Subscript"):
                    for x in f.walk(s["rhs"]):
                        if f.k(x) == "DeclRef" and f.nodes[x].get("decl") == d and f.k(f.strip(s["rhs"])) == "Un" and f.nodes[f.strip(s["rhs"])]["op"] == "&":
                            escapes = True
            for rt in f.find("Return"):
                if f.ch(rt) and paths.local_of(f, f.ch(rt)[0]) == d:
                    escapes = True
            # copied into another local (aliased): ownership is no longer tracked by name
            for i in f.find("Assign") + f.find("Var"):
                rhs = f.ch(i)[1] if f.k(i) == "Assign" else (f.ch(i)[0] if f.ch(i) else None)
                if rhs is not None and i not in allocs and any(f.k(x) == "DeclRef" and f.nodes[x].get("decl") == d for x in f.walk(rhs)) and "*" in f.nodes[i].get("t", ""):
                    if not (f.k(i) == "Assign" and paths.local_of(f, f.ch(i)[0]) == d):
                        escapes = True
            # double free / use after free
            for n, fr in enumerate(frees):
                later = [x for x in paths.use_after(f, fr, d) if not _only_null_tested(f, x)]
                # a null test of the local is a read but harmless only if the local was reset; it was not (no redefinition)
                ctx.check(r, not later, key(f, "%s:released#%d" % (name, n)), f.where(fr), "`%s` is released here and used again at line %s on a later path (double free on the error path)" % (name, f.line(later[0]) if later else "?"))
            # handed to the caller through an out-parameter: releasing it afterwards leaves the caller a dangling pointer
            outs = [st for st in paths.stores(f) if st["rhs"] is not None and paths.local_of(f, st["rhs"]) == d and st["kind"] == "Un" and paths.local_of(f, f.ch(st["lhs"])[0]) is not None]
            for st in outs:
                outp = st["path"]
                resets = set(x["node"] for x in paths.stores(f) if x["path"] == outp and x["node"] != st["node"])
                for n, fr in enumerate(frees):
                    bad_ = f.cfg.path_exists(paths.pos_of(f, st["node"]), lambda e, fr=fr: e == fr) and not paths.must_pass(f, fr, lambda e: e in resets)
                    ctx.check(r, not bad_, key(f, "%s:handed-out#%d" % (name, n)), f.where(fr), "`%s` was handed to the caller through `%s` and is released here without resetting it: the caller releases it again" % (name, outp))
            # kept in an object field and released afterwards without the field being reset: the object is left
            # with a dangling pointer
            for st in paths.stores(f):
                if st["rhs"] is None or st["kind"] != "Member" or st["op"] != "=":
                    continue
                rv = f.strip(st["rhs"])
                if paths.local_of(f, st["rhs"]) != d and not (f.k(rv) == "Assign" and paths.local_of(f, f.ch(rv)[0]) == d):
                    continue
                fldp = st["path"]
                resets = set(x["node"] for x in paths.stores(f) if x["path"] == fldp and x["node"] != st["node"])
                for n, fr in enumerate(frees):
                    if f.cfg.path_exists(paths.pos_of(f, st["node"]), lambda e, fr=fr: e == fr, is_barrier=lambda e: e in resets) and not paths.must_pass(f, fr, lambda e: e in resets):
                        ctx.bad(r, key(f, "%s:dangling:%s#%d" % (name, fldp, n)), f.where(fr), "`%s` was stored in `%s` and is released here while that field still points to it: the next user of the object reads or releases freed memory" % (name, fldp))
            if d in objects:
                # an object built here: a refusal (error return) after it exists passes its release or its
                # hand-over - unless the very same test already refused before the object was built (a
                # repeated check whose failing arm cannot be taken)
                for a in obj_sites.get(d, []):
                    hand = set(frees)
                    for c in f.calls():
                        if c not in frees and any(paths.local_of(f, x) == d for x in f.args(c)) and f.nodes[c].get("callee") not in ("err_msg", "fsg_model_word_add", "fsg_model_trans_add", "fsg_model_null_trans_add", "fsg_model_tag_trans_add", "fsg_model_add_silence", "fsg_model_add_alt", "alignment_add_word", "alignment_populate", "alignment_n_words", "fsg_model_word_id"):
                            hand.add(c)
                    for st in paths.stores(f):
                        if st["rhs"] is not None and paths.local_of(f, st["rhs"]) == d and st["kind"] in ("Member", "Un", "Subscript"):
                            hand.add(st["node"])
                    null_edges = set(paths.guard_edges(f, lambda fn, cc, pol, name=name: paths.cond_atoms(fn, cc, pol, subst=False)[1] is False and (paths.cond_atoms(fn, cc, pol, subst=False)[0] == name or paths.cond_atoms(fn, cc, pol, subst=False)[0].startswith(name + " = "))))
                    # a release under a flag ("if (new_config) config_free(config)") counts for the paths through its test
                    for fr in list(frees):
                        fb = paths.pos_of(f, fr)[0]
                        for (s0, d0, cc, pol) in f.cfg.cond_edges():
                            if d0 == fb:
                                hand.update(e_ for e_ in f.cfg.blocks[s0]["elems"][-1:] if e_ >= 0)
                    for rt in _error_exits(f):
                        if not f.cfg.path_exists(paths.pos_of(f, a), lambda e, rt=rt: e == rt, is_barrier=lambda e: e in hand, removed_edges=null_edges):
                            continue
                        rb = paths.pos_of(f, rt)[0]
                        gconds = set(f.canon(cc, subst=False) for (s0, d0, cc, pol) in f.cfg.cond_edges() if d0 == rb)
                        earlier = False
                        for r0 in _error_exits(f):
                            if r0 == rt or f.cfg.path_exists(paths.pos_of(f, a), lambda e, r0=r0: e == r0):
                                continue
                            b0 = paths.pos_of(f, r0)[0]
                            if gconds & set(f.canon(cc, subst=False) for (s0, d0, cc, pol) in f.cfg.cond_edges() if d0 == b0):
                                earlier = True
                        ctx.check(r, earlier or not gconds, key(f, "%s:built-then-refused@%d" % (name, f.line(rt))), f.where(rt), "the object `%s` built at line %s is neither released nor handed over on the way to this refusal, and nothing refused on the same test before it was built: every refused call leaks it (and the references it holds)" % (name, f.line(a)))
            if escapes or d in objects:
                continue
            # temporary: every exit after an allocation passes a free (null-test edges of the local removed)
            def _is_null_edge(fn, cc, pol, name=name, d=d):
                # `if (!v)`, and the allocation tested where it is assigned: `if ((v = alloc()) == NULL)`
                at = paths.cond_atoms(fn, cc, pol, subst=False)
                if at is None or at[1] is not False or not (at[0] == name or at[0].startswith(name + " = ")):
                    return False
                return any(fn.k(x) == "DeclRef" and fn.nodes[x].get("decl") == d for x in fn.walk(cc))
            null_edges = set(paths.guard_edges(f, _is_null_edge))
            for n, a in enumerate(allocs):
                exits = set(c for c in f.calls() if f.nodes[c].get("callee") in ("exit", "abort"))
                ok = paths.must_pass(f, a, lambda e: e in frees or e in exits, removed_edges=null_edges)
                ctx.check(r, ok, key(f, "%s:temporary#%d" % (name, n)), f.where(a), "the temporary buffer `%s` allocated here is not released on every path to the function's exits" % name)


DESTRUCTORS = ("acmod_free", "bin_mdef_free", "tmat_free", "gauden_free", "senone_free", "ms_mgau_free", "ptm_mgau_free", "s2_semi_mgau_free")


def partial_rule(ctx, P):
    r = ctx.rule("UNWIND.partial", "the release functions the loaders call on their error paths accept a partly built (zeroed) object: every dereference through a pointer field of the object is guarded by a test of that field or runs in a loop bounded by a count field of the same object; a field that selects how another field is released is set before the call that fills that other field", floor=5)
    for name in DESTRUCTORS:
        f = P.fn(name)
        ctx.touch(f)
        obj = None
        # the object is the parameter, or a local initialised from it by a cast
        prm = f.params[0][0]
        names = {prm}
        for v in f.find("Var"):
            if f.ch(v) and f.canon(f.ch(v)[0], subst=False).endswith(prm):
                names.add(f.nodes[v]["name"])
        n = 0
        for i in f.walk():
            nd = f.nodes[i]
            deref = None
            if nd["k"] == "Subscript":
                deref = f.strip(nd["ch"][0])
            elif nd["k"] == "Member" and nd.get("arrow"):
                deref = f.strip(nd["ch"][0])
            elif nd["k"] == "Un" and nd["op"] == "*":
                deref = f.strip(nd["ch"][0])
            if deref is None or f.k(deref) != "Member" or not f.nodes[deref].get("arrow"):
                continue
            base = f.strip(f.ch(deref)[0])
            if f.k(base) != "DeclRef" or f.nodes[base].get("name", f.canon(base, subst=False)) not in names and f.canon(base, subst=False) not in names:
                continue
            fld = f.canon(deref, subst=False)
            n += 1

            def nonnull(fn, cc, pol, fld=fld):
                a = paths.cond_atoms(fn, cc, pol, subst=False)
                return a == (fld, True)
            ok = paths.guarded(f, _elem_of(f, i), nonnull)
            if not ok:
                lp = f.enclosing(i, ("For",))
                if lp is not None and f.k(f.ch(lp)[1]) != "Absent":
                    rr = paths.rel(f, f.ch(lp)[1], True, subst=False)
                    ok = rr is not None and rr[1] == "<" and any(rr[2].startswith(nm + "->") for nm in names)
            if not ok and nd["k"] == "Member":
                # p->g->x style: handing the sub-object to its own release function is checked there
                pass
            ctx.check(r, ok, key(f, "%s#%d" % (fld, n)), f.where(i), "`%s` is dereferenced when releasing a partly built object without a test that it was allocated (the loaders call %s from their error exits on a zeroed object)" % (fld, name))
    # mode-before-fill
    for name, unit in (("ptm_mgau_init_s3file", "ptm_mgau.c"), ("s2_semi_mgau_init_s3file", "s2_semi_mgau.c")):
        f = P.fn(name, unit)
        ctx.touch(f)
        fills = [c for c in f.calls("read_sendump")]
        modes = [s for s in paths.field_stores(f, None, "sendump_mmap")] or [s for s in paths.stores(f) if s["field"] == "sendump_mmap"]
        if not fills or not modes:
            raise AnalysisIncomplete("anchor vanished: read_sendump call / sendump_mmap store in %s" % name)
        for c in fills:
            ctx.check(r, all(paths.always_before(f, c, lambda e, m=m: e == m["node"]) for m in modes[:1]), key(f, "mode-before-fill"), f.where(c), "the field that tells %s how to release the mixture weights (sendump_mmap) is set only after read_sendump: a partial read is released as heap arrays" % name.replace("_init_s3file", "_free"))
    # the destructor really chooses by that field
    for name in ("ptm_mgau_free", "s2_semi_mgau_free"):
        f = P.fn(name)
        two = f.calls("ckd_free_2d")
        three = f.calls("ckd_free_3d")
        sel = [c for c in two if "mixw" in f.canon(f.args(c)[0], subst=False)]
        ok = bool(sel) and all(paths.guarded(f, c, lambda fn, cc, pol: paths.cond_atoms(fn, cc, pol, subst=False)[0].endswith("sendump_mmap") and paths.cond_atoms(fn, cc, pol, subst=False)[1]) for c in sel)
        ctx.check(r, ok, key(f, "release-by-mode"), f.where(f.root), "%s no longer selects the 2-d release of the mapped weights by the sendump_mmap field" % name)


UNBOUNDED_STR = ("strlen", "strcmp", "strcpy", "strcat", "strchr", "strrchr", "strstr", "atoi", "atof", "strtol", "strtod", "sscanf", "__ckd_salloc__", "strdup", "strcasecmp", "strcmp_nocase")


def model_text_rule(ctx, P, fns):
    """Text kept *inside* the image of a model file (the phone names of a binary model definition): a pointer that
    is, or is computed from, the raw cursor of the s3file (or a private copy of the remaining bytes) points at
    bytes nothing has delimited yet.  A string primitive that runs to the next NUL may only be applied to it after
    a search for that NUL bounded by the end of the data (memchr(p, 0, end - p) != NULL)."""
    r = ctx.rule("SPAN.model-text", "a pointer that is (or is computed from) the raw cursor of a model file, or a private copy of the rest of the file, is handed to a primitive that runs to the next NUL (strlen, strcmp, strcpy, ...) only where a search for that NUL bounded by the end of the data has succeeded for the same pointer", floor=1)
    n = 0
    for f in fns:
        sp = [p_[0] for p_ in f.params if "s3file" in (p_[3] or p_[1] or "")]
        if not sp:
            continue
        sname = sp[0]
        # roots: lvalue paths assigned the cursor (through casts), or filled by s3file_get(.., 1, <rest>, s) as bytes
        def root_of(path):
            return re.sub(r"\[[^\]]*\]", "[]", path)
        roots = set()
        for st in paths.stores(f):
            if st["rhs"] is None or st["op"] != "=":
                continue
            rc = f.canon(st["rhs"], subst=False)
            if re.fullmatch(r"\(*%s->ptr\)*" % re.escape(sname), rc.replace("(char *)", "").replace("(void *)", "").strip()):
                roots.add(root_of(st["path"]))
        for c in f.calls("s3file_get"):
            a = f.args(c)
            if len(a) >= 4 and f.constval(a[1]) == 1:
                roots.add(root_of(f.canon(a[0], subst=False)))
        changed = True
        while changed:
            changed = False
            for st in paths.stores(f):
                if st["rhs"] is None or st["op"] != "=" or root_of(st["path"]) in roots:
                    continue
                t = f.nodes[st["lhs"]].get("ct", f.nodes[st["lhs"]].get("t", ""))
                if "char" not in t or "*" not in t:
                    continue
                if any(f.k(j) in ("Member", "DeclRef", "Subscript") and root_of(f.canon(j, subst=False)) in roots for j in f.walk(st["rhs"])):
                    roots.add(root_of(st["path"]))
                    changed = True
        if not roots:
            continue
        ctx.touch(f)
        for c in f.find("Call"):
            cal = f.nodes[c].get("callee")
            if cal not in UNBOUNDED_STR:
                continue
            for a in f.args(c)[:2]:
                ac = f.canon(a, subst=False)
                if root_of(ac) not in roots:
                    continue
                n += 1

                def bounded(fn, cc, pol, ac=ac):
                    at = paths.cond_atoms(fn, cc, pol, subst=False)
                    return at is not None and at[1] is True and str(at[0]).startswith("memchr(%s, 0," % ac)
                ctx.check(r, paths.guarded(f, _elem_of(f, c), bounded), key(f, "%s(%s)#%d" % (cal, root_of(ac), n)), f.where(c), "`%s(%s)` runs to the next NUL in bytes that come straight from the model file (`%s` is computed from the file's cursor) and nothing has established that there is one before the end of the data: a file truncated inside the text is read past the end of its buffer" % (cal, ac, ac))
    ctx.check(r, True, "census:model-text", "src", "", "%d uses of NUL-terminated primitives on in-image text" % n)


def run(ctx):
    P = ctx.P
    fns = loader_functions(P)
    if len(fns) < 60:
        raise AnalysisIncomplete("loader function set shrank to %d" % len(fns))
    errd_read(ctx, P, fns)
    errd_null(ctx, P, fns)
    exit_rule(ctx, P, fns)
    taint_rule(ctx, P, fns)
    product_rule(ctx, P, fns)
    from .c10 import _Collect
    col = _Collect()
    product_rule(col, P, [f for f in P.functions("fixture:product_fx.c") if f.name.startswith("fx_product")])
    ctx.control("TAINT.wide-product", any(k.startswith("fx_product_bad:") for k in col.bads) and not any(k.startswith("fx_product_good:") for k in col.bads) and any(k.startswith("fx_product_good:") for k in col.oks),
                "fixture fx_product_bad (int32 product of two counts read from the file in a bound test) must be reported, fx_product_good (the same test in size_t) must not (got %s / %s)" % (col.bads, col.oks))
    index_rule(ctx, P, fns)
    index_value_rule(ctx, P, fns)
    cursor_rule(ctx, P, fns)
    region_rule(ctx, P, fns)
    unwind_rule(ctx, P, fns)
    partial_rule(ctx, P)
    model_text_rule(ctx, P, fns)
    from . import c10
    c10.span_rule(ctx, P, fns, floor=12)
