"""C19 — log-domain addition.

Decides: bounded table lookup, width writer/reader agreement, syntactic
symmetry in the two arguments, result = larger argument + unsigned entry,
log-zero short circuits first, log/exp inverse pairs use matching constants
and shift directions, the sizing and filling passes of the table builder
agree.  Not decided: accuracy to half a unit, the log 2 bound (numerical).
"""
import re

from .. import paths
from ..prog import AnalysisIncomplete

UNIT = "logmath.c"
PTRSIZE = {"unsigned char *": 1, "unsigned short *": 2, "unsigned int *": 4}


def key(fn, what):
    return "%s:%s" % (fn.name, what)


def table_subscripts(fn):
    """Subscript nodes whose base is the log-add table (possibly cast)"""
    out = []
    for i in fn.find("Subscript"):
        b = fn.strip(fn.ch(i)[0])
        if fn.k(b) == "Member" and fn.nodes[b]["field"] == "table" and fn.nodes[b].get("rec") == "logadd_s":
            # find the explicit cast on the way
            j = fn.ch(i)[0]
            width = None
            while fn.k(j) in ("Paren", "ICast", "Cast"):
                if fn.k(j) == "Cast":
                    width = PTRSIZE.get(fn.nodes[j].get("ct", fn.nodes[j]["t"]))
                j = fn.ch(j)[0]
            out.append((i, width))
    return out


def run(ctx):
    P = ctx.P
    fns = {f.name: f for f in P.functions(UNIT) if f.file.endswith(UNIT)}
    for f in fns.values():
        ctx.touch(f)
    for n in ("logmath_add", "logmath_init", "logmath_log", "logmath_exp", "logmath_add_exact"):
        if n not in fns:
            raise AnalysisIncomplete("anchor vanished: %s" % n)
    add, init = fns["logmath_add"], fns["logmath_init"]
    x, y = add.params[1][0], add.params[2][0]
    lm = add.params[0][0]

    # ---- bounded lookup ------------------------------------------------------------
    r1 = ctx.rule("GUARD.table-read", "every read of the log-add table in logmath_add is dominated by d >= 0 and d < table_size (after the last assignment of d)", floor=3)
    subs = table_subscripts(add)
    for (s, w) in subs:
        idx = add.canon(add.ch(s)[1], subst=False)
        lo = paths.guarded(add, s, lambda f, c, pol, idx=idx: paths.rel(f, c, pol, subst=False) in (("0", "<=", idx), (idx, ">=", "0")))
        hi = paths.guarded(add, s, lambda f, c, pol, idx=idx: (lambda r: r is not None and r[0] == idx and r[1] == "<" and r[2].endswith("table_size"))(paths.rel(f, c, pol, subst=False)))
        # no redefinition of the index between the guards and the read
        d = paths.local_of(add, add.ch(s)[1])
        redefs = []
        if d is not None:
            for (s0, d0, c, pol) in add.cfg.cond_edges():
                r = paths.rel(add, c, pol, subst=False)
                if r and idx in (r[0], r[2]):
                    for dn in paths.defs_of_local(add, d):
                        if add.cfg.path_exists(paths.pos_of(add, c), lambda e, dn=dn: e == dn) and add.cfg.path_exists(paths.pos_of(add, dn), lambda e, s=s: e == s):
                            redefs.append(dn)
        ctx.check(r1, lo, key(add, "lower:w%s" % w), add.where(s), "table[%s] is read without a dominating %s >= 0 test" % (idx, idx))
        ctx.check(r1, hi, key(add, "upper:w%s" % w), add.where(s), "table[%s] is read without a dominating %s < table_size test" % (idx, idx))
        ctx.check(r1, not redefs, key(add, "stable:w%s" % w), add.where(s), "%s is reassigned between its range test and the table read" % idx)

    # ---- widths ----------------------------------------------------------------------
    r2 = ctx.rule("TABLE.width", "the widths logmath_init can store are exactly the case labels of every width switch; in `case W` the table is accessed through a pointer to a W-byte unsigned type; the table is allocated count*width with table_size = count", floor=8)
    wstores = [s for s in paths.stores(init) if s["path"] == "width" and s["rhs"] is not None]
    widths = set()
    for s in wstores:
        if paths.is_const(init, s["rhs"]):
            widths.add(init.nodes[init.strip(s["rhs"])].get("v", init.nodes[init.strip(s["rhs"])].get("cv")))
        else:
            widths.add("?")
    ctx.check(r2, widths == {1, 2, 4}, key(init, "widths"), init.where(init.root), "logmath_init selects widths %s" % sorted(map(str, widths)))
    # the width chosen must be able to hold the largest entry (maxyx): width W needs maxyx <= 2^(8W) - 1
    for s in wstores:
        wv = init.constval(s["rhs"])
        if wv in (1, 2):
            lim = 1 << (8 * wv)
            def fits(fn, cc, pol, lim=lim):
                r = paths.rel(fn, cc, pol, subst=False)
                if r is None or r[0] != "maxyx" or not re.match(r"^\d+$", r[2]):
                    return False
                c = int(r[2])
                return (r[1] == "<" and c <= lim) or (r[1] == "<=" and c <= lim - 1)
            ctx.check(r2, paths.guarded(init, s["node"], fits), key(init, "width%d-fits" % wv), init.where(s["node"]), "width %d is selected without a dominating test that the largest table entry is below %d: the entry for equal arguments would be truncated" % (wv, lim))
    # every table access happens where the width is known to be the element width it uses, whether the
    # code selects by switch or by an if-chain; each function covers every width logmath_init can select
    is_width = lambda fn, n_: fn.canon(n_, subst=False).endswith("width")
    for f in (init, add):
        covered = {}
        for (s_, w) in table_subscripts(f):
            okw = w is not None and paths.guarded_equal(f, s_, is_width, w)
            ctx.check(r2, okw, key(f, "in-case:%s@%d" % (w, f.line(s_))), f.where(s_), "the log-add table is accessed through a %s-byte element pointer where the table's width is not known to be %s" % (w, w))
            if okw:
                kind = "store" if (f.k(f.up(s_)) == "Assign" and f.strip(f.ch(f.up(s_))[0]) == s_) else "read"
                covered.setdefault(kind, set()).add(w)
        for kind, ws in sorted(covered.items()):
            ctx.check(r2, ws == widths, key(f, "labels:" + kind), f.where(f.root), "table %ss handle widths %s but logmath_init can select %s" % (kind, sorted(ws), sorted(map(str, widths))))
        ctx.check(r2, bool(covered), key(f, "width-switches"), f.where(f.root), "no width-selected table access found")
    al = [s for s in paths.field_stores(init, "logadd_s", "table")]
    sz = [s for s in paths.field_stores(init, "logadd_s", "table_size")]
    okal = len(al) == 1 and len(sz) == 1
    if okal:
        m = re.match(r"^__ckd_calloc__\((.*), width, ", init.canon(al[0]["rhs"], subst=False))
        okal = m is not None and m.group(1) == init.canon(sz[0]["rhs"], subst=False)
    ctx.check(r2, okal, key(init, "alloc"), init.where(al[0]["node"]) if al else init.where(init.root), "table allocation and table_size disagree (alloc `%s`, size `%s`)" % (init.canon(al[0]["rhs"], subst=False) if al else "?", init.canon(sz[0]["rhs"], subst=False) if sz else "?"))
    wf = [s for s in paths.field_stores(init, "logadd_s", "width")]
    ctx.check(r2, len(wf) == 1 and init.canon(wf[0]["rhs"], subst=False) == "width", key(init, "width-field"), init.where(init.root), "t.width is not the width used for allocation")

    # ---- symmetry ----------------------------------------------------------------------
    r3 = ctx.rule("TWIN.symmetry", "logmath_add is symmetric under exchanging its two arguments: the zero short-circuits mirror each other and the two branches of the comparison compute (d, r) as (x-y, x) and (y-x, y)", floor=4)
    # zero tests
    zr = []
    for r in add.find("Return"):
        rv = add.canon(add.ch(r)[0], subst=False)
        if rv in (x, y):
            other = y if rv == x else x
            g = paths.guarded(add, r, lambda f, c, pol, other=other: paths.rel(f, c, pol, subst=False) == (other, "<=", "%s->zero" % lm))
            zr.append((rv, g))
    ctx.check(r3, sorted(zr) == sorted([(x, True), (y, True)]), key(add, "zero-identity"), add.where(add.root), "log-zero is not treated as the identity symmetrically: returns %s" % zr)
    # the zero tests come before any table access or subtraction
    firstsub = [s["node"] for s in paths.stores(add) if s["path"] in ("d",)]
    for r in add.find("Return"):
        rv = add.canon(add.ch(r)[0], subst=False)
        if rv in (x, y):
            ctx.check(r3, all(not paths.may_reach(add, n, lambda e, r=r: e == r) for n in firstsub), key(add, "zero-first:" + rv), add.where(r), "log-zero short circuit is taken after the difference was computed")
    # the table path is only reached with both arguments above log-zero
    for n_ in firstsub:
        for (a_, nm) in ((x, "first"), (y, "second")):
            g_ = paths.guarded(add, n_, lambda f, c, pol, a_=a_: paths.rel(f, c, pol, subst=False) == ("%s->zero" % lm, "<", a_))
            ctx.check(r3, g_, key(add, "zero-before-table:%s" % nm), add.where(n_), "the difference is computed without a dominating test that the %s argument is above log-zero: zero + zero (and anything within the table's length of zero) is then looked up in the table instead of returning the other argument" % nm)
    # so is every other way of computing the sum (the exact fallback used without a table)
    for r in add.find("Return"):
        if not add.ch(r) or not list(add.find("Call", root=add.ch(r)[0])):
            continue
        for (a_, nm) in ((x, "first"), (y, "second")):
            g_ = paths.guarded(add, r, lambda f, c, pol, a_=a_: paths.rel(f, c, pol, subst=False) == ("%s->zero" % lm, "<", a_))
            ctx.check(r3, g_, key(add, "zero-before-fallback:%s" % nm), add.where(r), "the sum is handed to `%s` without a dominating test that the %s argument is above log-zero: log-zero is then not the identity (the fallback goes through floating point and rounds)" % (add.canon(add.ch(r)[0], subst=False)[:40], nm))
    # the larger argument and the difference, path by path over values (symx.run_paths): two-armed if,
    # conditional expressions or a swap of the operands read alike
    from .. import symx, lin
    okbr, nbr = True, 0
    got = set()
    for pt in symx.run_paths(add, P):
        d_, r_ = pt.stored("d"), pt.stored("r")
        if d_ is None or r_ is None:
            continue
        nbr += 1
        lt_xy, lt_yx = pt.atoms.get(("<", x, y)), pt.atoms.get(("<", y, x))
        if lt_xy is True or (lt_xy is None and lt_yx is False):
            big, small = y, x
        elif lt_yx is True or (lt_yx is None and lt_xy is False):
            big, small = x, y
        else:
            okbr = False
            continue
        got.add((big, lin.p_str(r_), lin.p_str(d_)))
        okbr = okbr and r_ == lin.p_atom(big) and d_ == lin.p_add(lin.p_atom(big), lin.p_atom(small), -1)
    ctx.check(r3, okbr and len(set(g_[0] for g_ in got)) == 2, key(add, "branches"), add.where(add.root), "difference / larger-argument selection is %s: expected r = the larger argument and d = larger - smaller in both orders" % sorted(got), str(sorted(got)))

    # ---- monotone ---------------------------------------------------------------------------
    r4 = ctx.rule("ORDER.monotone", "every value logmath_add returns after the zero tests is r or r plus an unsigned table entry, r being the larger argument; the exact fallback is used only without a table", floor=5)
    for r in add.find("Return"):
        rv = add.canon(add.ch(r)[0], subst=False)
        if rv in (x, y):
            continue
        k = key(add, "return:" + re.sub(r"\s+", "", rv)[:40])
        if rv == "r":
            ctx.ok(r4, k, add.where(r), rv)
        elif rv.startswith("logmath_add_exact("):
            g = paths.guarded(add, r, lambda f, c, pol: paths.cond_atoms(f, c, pol, subst=False) == ("t->table", False))
            ctx.check(r4, g and rv == "logmath_add_exact(%s, %s, %s)" % (lm, x, y), k, add.where(r), "exact fallback is `%s` / not under `table == NULL`" % rv)
        else:
            m = re.match(r"^\((.*)\[d\] \+ r\)$", rv) or re.match(r"^\(r \+ (.*)\[d\]\)$", rv)
            ctx.check(r4, m is not None and "table" in m.group(1), k, add.where(r), "logmath_add returns `%s`, not r + table[d]" % rv)
    # unsignedness: the casts are to unsigned element types (checked in TABLE.width via PTRSIZE keys)

    # ---- conversions --------------------------------------------------------------------------
    r5 = ctx.rule("TABLE.conversions", "log() is guarded by p <= 0 -> zero; log-domain conversions shift right after scaling by the inverse log of the base, their inverses shift left and scale by the log of the base; the constants are derived from the same base", floor=8)
    lg = fns["logmath_log"]
    lgc = lg.calls("log")
    for c in lgc:
        arg = lg.canon(lg.args(c)[0], subst=False)
        g = paths.guarded(lg, c, lambda f, cc, pol: paths.rel(f, cc, pol, subst=False) in (("0", "<", arg), (arg, ">", "0")))
        ctx.check(r5, g, key(lg, "positive"), lg.where(c), "log(%s) is evaluated without a dominating %s > 0 test" % (arg, arg))
    zret = [r for r in lg.find("Return") if lg.canon(lg.ch(r)[0], subst=False).endswith("->zero")]
    ctx.check(r5, len(zret) == 1, key(lg, "zero"), lg.where(lg.root), "logmath_log does not map non-positive probabilities to the log-zero constant")
    want = {
        "logmath_log": r"^\(\(int\)\(lmath->inv_log_of_base \* log\(p\)\) >> lmath->t\.shift\)$",
        "logmath_exp": r"^pow\(lmath->base, \(double\)\(logb_p << lmath->t\.shift\)\)$",
        "logmath_ln_to_log": r"^\(\(int\)\(lmath->inv_log_of_base \* log_p\) >> lmath->t\.shift\)$",
        "logmath_log_to_ln": r"^\(\(double\)\(logb_p << lmath->t\.shift\) \* lmath->log_of_base\)$",
        "logmath_log10_to_log": r"^\(\(int\)\(lmath->inv_log10_of_base \* log_p\) >> lmath->t\.shift\)$",
        "logmath_log_to_log10": r"^\(\(double\)\(logb_p << lmath->t\.shift\) \* lmath->log10_of_base\)$",
    }
    for name, pat in want.items():
        f = fns.get(name)
        if f is None:
            raise AnalysisIncomplete("anchor vanished: %s" % name)
        rets = [f.canon(f.ch(r)[0], subst=True, casts=True) for r in f.find("Return") if not f.canon(f.ch(r)[0], subst=False).endswith("->zero")]     # a named intermediate reads as what it holds
        # rename the parameters to the canonical names used in the patterns
        norm = []
        for rv in rets:
            rv = re.sub(r"\b%s\b" % re.escape(f.params[0][0]), "lmath", rv)
            rv = re.sub(r"\b%s\b" % re.escape(f.params[1][0]), "logb_p" if "logb" in pat else ("p" if name == "logmath_log" else "log_p"), rv)
            norm.append(rv)
        ctx.check(r5, len(norm) == 1 and re.match(pat, norm[0]) is not None, key(f, "form"), f.where(f.root), "conversion computes `%s`" % (norm,), norm[0] if norm else "")
    consts = {s["field"]: init.canon(s["rhs"], subst=False) for s in paths.stores(init) if s["rec"] == "logmath_s" and s["rhs"] is not None}
    wantc = {"base": "base", "log_of_base": "log(base)", "log10_of_base": "log10(base)", "inv_log_of_base": "(1 / lmath->log_of_base)", "inv_log10_of_base": "(1 / lmath->log10_of_base)"}
    for k_, v in wantc.items():
        ctx.check(r5, consts.get(k_) == v, key(init, "const:" + k_), init.where(init.root), "lmath->%s is initialised as `%s`, expected `%s`" % (k_, consts.get(k_), v))
    ex = fns["logmath_add_exact"]
    rv = [ex.canon(ex.ch(r)[0], subst=False) for r in ex.find("Return")]
    a, p, q = [pp[0] for pp in ex.params]
    ctx.check(r5, rv == ["logmath_log(%s, (logmath_exp(%s, %s) + logmath_exp(%s, %s)))" % (a, a, p, a, q)], key(ex, "form"), ex.where(ex.root), "exact addition computes %s" % rv)
    # base guard
    g = [r for r in init.find("Return") if paths.guarded(init, r, lambda f, c, pol: paths.rel(f, c, pol, subst=False) == ("base", "<=", "1"))]
    ctx.check(r5, len(g) >= 1, key(init, "base>1"), init.where(init.root), "logmath_init accepts a base <= 1")

    # ---- two passes of the table builder --------------------------------------------------------
    r6 = ctx.rule("TWIN.table-passes", "the sizing pass and the filling pass of logmath_init compute the same entry value, decay and stop condition; entries are stored at i >> shift only when still zero", floor=5)
    loops = sorted(init.find("For") + init.find("While"), key=lambda l_: init.line(l_))      # for (;;) or while (1)
    sig = []
    for l in loops:
        body = init.ch(l)[3] if init.k(l) == "For" else init.ch(l)[1]
        vs = {init.nodes[v]["name"]: init.canon(init.ch(v)[0], subst=False) for v in init.find("Var", root=body) if init.ch(v)}
        dec = sorted((s["path"], s["op"], init.canon(s["rhs"], subst=False)) for s in paths.stores(init, body) if s["path"] == "byx")
        brk = []
        for b in init.find("Break", root=body):
            if init.enclosing(b, ("Switch",)) is not None and init.enclosing(b, ("Switch",)) > l - 100000 and init.enclosing(init.enclosing(b, ("Switch",)), ("For", "While")) == l:
                continue
            brk.append([paths.rel(init, c, pol, subst=False) for (s0, d0, c, pol) in init.cfg.cond_edges() if d0 == paths.pos_of(init, b)[0]])
        sig.append(({k_: v for k_, v in vs.items() if k_ in ("lobyx", "k")}, dec, brk))
    ctx.check(r6, len(sig) == 2 and sig[0] == sig[1] and "k" in sig[0][0] and sig[0][1], key(init, "passes"), init.where(init.root), "sizing pass %s differs from filling pass %s" % (sig[0] if sig else None, sig[1] if len(sig) > 1 else None), str(sig[0]) if sig else "")
    # the entry is rounded to the shift, not truncated: (int)(x + 0.5 * 2^shift) >> shift in both passes
    kin = [init.canon(init.ch(v)[0]) for l in loops for v in init.find("Var", root=l) if init.nodes[v]["name"] == "k" and init.ch(v)]
    kin += [init.canon(s_["rhs"]) for s_ in paths.stores(init) if s_["path"] == "k" and s_["op"] == "=" and s_["rhs"] is not None]
    okround = len(kin) >= 2 and all((re.search(r"\(0\.5 \* \(1 << (lmath->t\.)?shift\)\) \+ ", k_) or re.search(r"\(\(1 << (lmath->t\.)?shift\) \* 0\.5\) \+ ", k_) or re.search(r"\+ \((0\.5 \* \(1 << (lmath->t\.)?shift\)|\(1 << (lmath->t\.)?shift\) \* 0\.5)\)", k_)) and re.search(r">> (lmath->t\.)?shift\)$", k_) and "log(" in k_ and "inv_log_of_base" in k_ for k_ in kin)
    ctx.check(r6, okround, key(init, "entry-rounding"), init.where(init.root), "table entries are computed as %s: each entry must be log(1 + b^-i) in the table's base, rounded to the shift (+ 0.5 * 2^shift before the shift); truncating makes log-add up to a full unit low for half of all differences" % kin[:2])
    resets = [s for s in paths.stores(init) if s["path"] == "byx" and s["op"] == "=" and init.canon(s["rhs"], subst=False) == "1"]
    ctx.check(r6, len(resets) == 2, key(init, "byx-reset"), init.where(init.root), "byx is not reset to 1.0 before each pass")
    idxs = set(init.canon(init.ch(s)[1]) for (s, w) in table_subscripts(init))     # a hoisted `idx = i >> shift` reads the same
    ctx.check(r6, idxs == {"(i >> shift)"}, key(init, "index"), init.where(init.root), "table entries are read/written at %s" % sorted(idxs))
    for st in paths.stores(init):
        if st["kind"] == "Subscript" and "table" in st["path"]:
            ctx.check(r6, paths.guarded(init, st["node"], lambda f, c, pol: paths.rel(f, c, pol, subst=False) in (("0", "==", "prev"), ("prev", "==", "0"))) and re.sub(r"^\(\w+ ?\w*\)", "", init.canon(st["rhs"], subst=False)) == "k", key(init, "store:" + st["path"][:30]), init.where(st["node"]), "table entry stored without the `prev == 0` test or not from k")
    # size: i >>= shift, floor 255, alloc i + 1
    sh = [s for s in paths.stores(init) if s["path"] == "i" and s["op"] == ">>="]
    ctx.check(r6, len(sh) == 1 and init.canon(sh[0]["rhs"], subst=False) == "shift", key(init, "size-shift"), init.where(init.root), "table size is not reduced by the shift")
    zs = [s for s in paths.field_stores(init, "logmath_s", "zero")]
    ctx.check(r6, len(zs) == 1 and init.canon(zs[0]["rhs"], subst=False, fold=True) == "(-2147483648 >> (2 + shift))", key(init, "zero"), init.where(init.root), "log-zero constant is `%s`" % (init.canon(zs[0]["rhs"], subst=False) if zs else None))
