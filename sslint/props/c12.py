"""C12 — N-best and lattice scores are ordered and sane.

Decides the ordering discipline (DESIGN.md §4 C12): the A* agenda key is the
same normal form wherever paths are created, compared and inserted; the
insertion scan keeps the list in the order the consumer pops; path scores are
additive; best-path and heuristic updates are max-merges with co-updated
back-pointers; forward and reverse edge traversals are mirror images; the
acoustic scaling term is identical in alpha, beta and the joint.  Not decided:
posterior ranges and forward/backward agreement as numbers.
"""
import re

from .. import paths
from ..prog import AnalysisIncomplete

L = "ps_lattice.c"


def key(fn, what):
    return "%s:%s" % (fn.name, what)


def prio(p):
    return "(%s->node->info.rem_score + %s->score)" % (p, p)


def _acc(fn, stores_):
    """the value a local holds after its stores `v = a; v += b; ...` in source order, as a polynomial
    (`v = a + b` reads the same)"""
    from .. import lin
    tot = None
    for s_ in stores_:
        if s_["op"] == "=":
            tot = lin.poly(fn, s_["rhs"], subst=False)
        elif s_["op"] == "+=" and tot is not None:
            tot = lin.p_add(tot, lin.poly(fn, s_["rhs"], subst=False))
        elif s_["op"] == "-=" and tot is not None:
            tot = lin.p_add(tot, lin.poly(fn, s_["rhs"], subst=False), -1)
        else:
            return None
    return tot


def run(ctx):
    P = ctx.P
    lf = {f.name: f for f in P.functions(L) if f.file.endswith(L)}
    for n in ("path_insert", "path_extend", "astar_search_start", "astar_next", "best_rem_score", "lattice_bestpath", "lattice_posterior",
              "lattice_traverse_edges", "lattice_traverse_next", "lattice_reverse_edges", "lattice_reverse_next", "lattice_joint", "astar_hyp"):
        if n not in lf:
            raise AnalysisIncomplete("anchor vanished: %s" % n)
        ctx.touch(lf[n])

    # ---- P1 agenda key -------------------------------------------------------------
    p1 = ctx.rule("TWIN.P1-agenda-key", "the agenda priority is path score + remaining-score heuristic of the path's node wherever it is computed: scan comparison, extension, tail comparison and the initial paths", floor=4)
    ins, ext, start = lf["path_insert"], lf["path_extend"], lf["astar_search_start"]
    tot = ins.params[2][0]
    conds = [(paths.rel(ins, c, pol, subst=False), c) for (s, d, c, pol) in ins.cfg.cond_edges() if pol]
    scan = [r for (r, c) in conds if r and tot in (r[0], r[2]) and r[1] in ("<", "<=")]
    ctx.check(p1, scan in ([(prio("p"), "<", tot)], [(prio("p"), "<=", tot)]), key(ins, "scan-key"), ins.where(ins.root), "insertion scan compares %s, expected %s < %s (strict)" % (scan, prio("p"), tot))
    pic = ext.calls("path_insert")
    ok = len(pic) == 1 and ext.canon(ext.args(pic[0])[2]) == prio("newpath") and ext.canon(ext.args(pic[0])[1], subst=False) == "newpath"
    ctx.check(p1, ok, key(ext, "insert-key"), ext.where(pic[0]) if pic else ext.where(ext.root), "extension inserted with key `%s`, expected %s" % (ext.canon(ext.args(pic[0])[2]) if pic else None, prio("newpath")))
    ts = [s for s in paths.stores(ext) if s["path"] == "tail_score"]
    ctx.check(p1, len(ts) == 1 and ext.canon(ts[0]["rhs"], subst=False) == prio("nbest->path_tail"), key(ext, "tail-key"), ext.where(ext.root), "tail key is %s" % [ext.canon(s["rhs"], subst=False) for s in ts])
    sic = start.calls("path_insert")
    ok = len(sic) == 1
    if ok:
        k_ = start.canon(start.args(sic[0])[2], subst=False)
        nodeset = [s for s in paths.stores(start) if s["path"] == "path->node"]
        ok = k_ == "(node->info.rem_score + path->score)" and len(nodeset) == 1 and start.canon(nodeset[0]["rhs"], subst=False) == "node"
    ctx.check(p1, ok, key(start, "initial-key"), start.where(start.root), "initial paths are not inserted with score + rem_score of their own node")
    # rem_score of the node is computed before it is used as key
    brs = start.calls("best_rem_score")
    ctx.check(p1, len(brs) == 1 and sic and paths.always_before(start, sic[0], lambda e: e == brs[0]) and start.canon(start.args(brs[0])[1], subst=False) == "node", key(start, "heuristic-first"), start.where(start.root), "heuristic of the start node is not computed before the path is inserted")

    # ---- P2 order discipline --------------------------------------------------------------
    p2 = ctx.rule("ORDER.P2-agenda", "the scan stops at the first element with a smaller key and the new path is linked in before it; astar_next pops the head; only these functions write the agenda links; a path's score is its parent's score plus the link's score", floor=10)
    # break on the scan condition
    brk = ins.find("Break")
    ctx.check(p2, len(brk) == 1 and paths.guarded(ins, brk[0], lambda f, c, pol: paths.rel(f, c, pol, subst=False) in ((prio("p"), "<", tot), (prio("p"), "<=", tot))), key(ins, "stop"), ins.where(ins.root), "scan does not stop at the first element with a smaller key")
    st = {}
    for s in paths.stores(ins):
        st.setdefault(s["path"], []).append(s)
    def forms(pth):
        return [ins.canon(s["rhs"], subst=False) if s["rhs"] is not None else s["op"] for s in st.get(pth, [])]
    ctx.check(p2, forms("newpath->next") == ["p"], key(ins, "link-next"), ins.where(ins.root), "new path's successor is %s, expected the element the scan stopped at" % forms("newpath->next"))
    ctx.check(p2, forms("prev") == ["0", "p"], key(ins, "prev"), ins.where(ins.root), "`prev` does not trail the scan (%s)" % forms("prev"))
    heads = [s for s in st.get("nbest->path_list", [])]
    ctx.check(p2, len(heads) == 1 and ins.canon(heads[0]["rhs"], subst=False) == "newpath" and paths.guarded(ins, heads[0]["node"], lambda f, c, pol: paths.cond_atoms(f, c, pol, subst=False) == ("prev", False)), key(ins, "new-head"), ins.where(ins.root), "list head is replaced without `prev == NULL`")
    pn = [s for s in st.get("prev->next", []) if ins.canon(s["rhs"], subst=False) == "newpath"]
    ctx.check(p2, len(pn) == 1 and paths.guarded(ins, pn[0]["node"], lambda f, c, pol: paths.cond_atoms(f, c, pol, subst=False) == ("prev", True)), key(ins, "after-prev"), ins.where(ins.root), "new path is not linked after `prev`")
    tails = [s for s in st.get("nbest->path_tail", []) if ins.canon(s["rhs"], subst=False) == "newpath"]
    ctx.check(p2, len(tails) == 1 and paths.guarded(ins, tails[0]["node"], lambda f, c, pol: paths.cond_atoms(f, c, pol, subst=False) == ("p", False)), key(ins, "tail"), ins.where(ins.root), "tail pointer is not updated when the new path becomes last")
    # pruning branch: truncation at prev
    tr = [s for s in st.get("prev->next", []) if paths.is_const(ins, s["rhs"], 0)]
    ctx.check(p2, len(tr) == 1 and paths.guarded(ins, tr[0]["node"], lambda f, c, pol: paths.rel(f, c, pol, subst=False) in (("500", "<=", "i"),)), key(ins, "truncate"), ins.where(ins.root), "agenda is truncated outside the `i >= MAX_PATHS` case")
    # n_path bookkeeping
    npi = [s for s in st.get("nbest->n_path", [])]
    ctx.check(p2, sorted((s["op"], ins.canon(s["rhs"], subst=False) if s["rhs"] is not None else "") for s in npi) == [("++", ""), ("=", "500")], key(ins, "n_path"), ins.where(ins.root), "n_path bookkeeping changed")
    nx = lf["astar_next"]
    # popping, path by path over values (symx.run_paths): the path handed out is the head, the agenda
    # continues with its successor, the count goes down once, and a popped tail clears the tail pointer
    from .. import symx, lin
    okpop = oktop = okdec = oktail = True
    npop = 0
    for pt in symx.run_paths(nx, P):
        evs = [ev_ for ev_ in pt.events if ev_[0] == "store" and ev_[1] in ("nbest->top", "nbest->path_list", "nbest->n_path", "nbest->path_tail")]
        for k_, ev_ in enumerate(evs):
            v_ = symx.plain(lin.p_str(ev_[2]))
            if ev_[1] == "nbest->path_list":
                npop += 1
                okpop = okpop and v_ in ("nbest->path_list->next", "nbest->top->next")
                # the head was taken before the agenda moved on, and the count follows
                prior = [x for x in evs[:k_] if x[1] == "nbest->top"]
                oktop = oktop and bool(prior) and symx.plain(lin.p_str(prior[-1][2])) == "nbest->path_list"
                nxt = [x for x in evs[k_:] if x[1] == "nbest->n_path"]
                okdec = okdec and bool(nxt) and symx.plain(lin.p_str(nxt[0][2])) == "-1 + nbest->n_path"
            elif ev_[1] == "nbest->top":
                oktop = oktop and v_ == "nbest->path_list"
            elif ev_[1] == "nbest->path_tail":
                i_ = pt.events.index(ev_)
                oktail = oktail and v_ == "0" and any(x[0] == "branch" and x[1][0] == "==" and "nbest->path_tail" in symx.plain(x[1][1:]) and x[2] for x in pt.events[:i_])
        decs = [x for x in evs if x[1] == "nbest->n_path"]
        okdec = okdec and len(decs) == len([x for x in evs if x[1] == "nbest->path_list"])
    ctx.check(p2, okpop and npop >= 1, key(nx, "pop-head"), nx.where(nx.root), "astar_next does not pop the head of the agenda")
    ctx.check(p2, oktop and npop >= 1, key(nx, "top"), nx.where(nx.root), "the path handed out is not the head of the agenda")
    ctx.check(p2, okdec and npop >= 1, key(nx, "n_path--"), nx.where(nx.root), "popping is not paired with n_path--")
    ctx.check(p2, oktail, key(nx, "tail"), nx.where(nx.root), "the tail pointer is cleared other than when the popped path was the tail")
    # writers of agenda links
    for g in lf.values():
        for s in paths.stores(g):
            if (s["rec"] == "astar_search_s" and s["field"] in ("path_list", "path_tail")) or (s["rec"] == "latpath_s" and s["field"] == "next"):
                ctx.check(p2, g.name in ("path_insert", "astar_next", "astar_search_start"), key(g, "writer:" + s["path"]), g.where(s["node"]), "agenda link `%s` is written outside path_insert / astar_next" % s["path"])
    # completion / extension in astar_next
    okret = okext = True
    nret = next_ = 0
    for pt in symx.run_paths(nx, P):
        tops_ = [ev_ for ev_ in pt.events if ev_[0] == "store" and ev_[1] == "nbest->top"]
        last_top = symx.plain(lin.p_str(tops_[-1][2])) if tops_ else None
        if pt.ret is not None and lin.p_str(pt.ret) != "0":
            nret += 1
            # what is handed out is the path popped last (as a value: through nbest->top or a local copy)
            okret = okret and symx.plain(lin.p_str(pt.ret)) in ("nbest->top", last_top) and last_top == "nbest->path_list"
        for i_, ev_ in enumerate(pt.events):
            if ev_[0] == "call" and ev_[1] == "path_extend":
                next_ += 1
                prior = [x for x in pt.events[:i_] if x[0] == "store" and x[1] == "nbest->top"]
                okext = okext and len(ev_[2]) == 2 and bool(prior) and symx.plain(ev_[2][1]) in ("nbest->top", symx.plain(lin.p_str(prior[-1][2])))
    ctx.check(p2, okret and nret >= 1, key(nx, "return-top"), nx.where(nx.root), "complete hypothesis is not the popped path")
    ctx.check(p2, okext and next_ >= 1, key(nx, "extend-top"), nx.where(nx.root), "the popped path is not the one extended")
    # additive path score
    ns = {s["path"]: ext.canon(s["rhs"], subst=False) for s in paths.stores(ext) if s["path"].startswith("newpath->")}
    want = {"newpath->node": "x->link->to", "newpath->parent": "path", "newpath->score": "(path->score + x->link->ascr)"}
    ctx.check(p2, ns == want, key(ext, "extension"), ext.where(ext.root), "extension is built as %s, expected %s" % (ns, want))
    xs = sorted(ext.canon(s["rhs"], subst=False) for s in paths.stores(ext) if s["path"] == "x")
    ctx.check(p2, xs == ["path->node->exits", "x->next"], key(ext, "successors"), ext.where(ext.root), "extensions are not enumerated from the exits of the path's last node (%s)" % xs)
    # reject only when worse than the tail and the agenda is full
    frees = ext.calls("__listelem_free__")
    for c in frees:
        g = paths.guarded(ext, c, lambda f, cc, pol: paths.rel(f, cc, pol, subst=False) == ("total_score", "<", "tail_score")) and paths.guarded(ext, c, lambda f, cc, pol: paths.rel(f, cc, pol, subst=False) == ("500", "<=", "nbest->n_path"))
        ctx.check(p2, g, key(ext, "reject"), ext.where(c), "an extension is dropped without (agenda full && key < tail key)")
    dead = [c for (s, d, c, pol) in ext.cfg.cond_edges() if pol and paths.rel(ext, c, pol, subst=False) == ("x->link->to->info.rem_score", "<=", "-536870912")]
    ctx.check(p2, len(dead) == 1, key(ext, "dead-end"), ext.where(ext.root), "successors that cannot reach the end (rem_score <= WORST_SCORE) are not skipped")

    # ---- P3 max-merges ------------------------------------------------------------------------
    p3 = ctx.rule("ORDER.P3-best-of", "best-path, best-end and heuristic updates keep the better score and co-update their back-pointer; start links are initialised from their own score and every other link to the minimum", floor=8)
    bp = lf["lattice_bestpath"]
    def merge(fn, target, newval, comp=None, co=None):
        ss = [s for s in paths.stores(fn) if s["path"] == target and s["rhs"] is not None and fn.canon(s["rhs"], subst=False) == newval]
        if len(ss) != 1:
            return False, "expected one `%s = %s`" % (target, newval)
        s = ss[0]
        g = paths.guarded(fn, s["node"], lambda f, c, pol: paths.rel(f, c, pol, subst=False) == (target, "<", comp or newval))
        if not g:
            return False, "`%s = %s` is not under `%s > %s` (max-merge)" % (target, newval, comp or newval, target)
        if co:
            cs = [t for t in paths.stores(fn) if t["path"] == co[0] and t["rhs"] is not None and fn.canon(t["rhs"], subst=False) == co[1] and paths.same_block(fn, t["node"], s["node"])]
            if len(cs) != 1:
                return False, "`%s = %s` is not updated together with the score" % co
        return True, ""
    ok, why = merge(bp, "x->link->path_scr", "score", co=("x->link->best_prev", "link"))
    ctx.check(p3, ok, key(bp, "path_scr"), bp.where(bp.root), why)
    sc = [s for s in paths.stores(bp) if s["path"] == "score"]
    ctx.check(p3, _acc(bp, sc) == lin.p_add(lin.p_atom("link->path_scr"), lin.p_atom("x->link->ascr")), key(bp, "candidate"), bp.where(bp.root), "candidate path score is %s" % [bp.canon(s["rhs"], subst=False) for s in sc])
    ok, why = merge(bp, "bestescr", "x->link->path_scr", co=("bestend", "x->link"))
    ctx.check(p3, ok, key(bp, "bestend"), bp.where(bp.root), why)
    rets = [bp.canon(bp.ch(r)[0], subst=False) for r in bp.find("Return")]
    ctx.check(p3, rets == ["bestend"], key(bp, "return"), bp.where(bp.root), "bestpath returns %s" % rets)
    inits = sorted((s["path"], bp.canon(s["rhs"], subst=False)) for s in paths.stores(bp) if s["path"] in ("x->link->path_scr", "x->link->best_prev") and bp.canon(s["rhs"], subst=False) not in ("score", "link"))
    ctx.check(p3, inits == [("x->link->best_prev", "0"), ("x->link->path_scr", "-2147483648"), ("x->link->path_scr", "x->link->ascr")], key(bp, "init"), bp.where(bp.root), "initialisation of path scores is %s" % inits)
    # start-link init loops over dag->start->exits, end scan over dag->end->entries
    xs = sorted(set(bp.canon(s["rhs"], subst=False) for s in paths.stores(bp) if s["path"] == "x"))
    ctx.check(p3, xs == ["dag->end->entries", "dag->start->exits", "link->to->exits", "node->exits", "x->next"], key(bp, "ranges"), bp.where(bp.root), "link enumerations are %s" % xs)
    br = lf["best_rem_score"]
    ok, why = merge(br, "bestscore", "score")
    ctx.check(p3, ok, key(br, "max"), br.where(br.root), why)
    scs = [s for s in paths.stores(br) if s["path"] == "score"]
    sc = [(s["op"], br.canon(s["rhs"], subst=False)) for s in scs]
    ctx.check(p3, _acc(br, scs) == lin.p_add(lin.p_atom("best_rem_score(nbest, x->link->to)"), lin.p_atom("x->link->ascr")), key(br, "candidate"), br.where(br.root), "heuristic candidate is %s" % sc)
    memo = [s for s in paths.stores(br) if s["path"] == "from->info.rem_score"]
    ctx.check(p3, len(memo) == 1 and br.canon(memo[0]["rhs"], subst=False) == "bestscore", key(br, "memo"), br.where(br.root), "heuristic is not memoised")
    known = [r for r in br.find("Return") if paths.guarded(br, r, lambda f, c, pol: paths.rel(f, c, pol, subst=False) == ("from->info.rem_score", "<=", "0"))]
    ctx.check(p3, len(known) == 1, key(br, "known"), br.where(br.root), "memo test `rem_score <= 0` missing")
    bi = [s for s in paths.stores(br) if s["path"] == "bestscore" and paths.is_const(br, s["rhs"])]
    ctx.check(p3, len(bi) == 1 and br.canon(bi[0]["rhs"]) == "-536870912", key(br, "init"), br.where(br.root), "heuristic does not start from WORST_SCORE")
    ri = sorted((start.canon(s["rhs"], subst=False)) for s in paths.stores(start) if s["path"] == "node->info.rem_score")
    ctx.check(p3, ri == ["-536870912", "0", "1"], key(start, "rem-init"), start.where(start.root), "heuristic defaults are %s (end 0, dead end WORST_SCORE, unknown positive)" % ri)
    for s in paths.stores(start):
        if s["path"] == "node->info.rem_score" and start.canon(s["rhs"], subst=False) == "0":
            ctx.check(p3, paths.guarded(start, s["node"], lambda f, c, pol: paths.rel(f, c, pol, subst=False) in (("dag->end", "==", "node"),)), key(start, "rem-end"), start.where(s["node"]), "remaining score 0 is given to a node other than the end node")
    po = lf["lattice_posterior"]
    ok, why = merge(po, "bestescr", "link->path_scr", co=("bestend", "link"))
    ctx.check(p3, ok, key(po, "bestend"), po.where(po.root), why)

    # ---- P4 traversal twins ------------------------------------------------------------------------
    p4 = ctx.rule("TWIN.P4-traversal", "forward and reverse edge traversals are mirror images (to<->from, exits<->entries, start<->end): fan-in counted per link, an edge's node is expanded only when its count reaches zero", floor=4)
    def mirror(s):
        s = s.replace("->to", "->@T").replace("->from", "->to").replace("->@T", "->from")
        s = s.replace("exits", "@X").replace("entries", "exits").replace("@X", "entries")
        s = s.replace("start", "@S").replace("end", "start").replace("@S", "end")
        return s
    # compared path by path over values (symx.run_paths): the same branch decisions, calls, stores to the
    # lattice and results, up to the to/from mirror; temporaries and merged updates do not matter
    from .. import symx

    def signature(fn, mir):
        M = (lambda x: mirror(x)) if mir else (lambda x: x)
        sig = set()
        for pt in symx.run_paths(fn, P):
            atoms = tuple(sorted((tuple(M(y) if isinstance(y, str) else y for y in k_), v_) for k_, v_ in pt.atoms.items()))
            evs = []
            for ev_ in pt.events:
                if ev_[0] == "call" and ev_[1].startswith("lattice_"):
                    evs.append(("call", ev_[1], tuple(M(a_) for a_ in ev_[2])))
                elif ev_[0] == "store" and any(c_ in ev_[1] for c_ in ("->", "[", ".")):
                    evs.append(("store", M(ev_[1]), M(lin.p_str(ev_[2]))))
                elif ev_[0] == "store" and any(w_ in lin.p_str(ev_[2]) for w_ in ("exits", "entries")):
                    evs.append(("walks", M(lin.p_str(ev_[2]))))     # which adjacency list a local walks
            sig.add((atoms, tuple(evs), M(lin.p_str(pt.ret)) if pt.ret is not None else None))
        return sig
    from .. import lin
    a = signature(lf["lattice_traverse_next"], False)
    bm = signature(lf["lattice_reverse_next"], True)
    ctx.check(p4, a == bm and len(a) >= 3, key(lf["lattice_traverse_next"], "mirror"), lf["lattice_traverse_next"].where(lf["lattice_traverse_next"].root), "forward and reverse `next` differ beyond the to/from mirror: only-forward %s, only-reverse %s" % ([x[1:] for x in sorted(a - bm, key=str)][:2], [x[1:] for x in sorted(bm - a, key=str)][:2]))
    tn = lf["lattice_traverse_next"]
    oktop, npush = True, 0
    for pt in symx.run_paths(tn, P):
        if not any(c_[0] == "lattice_pushq" for c_ in pt.calls):
            continue
        npush += 1
        fan = [(pth, v_) for (pth, v_, n_) in pt.stores if pth.endswith("->to->info.fanin")]
        okp = len(fan) == 1 and fan[0][1] == lin.p_add(lin.p_atom(fan[0][0]), lin.p_const(1), -1) and pt.atoms.get(("nz", lin.p_str(fan[0][1]))) is False
        # the edge's node is decremented before its exits are queued
        if okp:
            order = [ev_[0] + ":" + ev_[1] for ev_ in pt.events if (ev_[0] == "store" and ev_[1] == fan[0][0]) or (ev_[0] == "call" and ev_[1] == "lattice_pushq")]
            okp = order[0].startswith("store:")
        oktop = oktop and okp
    ctx.check(p4, oktop and npush >= 1, key(tn, "topological"), tn.where(tn.root), "a node's exits are queued before all its incoming edges were seen (fan-in not decremented / not tested against 0)")
    te = lf["lattice_traverse_edges"]
    incs = [s for s in paths.stores(te) if s["path"].endswith("info.fanin")]
    ctx.check(p4, sorted((s["path"], s["op"]) for s in incs) == [("node->info.fanin", "="), ("x->link->to->info.fanin", "++")], key(te, "fanin"), te.where(te.root), "fan-in is not reset and counted once per link into its destination (%s)" % [(s["path"], s["op"]) for s in incs])
    # the counts of *other* nodes are incremented, so every count is zeroed before the first increment:
    # the reset may not share a loop with the counting
    rst = [s_ for s_ in incs if s_["op"] == "="]
    cnt = [s_ for s_ in incs if s_["op"] == "++"]
    fused = any(te.enclosing(r_["node"], ("For", "While", "Do")) is not None and c_["node"] in set(te.walk(te.enclosing(r_["node"], ("For", "While", "Do")))) for r_ in rst for c_ in cnt)
    ctx.check(p4, bool(rst) and bool(cnt) and not fused, key(te, "reset-before-count"), te.where(te.root), "fan-in counts are zeroed in the same loop that increments the counts of successor nodes: increments made while visiting nodes earlier in the list are lost, those nodes are never expanded and the traversal (best path, forward pass) dies there")
    re_ = lf["lattice_reverse_edges"]
    incs = [s for s in paths.stores(re_) if s["path"].endswith("info.fanin")]
    ctx.check(p4, sorted((s["path"], s["op"]) for s in incs) == [("node->info.fanin", "++"), ("node->info.fanin", "=")], key(re_, "fanout"), re_.where(re_.root), "fan-out is not reset and counted once per exit (%s)" % [(s["path"], s["op"]) for s in incs])

    for g in (te, re_):
        dq = g.calls("lattice_delq")
        pq = g.calls("lattice_pushq")
        cnt = [s["node"] for s in paths.stores(g) if s["path"].endswith("info.fanin")]
        ok = len(dq) >= 1 and len(pq) >= 1 and all(paths.always_before(g, x, lambda e: e == dq[0]) for x in pq + cnt[:1])
        ctx.check(p4, ok, key(g, "fresh-agenda"), g.where(g.root), "a traversal does not empty the edge agenda before counting and queueing: edges left by an abandoned traversal would be popped again, corrupting fan-in counts, path scores and alphas")
        nx_ = [r for r in g.find("Return")]
        ctx.check(p4, len(nx_) == 1 and g.canon(g.ch(nx_[0])[0], subst=False).startswith("lattice_%s_next(dag, " % ("traverse" if g is te else "reverse")), key(g, "first-edge"), g.where(g.root), "the traversal does not hand out its first edge through the matching next function")

    # ---- P5 scaling term ---------------------------------------------------------------------------------
    p5 = ctx.rule("TWIN.P5-scaling", "alpha, beta, the normaliser and the joint all scale an acoustic score as (int)((ascr << SENSCR_SHIFT) * ascale); alpha and beta accumulate with logmath_add over the same neighbourhoods", floor=5)
    terms = []
    for g in (bp, po, lf["lattice_joint"]):
        for i in g.find("Bin"):
            nd = g.nodes[i]
            if nd["op"] == "*" and "ascale" in g.canon(i, subst=False):
                t = g.canon(i, subst=False)
                t2 = re.sub(r"\(\((?:[\w>.-]+->)?(?:link->)?(ascr|final_node_ascr) << 10\)", "((S << 10)", t)
                t2 = re.sub(r"[\w>.-]+->(ascr|final_node_ascr) << 10", "S << 10", t)
                terms.append((g.name, t2))
    shapes = set(t for (_, t) in terms)
    ctx.check(p5, shapes == {"((S << 10) * ascale)"} and len(terms) >= 5, "scaling:shape", bp.where(bp.root), "scaling terms differ: %s" % sorted(set(terms)))
    al = [s for s in paths.stores(bp) if s["path"] == "x->link->alpha" and "logmath_add" in bp.canon(s["rhs"], subst=False)]
    ctx.check(p5, len(al) == 1 and bp.canon(al[0]["rhs"], subst=False) == "logmath_add(lmath, x->link->alpha, (bprob + link->alpha))", key(bp, "alpha"), bp.where(bp.root), "alpha recurrence is %s" % [bp.canon(s["rhs"], subst=False) for s in al])
    nm = [s for s in paths.stores(bp) if s["path"] == "dag->norm" and "logmath_add" in bp.canon(s["rhs"], subst=False)]
    ctx.check(p5, len(nm) == 1 and bp.canon(nm[0]["rhs"], subst=False) == "logmath_add(lmath, dag->norm, (bprob + x->link->alpha))", key(bp, "norm"), bp.where(bp.root), "normaliser is %s" % [bp.canon(s["rhs"], subst=False) for s in nm])
    be = [s for s in paths.stores(po) if s["path"] == "link->beta" and "logmath_add" in po.canon(s["rhs"], subst=False)]
    okbe = False
    if len(be) == 1:
        call = po.strip(be[0]["rhs"])
        if po.k(call) == "Call":
            aa = po.args(call)
            from .. import lin
            for sub in (False, True):       # the scaled score may sit in a temporary
                pl = lin.poly(po, aa[2], subst=sub)
                mons = sorted(m[0] for m in pl if len(m) == 1 and pl[m] == 1)
                bp_ = lin.poly(po, [i for i in po.walk(aa[2]) if po.k(i) == "DeclRef" and po.nodes[i]["name"] == "bprob"][0], subst=sub) if any(po.k(i) == "DeclRef" and po.nodes[i]["name"] == "bprob" for i in po.walk(aa[2])) else None
                okbe = okbe or (po.canon(aa[1], subst=False) == "link->beta" and bp_ is not None and "x->link->beta" in mons and any("ascale" in " ".join(m) and "x->link->ascr" in " ".join(m) and pl[m] == 1 for m in pl)
                                and lin.p_add(lin.p_add(pl, bp_, -1), lin.p_atom("x->link->beta"), -1) and len(lin.p_add(lin.p_add(pl, bp_, -1), lin.p_atom("x->link->beta"), -1)) == 1)
    ctx.check(p5, okbe, key(po, "beta"), po.where(po.root), "beta recurrence is %s" % [po.canon(s["rhs"], subst=False) for s in be])
    zi = sorted((g.name, s["path"], g.canon(s["rhs"], subst=False)) for g in (bp, po) for s in paths.stores(g) if s["path"] in ("x->link->alpha", "x->link->beta", "dag->norm") and "logmath_get_zero" in g.canon(s["rhs"], subst=False))
    ctx.check(p5, len(zi) == 3, "posterior:zero-init", bp.where(bp.root), "alpha / beta / norm are not initialised to log-zero (%s)" % zi)
    rv = [po.canon(po.ch(r)[0], subst=False) for r in po.find("Return")]
    ctx.check(p5, rv == ["(lattice_joint(dag, bestend, ascale) - dag->norm)"], key(po, "return"), po.where(po.root), "posterior returns %s" % rv)

    # ---- P6 N-best hypothesis string passes -------------------------------------------------------------------
    p6 = ctx.rule("TWIN.P6-hyp-passes", "astar_hyp counts and writes the same words (real words along the parent chain), strlen+1 vs strlen plus guarded separator, into a buffer of the counted size", floor=3)
    ah = lf["astar_hyp"]
    loops = ah.find("For")
    sigs = []
    for l in loops:
        body = ah.ch(l)[3]
        init = ah.canon(ah.ch(l)[0], subst=False)
        step = ah.canon(ah.ch(l)[2], subst=False)
        ws = [ah.canon(ah.ch(v)[0], subst=False) for v in ah.find("Var", root=body) if ah.nodes[v]["name"] == "wstr"]
        gs = sorted(set(paths.cond_atoms(ah, c, pol, subst=False) for (s0, d0, c, pol) in ah.cfg.cond_edges() if pol and ah.enclosing(c, ("For",)) == l and ah.k(ah.strip(c)) != "DeclRef"))
        sigs.append((init, step, ws, gs))
    ctx.check(p6, len(sigs) == 2 and sigs[0][:3] == sigs[1][:3] and sigs[0][0] == "p = path" and sigs[0][1] == "p = p->parent", key(ah, "same-walk"), ah.where(ah.root), "count pass %s and fill pass %s differ" % (sigs[0] if sigs else None, sigs[1] if len(sigs) > 1 else None))
    acc = [s for s in paths.stores(ah) if s["path"] == "len" and s["op"] == "+="]
    ctx.check(p6, len(acc) == 1 and ah.canon(acc[0]["rhs"], subst=False) == "(1 + strlen(wstr))", key(ah, "count"), ah.where(ah.root), "count pass adds %s" % [ah.canon(s["rhs"], subst=False) for s in acc])
    cd = [s for s in paths.stores(ah) if s["path"] == "c"]
    fm = [(s["op"], ah.canon(s["rhs"], subst=False) if s["rhs"] is not None else None) for s in cd]
    ctx.check(p6, fm == [("=", "((hyp + len) - 1)"), ("-=", "len"), ("--", None)], key(ah, "cursor"), ah.where(ah.root), "fill cursor moves as %s" % fm)
    if len(cd) == 3:
        ctx.check(p6, paths.guarded(ah, cd[2]["node"], lambda f, c, pol: paths.rel(f, c, pol, subst=False) == ("hyp", "<", "c")), key(ah, "separator"), ah.where(cd[2]["node"]), "separator written without the `c > hyp` test")
    al = [s for s in paths.stores(ah) if s["path"] == "hyp"]
    ctx.check(p6, len(al) == 1 and ah.canon(al[0]["rhs"], subst=False).startswith("__ckd_calloc__(1, len,"), key(ah, "alloc"), ah.where(ah.root), "buffer is not the counted length")

    # ---- P7 lifetime of partial paths -------------------------------------------------------------------
    p7 = ctx.rule("OWN.P7-path-lifetime", "a partial path that is (or flows into) some path's `parent` stays allocated until astar_finish: no listelem_free on the path allocator releases an expression that reaches a `->parent` store, in the storing function or through the parameter it came in by; hypotheses are back-traced through these pointers", floor=5)
    fns = [f for f in lf.values()]
    sources = {}          # fn name -> {canon: where}
    work = []
    for f in fns:
        for s in paths.stores(f):
            if s["path"].endswith("->parent") and s["rhs"] is not None:
                r = f.canon(s["rhs"], subst=False)
                if r in ("0", "((void *)0)", "NULL"):
                    ctx.check(p7, True, key(f, "parent-null"), f.where(s["node"]), "")
                    continue
                sources.setdefault(f.name, {})[r] = f.where(s["node"])
                work.append((f, r))
                ctx.check(p7, True, key(f, "parent<-%s" % r), f.where(s["node"]), "")
    seen = set()
    while work:
        f, r = work.pop()
        if (f.name, r) in seen:
            continue
        seen.add((f.name, r))
        pidx = [i for i, prm in enumerate(f.params) if prm[0] == r]
        if not pidx:
            continue
        for g in fns:
            for c in g.calls(f.name):
                aa = g.args(c)
                if pidx[0] < len(aa):
                    a = g.canon(aa[pidx[0]], subst=False)
                    sources.setdefault(g.name, {})[a] = g.where(c)
                    work.append((g, a))
    if not sources:
        raise AnalysisIncomplete("no store into a path's parent pointer found")
    nfree = 0
    for f in fns:
        for c in f.calls("__listelem_free__"):
            aa = f.args(c)
            if len(aa) < 2 or not f.canon(aa[0], subst=False).endswith("latpath_alloc"):
                continue
            nfree += 1
            x = f.canon(aa[1], subst=False)
            hit = sources.get(f.name, {}).get(x)
            ctx.check(p7, hit is None, key(f, "free:%s" % x), f.where(c), "`%s` is released here but is also a path's parent (%s): a hypothesis completed later is back-traced through recycled memory" % (x, hit))
    if nfree < 3:
        raise AnalysisIncomplete("releases of partial paths not found (%d)" % nfree)

    # alpha, beta and the normaliser are sums in the log domain: a table entry read through a signed or narrower
    # element type makes a sum smaller than its larger operand and posteriors exceed one (seed C12-11)
    from . import c19
    from ..report import Only
    c19.run(Only(ctx, ("TABLE.width", "GUARD.table-read")))
