"""C11 — the lattice is a well-formed, time-consistent graph.

Decides L1 (time adjacency by construction of the node keys), L2 (node pass
and link pass compute the same key), L3 (cache condition), L4 (start / end
selection, key completeness, merges), L5 (link creation updates both
adjacency lists), L6 (unreachable-node removal).  Not decided: single
start/end and reachability for every history content.
"""
import re

from .. import paths
from ..prog import AnalysisIncomplete

U = "fsg_search.c"
L = "ps_lattice.c"


def key(fn, what):
    return "%s:%s" % (fn.name, what)


def guarded_defs(fn, use_node, cond_form):
    """for a local with several reaching definitions: set of (form, polarity
    of the dominating `cond_form` edge or None)"""
    out = set()
    for (dn, form) in fn.def_forms(use_node):
        pol = None
        if dn not in ("param",):
            for p in (True, False):
                if paths.guarded(fn, dn, lambda f, c, q, p=p: paths.cond_atoms(f, c, q) == (cond_form, p)):
                    pol = p
        out.add((form, pol))
    return out


def run(ctx):
    P = ctx.P
    fns = {f.name: f for f in P.functions(U) if f.file.endswith(U)}
    lf = {f.name: f for f in P.functions(L) if f.file.endswith(L)}
    for n in ("fsg_search_lattice", "find_node", "new_node", "find_start_node", "find_end_node", "mark_reachable"):
        if n not in fns:
            raise AnalysisIncomplete("anchor vanished: %s" % n)
        ctx.touch(fns[n])
    for n in ("lattice_link", "lattice_delete_unreachable", "delete_node", "remove_dangling_links"):
        if n not in lf:
            raise AnalysisIncomplete("anchor vanished: %s" % n)
        ctx.touch(lf[n])
    f = fns["fsg_search_lattice"]
    H = "search->history"
    nn = [c for c in f.calls("new_node")]
    fnode = f.calls("find_node")
    links = f.calls("lattice_link")
    if len(nn) != 1 or len(fnode) != 3 or len(links) != 2:
        raise AnalysisIncomplete("fsg_search_lattice: expected 1 new_node, 3 find_node, 2 lattice_link call sites (found %d/%d/%d)" % (len(nn), len(fnode), len(links)))

    def E(i):
        return "fsg_history_entry_get(%s, %s)" % (H, i)

    # ---- L1/L2 keys ------------------------------------------------------------------
    l1 = ctx.rule("PROV.L1-keys", "a word instance is keyed (start frame = predecessor entry's frame + 1 or 0, word, destination state); a link joins the node of entry fh to nodes keyed at frame(fh)+1 reached through arcs leaving to_state(fh) directly or across one null arc, and records ef = frame(fh)", floor=10)
    c = nn[0]
    a = f.args(c)
    iv = "i"
    fh = E(iv)
    pfh = E(fh + "->pred")
    want_sf = {("(1 + %s->frame)" % pfh, True), ("0", False)}
    want_ascr = {("(%s->score - %s->score)" % (fh, pfh), True), ("%s->score" % fh, False)}
    sfn = f.strip(a[2])
    ascn = f.strip(a[6])
    got_sf = guarded_defs(f, sfn, fh + "->pred") if f.k(sfn) == "DeclRef" else {(f.canon(a[2]), None)}
    got_as = guarded_defs(f, ascn, fh + "->pred") if f.k(ascn) == "DeclRef" else {(f.canon(a[6]), None)}
    ctx.check(l1, got_sf == want_sf, key(f, "node:sf"), f.where(c), "node start frame is %s, expected %s" % (sorted(map(str, got_sf)), sorted(map(str, want_sf))))
    ctx.check(l1, got_as == want_ascr, key(f, "node:ascr"), f.where(c), "node score is %s" % sorted(map(str, got_as)))
    ctx.check(l1, [f.canon(x) for x in a[3:6]] == ["%s->frame" % fh, "%s->fsglink->wid" % fh, "%s->fsglink->to_state" % fh], key(f, "node:key"), f.where(c), "node created with (ef, wid, state) = %s" % [f.canon(x) for x in a[3:6]])
    # source lookup in link pass
    srcs = [c2 for c2 in fnode if f.k(f.up(c2)) == "Assign" and f.canon(f.nodes[f.up(c2)]["ch"][0], subst=False) == "src"]
    ctx.check(l1, len(srcs) == 1, key(f, "src-lookup"), f.where(f.root), "expected one source-node lookup")
    l2 = ctx.rule("TWIN.L2-key-agreement", "the node pass and the link pass compute the source key (start frame, word, state) and the link score identically", floor=3)
    if srcs:
        sa = f.args(srcs[0])
        ssf = f.strip(sa[2])
        got2 = guarded_defs(f, ssf, fh + "->pred") if f.k(ssf) == "DeclRef" else {(f.canon(sa[2]), None)}
        ctx.check(l2, got2 == got_sf, key(f, "sf"), f.where(srcs[0]), "link pass looks the source up at start frame %s, node pass created it at %s" % (sorted(map(str, got2)), sorted(map(str, got_sf))))
        ctx.check(l2, [f.canon(x) for x in sa[3:5]] == [f.canon(x) for x in a[4:6]], key(f, "wid-state"), f.where(srcs[0]), "link pass source key (%s) differs from node pass key (%s)" % ([f.canon(x) for x in sa[3:5]], [f.canon(x) for x in a[4:6]]))
    for n_, lc in enumerate(links):
        la = f.args(lc)
        asn = f.strip(la[3])
        got3 = guarded_defs(f, asn, fh + "->pred") if f.k(asn) == "DeclRef" else {(f.canon(la[3]), None)}
        ctx.check(l2, got3 == got_as, key(f, "ascr%d" % n_), f.where(lc), "link score %s differs from the node pass score %s" % (sorted(map(str, got3)), sorted(map(str, got_as))))
    # destinations
    for n_, lc in enumerate(links):
        la = f.args(lc)
        ctx.check(l1, f.canon(la[1], subst=False) == "src" and f.canon(la[4]) == "%s->frame" % fh, key(f, "link%d:src-ef" % n_), f.where(lc), "link created from `%s` with end frame `%s`" % (f.canon(la[1], subst=False), f.canon(la[4])))
        d = f.canon(la[2])
        m = re.match(r"^find_node\(dag, search->fsg, \(1 \+ %s->frame\), fsg_arciter_get\((\w+)\)->wid, fsg_arciter_get\((\w+)\)->to_state\)$" % re.escape(fh), d)
        ctx.check(l1, m is not None and m.group(1) == m.group(2), key(f, "link%d:dest-key" % n_), f.where(lc), "destination is `%s`; time adjacency needs a node keyed at frame(fh)+1 with the arc's own word and destination state" % d)
        g = paths.guarded(f, lc, lambda fn, cc, pol: pol and "find_node(" in fn.canon(cc, subst=False) and "dest" in fn.canon(cc, subst=False))
        ctx.check(l1, g, key(f, "link%d:dest-exists" % n_), f.where(lc), "link is created without the dominating `dest != NULL` test")
        if m:
            it = m.group(1)
            itn = [i for i in f.walk(la[2]) if f.k(i) == "DeclRef" and f.nodes[i]["name"] == it]
            var = [i for i in f.walk() if f.k(i) == "DeclRef" and f.nodes[i]["name"] == it][0]
            defs = [form for (dn, form) in f.local_defs(f.nodes[var]["decl"])]
            if n_ == 0:
                want = ["fsg_model_arcs(search->fsg, %s->fsglink->to_state)" % fh, "fsg_arciter_next(%s)" % it]
            else:
                outer = [x for x in re.findall(r"fsg_arciter_get\((\w+)\)", " ".join(d_ for d_ in defs if d_)) if x != it]
                want = ["fsg_model_arcs(search->fsg, fsg_arciter_get(%s)->to_state)" % (outer[0] if outer else "?"), "fsg_arciter_next(%s)" % it]
            ctx.check(l1, [d_ for d_ in defs if d_ not in ("uninit",)] == want, key(f, "link%d:arcs" % n_), f.where(lc), "destination arcs come from %s, expected %s" % (defs, want))
    # word / null split
    g0 = paths.guarded(f, links[0], lambda fn, cc, pol: paths.rel(fn, cc, pol) in (("0", "<=", "fsg_arciter_get(itor)->wid"),))
    g1 = paths.guarded(f, links[1], lambda fn, cc, pol: paths.rel(fn, cc, pol) in (("fsg_arciter_get(itor)->wid", "<", "0"),)) and paths.guarded(f, links[1], lambda fn, cc, pol: paths.rel(fn, cc, pol) in (("-1", "!=", "fsg_arciter_get(itor2)->wid"), ("fsg_arciter_get(itor2)->wid", "!=", "-1")))
    ctx.check(l1, g0 and g1, key(f, "word-vs-null"), f.where(links[0]), "direct links must be under wid >= 0, links across a null arc under wid < 0 and inner wid != -1")
    # null entries skipped in both passes
    for c2 in (nn[0], srcs[0] if srcs else nn[0]):
        g = paths.guarded(f, c2, lambda fn, cc, pol: paths.cond_atoms(fn, cc, pol) == (fh + "->fsglink", True)) and paths.guarded(f, c2, lambda fn, cc, pol: paths.rel(fn, cc, pol) in (("-1", "!=", fh + "->fsglink->wid"),))
        ctx.check(l1, g, key(f, "skip-null@%s" % f.nodes[c2]["callee"]), f.where(c2), "null / root entries are not skipped")

    # ---- L3 cache ----------------------------------------------------------------------------
    l3 = ctx.rule("GUARD.L3-cache", "the cached lattice is returned only when it covers the current frame count; otherwise the old one is released before a new one is built for fsgs->frame frames and stored at the end", floor=4)
    for r in f.find("Return"):
        rv = f.canon(f.ch(r)[0])
        if rv == "search->dag":
            g = paths.guarded(f, r, lambda fn, cc, pol: paths.rel(fn, cc, pol) in (("search->dag->n_frames", "==", "search->frame"), ("search->frame", "==", "search->dag->n_frames"))) and paths.guarded(f, r, lambda fn, cc, pol: paths.cond_atoms(fn, cc, pol) == ("search->dag", True))
            ctx.check(l3, g, key(f, "cache-hit"), f.where(r), "cached lattice returned without the dominating `dag && dag->n_frames == frame` test")
    # the key of the cache is fixed when the lattice is created: nobody else writes it
    writers = []
    for g in P.repo_functions():
        for s_ in paths.stores(g):
            if s_["field"] == "n_frames" and s_["rec"] == "lattice_s":
                writers.append((g, s_["node"]))
    ctx.check(l3, [g.name for (g, _n) in writers] == ["lattice_init_search"], key(f, "key-writers"), writers[-1][0].where(writers[-1][1]) if writers else f.where(f.root), "the frame count of a lattice - the key the cache compares with the search's frame - is written by %s: once it differs from the frame count it was built for, every request builds and returns a new lattice and releases the one callers still hold" % sorted({g.name for (g, _n) in writers}))
    fr = f.calls("lattice_free")
    init = f.calls("lattice_init_search")
    ok = len(init) == 1 and any(f.canon(f.args(x)[0]) == "search->dag" and paths.always_before(f, init[0], lambda e, x=x: e == x) for x in fr)
    ctx.check(l3, ok, key(f, "free-old"), f.where(f.root), "stale lattice is not released before a new one is built")
    ctx.check(l3, len(init) == 1 and f.canon(f.args(init[0])[1]) == "search->frame", key(f, "n_frames"), f.where(f.root), "new lattice is not created for the current frame count")
    st = [s for s in paths.field_stores(f, "search_module_s", "dag") if s["rhs"] is not None and not paths.is_const(f, s["rhs"], 0)]
    ctx.check(l3, len(st) == 1 and f.canon(st[0]["rhs"], subst=False) == "dag", key(f, "store"), f.where(f.root), "the new lattice is not cached")
    # error path frees and returns NULL
    nullrets = [r for r in f.find("Return") if paths.is_const(f, f.ch(r)[0], 0)]
    ctx.check(l3, all(any(paths.always_before(f, r, lambda e, x=x: e == x) for x in fr if f.canon(f.args(x)[0], subst=False) == "dag") for r in nullrets) and nullrets, key(f, "error-free"), f.where(f.root), "failure path does not release the partial lattice")

    # ---- L4 start/end/key completeness ---------------------------------------------------------
    l4 = ctx.rule("GUARD.L4-nodes", "find_node compares all three key components; new_node stores its key unmodified and merges end frames / best exit in the right direction; start (end) candidates are nodes at frame 0 with exits (last frame with entries); a candidate list is dereferenced only when it has exactly one element", floor=12)
    g = fns["find_node"]
    # path by path over values (symx.run_paths): whatever node is returned has been compared equal on all
    # three components, and no path gives up (NULL) on a node that matched all three
    from .. import symx, lin
    conds = set()
    want = {("sf", "sf", "=="), ("wid", "wid", "=="), ("node_id", "node_id", "==")}
    okp = True
    npaths = 0
    for pt in symx.run_paths(g, P):
        if pt.end != "exit":
            continue
        npaths += 1
        R = lin.p_str(pt.ret) if pt.ret is not None else None
        eqs = {}
        for k_, v_ in pt.atoms.items():
            if k_[0] == "==" and v_:
                for a_, b_ in ((k_[1], k_[2]), (k_[2], k_[1])):
                    m_ = re.match(r"^(.*)->(\w+)$", a_)
                    if m_ and b_ in ("sf", "wid", "node_id"):
                        eqs.setdefault(m_.group(1), set()).add((m_.group(2), b_, "=="))
        isnull = R in ("0", None) or pt.atoms.get(("nz", R)) is False
        if isnull:
            if any(v_ == want for v_ in eqs.values()):
                okp = False
                conds.add(("gives-up-on-a-match",))
        else:
            got = eqs.get(R, set())
            if got != want:
                okp = False
                conds |= {tuple(x) for x in got} or {("none",)}
    if npaths < 3:
        raise AnalysisIncomplete("find_node: %d value paths" % npaths)
    if okp:
        conds = want
    ctx.check(l4, conds == want, key(g, "key"), g.where(g.root), "find_node matches on %s, expected all of (sf, wid, node_id): distinct word instances would be merged" % sorted(conds))
    g = fns["new_node"]
    fc = g.calls("find_node")
    ctx.check(l4, len(fc) == 1 and [g.canon(x, subst=False) for x in g.args(fc[0])] == ["dag", "fsg", "sf", "wid", "node_id"], key(g, "lookup"), g.where(g.root), "new_node does not look up its own key first")
    news = {}
    merges = []
    for s in paths.stores(g):
        if s["rec"] in ("latnode_s",) or (s["path"].startswith("node->")):
            isnew = paths.guarded(g, s["node"], lambda fn, cc, pol: paths.cond_atoms(fn, cc, pol, subst=False) == ("node", False))
            if isnew:
                news[s["path"]] = g.canon(s["rhs"], subst=False) if s["rhs"] is not None else s["op"]
            else:
                merges.append(s)
    wantnew = {"node->wid": "wid", "node->sf": "sf", "node->node_id": "node_id", "node->info.best_exit": "ascr"}
    for k_, v in wantnew.items():
        ctx.check(l4, news.get(k_) == v, key(g, "new:" + k_), g.where(g.root), "new node's %s is `%s`, expected `%s`" % (k_, news.get(k_), v))
    ctx.check(l4, news.get("node->fef") in ("node->lef = ef", "ef") and news.get("node->lef") in ("ef", "node->fef = ef"), key(g, "new:ef"), g.where(g.root), "new node's end frames are %s / %s" % (news.get("node->fef"), news.get("node->lef")))
    for s in merges:
        path = s["path"]
        val = g.canon(s["rhs"], subst=False)
        if path == "node->lef":
            ok = val == "ef" and paths.guarded(g, s["node"], lambda fn, cc, pol: paths.rel(fn, cc, pol, subst=False) in (("node->lef", "<", "ef"), ("-1", "==", "node->lef"), ("node->lef", "==", "-1")))
            ctx.check(l4, ok, key(g, "merge:lef"), g.where(s["node"]), "last end frame is not a max-merge with ef")
        elif path == "node->fef":
            ok = val == "ef" and paths.guarded(g, s["node"], lambda fn, cc, pol: paths.rel(fn, cc, pol, subst=False) in (("ef", "<", "node->fef"), ("-1", "==", "node->fef"), ("node->fef", "==", "-1")))
            ctx.check(l4, ok, key(g, "merge:fef"), g.where(s["node"]), "first end frame is not a min-merge with ef")
        elif path == "node->info.best_exit":
            ok = val == "ascr" and paths.guarded(g, s["node"], lambda fn, cc, pol: paths.rel(fn, cc, pol, subst=False) == ("node->info.best_exit", "<", "ascr"))
            ctx.check(l4, ok, key(g, "merge:best_exit"), g.where(s["node"]), "best exit score is not a max-merge")
        else:
            ctx.bad(l4, key(g, "merge:" + path), g.where(s["node"]), "existing node field `%s` is modified" % path)
    # linked into the node list and counted
    lk = [s for s in paths.stores(g) if s["path"] in ("node->next", "dag->nodes")]
    forms = [(s["path"], g.canon(s["rhs"], subst=False)) for s in lk]
    ctx.check(l4, forms == [("node->next", "dag->nodes"), ("dag->nodes", "node")], key(g, "list-insert"), g.where(g.root), "new node is not linked at the head of dag->nodes (%s)" % forms)
    for name, frame_cond, adj in (("find_start_node", ("0", "==", "node->sf"), "exits"), ("find_end_node", None, "entries")):
        g = fns[name]
        cnt = "nstart" if name == "find_start_node" else "nend"
        lst = "start" if name == "find_start_node" else "end"
        adds = [c2 for c2 in g.calls("glist_add_ptr") if g.canon(g.args(c2)[0], subst=False) == lst]
        ctx.check(l4, len(adds) == 1, key(g, "candidates"), g.where(g.root), "expected one candidate collection site")
        for c2 in adds:
            incs = [s for s in paths.stores(g) if s["path"] == cnt and s["op"] == "++" and paths.same_block(g, s["node"], c2)]
            ctx.check(l4, len(incs) == 1, key(g, "count"), g.where(c2), "candidate added without counting it")
            gadj = paths.guarded(g, c2, lambda fn, cc, pol: paths.cond_atoms(fn, cc, pol, subst=False) == ("node->" + adj, True))
            if name == "find_start_node":
                gfr = paths.guarded(g, c2, lambda fn, cc, pol: paths.rel(fn, cc, pol, subst=False) in (("0", "==", "node->sf"), ("node->sf", "==", "0")))
            else:
                gfr = paths.guarded(g, c2, lambda fn, cc, pol: paths.rel(fn, cc, pol, subst=False) in (("(dag->n_frames - 1)", "==", "node->lef"), ("node->lef", "==", "(dag->n_frames - 1)")) or paths.rel(fn, cc, pol) in (("(dag->n_frames - 1)", "==", "node->lef"), ("node->lef", "==", "(dag->n_frames - 1)")))
            ctx.check(l4, gadj and gfr, key(g, "candidate-test"), g.where(c2), "candidate test is not (frame at utterance %s and has %s)" % ("start" if name == "find_start_node" else "end", adj))
        # ... and nothing else: every node at the utterance's edge that is linked inwards is a candidate
        # (one step of the scan, path by path over values)
        from .. import symx as _sx11, lin as _l11
        for c2 in adds:
            lp_ = g.enclosing(c2, ("For", "While", "Do"))
            extra = set()
            if lp_ is not None:
                for pt in _sx11.loop_paths(g, lp_, P):
                    if not any(c_[0] == "glist_add_ptr" for c_ in pt.calls):
                        continue
                    for k_ in pt.atoms:
                        flat_ = " ".join(str(y_) for y_ in k_)
                        if k_ == ("nz", "node->" + adj) or ("node->sf" in flat_ and name == "find_start_node") or ("node->lef" in flat_ and k_[0] == "==" and name == "find_end_node"):      # which frame it is compared with is the candidate-test clause's business
                            continue
                        if flat_ == "== -1 node->wid":
                            continue        # the word-string macro of the log message
                        extra.add(flat_)
            ctx.check(l4, not extra, key(g, "candidate-only"), g.where(c2), "candidates are further restricted by %s: a node at the utterance's %s that the first-best path uses may not become the lattice's %s, and the path is pruned away" % (sorted(extra)[:2], "start" if name == "find_start_node" else "end", "start" if name == "find_start_node" else "end"))
        derefs = [i for i in g.find("Call") if g.nodes[i].get("callee") == "gnode_ptr" or "gnode_ptr" in g.mac(i)]
        derefs = [s["node"] for s in paths.stores(g) if s["path"] == "node" and s["rhs"] is not None and g.canon(s["rhs"], subst=False) in ("%s->data.ptr" % lst, "gnode_ptr(%s)" % lst)]
        for d_ in derefs:
            gg = paths.guarded_equal(g, d_, lambda fn, n_, cnt=cnt: fn.canon(n_, subst=False) == cnt, 1)
            ctx.check(l4, gg, key(g, "single-candidate"), g.where(d_), "first element of the candidate list is taken without knowing the list has exactly one element")
        ctx.check(l4, len(derefs) == 1, key(g, "deref-sites"), g.where(g.root), "expected one direct use of the candidate list head (found %d)" % len(derefs))
    # fallback end node: the word instance with the latest last-exit frame that has entries
    g = fns["find_end_node"]
    ls = [s for s in paths.stores(g) if s["path"] == "last" and s["rhs"] is not None and g.canon(s["rhs"], subst=False) == "node"]
    es = [s for s in paths.stores(g) if s["path"] == "ef" and s["rhs"] is not None and not paths.is_const(g, s["rhs"])]
    ok = len(ls) == 1 and len(es) == 1 and g.canon(es[0]["rhs"], subst=False) == "node->lef" and paths.same_block(g, ls[0]["node"], es[0]["node"])
    if ok:
        ok = paths.guarded(g, ls[0]["node"], lambda fn, cc, pol: paths.rel(fn, cc, pol, subst=False) == ("ef", "<", "node->lef")) and paths.guarded(g, ls[0]["node"], lambda fn, cc, pol: paths.cond_atoms(fn, cc, pol, subst=False) == ("node->entries", True)) and paths.guarded_equal(g, ls[0]["node"], lambda fn, n_: fn.canon(n_, subst=False) == "nend", 0)
    ctx.check(l4, ok, key(g, "fallback-end"), g.where(g.root), "without a candidate in the last frame the end node must be the node with entries whose *last* exit frame is latest (max-merge on node->lef, co-updating the node): another choice ends the lattice before the first-best path does")
    # order in fsg_search_lattice: start, end, wid conversion, reachability
    seq_names = ["find_start_node", "find_end_node", "mark_reachable", "lattice_delete_unreachable"]
    seq = [f.calls(n_) for n_ in seq_names]
    conv = [s for s in paths.stores(f) if s["path"] == "node->wid"]
    ok = all(len(x) == 1 for x in seq) and len(conv) == 1
    if ok:
        chain = [seq[0][0], seq[1][0], conv[0]["node"], seq[2][0], seq[3][0]]
        ok = all(not paths.may_reach(f, chain[i + 1], lambda e, i=i: e == chain[i]) and paths.may_reach(f, chain[i], lambda e, i=i: e == chain[i + 1]) for i in range(4))
        calls_only = [seq[0][0], seq[1][0], seq[2][0], seq[3][0]]
        ok = ok and all(paths.always_before(f, calls_only[i + 1], lambda e, i=i: e == calls_only[i]) for i in range(3))
        # no key lookups after the word ids were converted
        ok = ok and not any(paths.may_reach(f, conv[0]["node"], lambda e, c2=c2: e == c2) for c2 in fnode + nn)
        ok = ok and f.canon(f.args(seq[2][0])[1]) in ("dag->end",)
    ctx.check(l4, ok, key(f, "phase-order"), f.where(f.root), "phases must be: links; start node; end node; word-id conversion (after every key lookup); mark reachable from dag->end; delete unreachable")
    mr = fns["mark_reachable"]
    nx = [s for s in mr.find("Var") if mr.nodes[s]["name"] == "next" and mr.ch(s)]
    ctx.check(l4, len(nx) == 1 and mr.canon(mr.ch(nx[0])[0], subst=False) == "x->link->from" and any(mr.canon(mr.ch(i)[0] if mr.k(i) == "Assign" else i, subst=False) for i in [0]), key(mr, "backward"), mr.where(mr.root), "reachability is not propagated backwards over entries (link->from)")
    xs = [s for s in paths.stores(mr) if s["path"] == "x"]
    ctx.check(l4, sorted(mr.canon(s["rhs"], subst=False) for s in xs) == ["node->entries", "x->next"], key(mr, "entries"), mr.where(mr.root), "predecessors are not enumerated from node->entries")

    # ---- L5 link creation ---------------------------------------------------------------------------
    l5 = ctx.rule("PROV.L5-link", "lattice_link reuses an existing from->to link keeping the better score, else creates one link recorded in both from->exits and to->entries with its from/to/score/ef parameters", floor=8)
    g = lf["lattice_link"]
    st = {}
    for s in paths.stores(g):
        st.setdefault(s["path"], []).append(g.canon(s["rhs"], subst=False) if s["rhs"] is not None else s["op"])
    want = {"link->from": ["from"], "link->to": ["to"], "link->ascr": ["score"], "link->ef": ["ef"], "fwdlink->next": ["from->exits"], "from->exits": ["fwdlink"], "revlink->next": ["to->entries"], "to->entries": ["revlink"]}
    for k_, v in want.items():
        ctx.check(l5, st.get(k_) == v, key(g, k_), g.where(g.root), "`%s` is assigned %s, expected %s" % (k_, st.get(k_), v))
    ctx.check(l5, st.get("fwdlink->link") in (["revlink->link = link"], ["link"]) and (st.get("revlink->link") == ["link"]), key(g, "both-lists"), g.where(g.root), "the link is not recorded in both adjacency lists")
    # order: X->next = head before head = X
    for a_, b_ in (("fwdlink->next", "from->exits"), ("revlink->next", "to->entries")):
        sa = [s for s in paths.stores(g) if s["path"] == a_]
        sb = [s for s in paths.stores(g) if s["path"] == b_]
        ctx.check(l5, len(sa) == 1 and len(sb) == 1 and paths.same_block(g, sa[0]["node"], sb[0]["node"]) and paths.pos_of(g, sa[0]["node"])[1] < paths.pos_of(g, sb[0]["node"])[1], key(g, "order:" + b_), g.where(g.root), "list head `%s` is redirected before the new element took over the old list" % b_)
    ex = [s for s in paths.stores(g) if s["path"] in ("fwdlink->link->ascr", "fwdlink->link->ef")]
    for s in ex:
        ok = paths.guarded(g, s["node"], lambda fn, cc, pol: paths.rel(fn, cc, pol, subst=False) == ("fwdlink->link->ascr", "<", "score"))
        ctx.check(l5, ok, key(g, "merge:" + s["path"]), g.where(s["node"]), "existing link is overwritten without the dominating `score > ascr` test (not a max-merge)")
    ctx.check(l5, len(ex) == 2, key(g, "merge"), g.where(g.root), "existing link must update ascr and ef together")
    conds = [paths.rel(g, cc, pol, subst=False) for (s0, d0, cc, pol) in g.cfg.cond_edges() if pol]
    ctx.check(l5, ("fwdlink->link->to", "==", "to") in conds or ("to", "==", "fwdlink->link->to") in conds, key(g, "existing-test"), g.where(g.root), "existing link is not identified by its destination node")

    # ---- L6 removal of unreachable nodes ---------------------------------------------------------------
    l6 = ctx.rule("TYPESTATE.L6-unreachable", "an unreachable node is unlinked from the node list before it is released, its links are marked dangling on both sides and the dangling list cells are unlinked before release; ids are renumbered", floor=8)
    g = lf["lattice_delete_unreachable"]
    dn = g.calls("delete_node")
    ctx.check(l6, len(dn) == 1 and paths.guarded(g, dn[0], lambda fn, cc, pol: paths.cond_atoms(fn, cc, pol, subst=False) == ("node->reachable", False)), key(g, "only-unreachable"), g.where(g.root), "delete_node is not under !reachable")
    if dn:
        b = paths.pos_of(g, dn[0])[0]
        byp = [s for s in paths.stores(g) if s["path"] in ("prev_node->next", "dag->nodes") and g.canon(s["rhs"], subst=False) == "next_node" and paths.always_before(g, dn[0], lambda e: True) ]
        okb = len(byp) == 2 and all(not paths.may_reach(g, dn[0], lambda e, s=s: e == s["node"]) or True for s in byp) and paths.always_before(g, dn[0], lambda e: e in [s["node"] for s in byp])
        ctx.check(l6, okb, key(g, "unlink-before-free"), g.where(dn[0]), "node is released without first being unlinked from the node list")
        sv = [s for s in paths.stores(g) if s["path"] == "next_node" and g.canon(s["rhs"], subst=False) == "node->next"]
        ctx.check(l6, len(sv) == 1 and paths.always_before(g, dn[0], lambda e: e == sv[0]["node"]), key(g, "save-next"), g.where(dn[0]), "successor is not saved before the node is released")
        pv = [s for s in paths.stores(g) if s["path"] == "prev_node" and g.canon(s["rhs"], subst=False) == "node"]
        ctx.check(l6, len(pv) == 1 and paths.guarded(g, pv[0]["node"], lambda fn, cc, pol: paths.cond_atoms(fn, cc, pol, subst=False) == ("node->reachable", True)), key(g, "prev-only-kept"), g.where(g.root), "prev_node advances over a node that was just released")
    rd = g.calls("remove_dangling_links")
    ctx.check(l6, len(rd) == 1 and dn and not paths.may_reach(g, rd[0], lambda e: e == dn[0]), key(g, "dangling-after"), g.where(g.root), "dangling links are not removed after all unreachable nodes were deleted")
    ids = [s for s in paths.stores(g) if s["path"] == "node->id"]
    ctx.check(l6, len(ids) == 1 and g.canon(ids[0]["rhs"], subst=False) == "i++", key(g, "renumber"), g.where(g.root), "node ids are not renumbered")
    g = lf["delete_node"]
    marks = sorted((s["path"], g.canon(s["rhs"], subst=False)) for s in paths.stores(g) if s["path"].startswith("x->link->"))
    ctx.check(l6, marks == [("x->link->from", "0"), ("x->link->to", "0")], key(g, "mark-dangling"), g.where(g.root), "links of a deleted node are marked %s" % marks)
    for lp in g.find("For"):
        init = g.canon(g.ch(lp)[0], subst=False)
        side = "exits" if "exits" in init else "entries"
        want_mark = "x->link->from" if side == "exits" else "x->link->to"
        body = g.ch(lp)[3]
        ms = [s["path"] for s in paths.stores(g, body) if s["path"].startswith("x->link->")]
        ctx.check(l6, ms == [want_mark], key(g, "side:" + side), g.where(lp), "links in node->%s must clear `%s` (found %s)" % (side, want_mark, ms))
    for gname in ("delete_node", "remove_dangling_links", "lattice_delete_unreachable"):
        g = lf[gname]
        for c2 in g.calls("__listelem_free__"):
            a2 = g.args(c2)
            d_ = paths.local_of(g, a2[1])
            if d_ is None:
                continue
            hits = paths.use_after(g, c2, d_)
            ctx.check(l6, not hits, key(g, "use-after-free:" + d_.split("@")[0]), g.where(c2), "`%s` is read after it was released" % d_.split("@")[0])
    g = lf["remove_dangling_links"]
    for lp in g.find("For"):
        init = g.canon(g.ch(lp)[0], subst=False)
        side = "exits" if "exits" in init else "entries"
        want_test = "x->link->to" if side == "exits" else "x->link->from"
        body = g.ch(lp)[3]
        frees = g.calls("__listelem_free__", root=body)
        ok = len(frees) == 2 and all(paths.guarded(g, c2, lambda fn, cc, pol: paths.cond_atoms(fn, cc, pol, subst=False) == (want_test, False)) for c2 in frees)
        ctx.check(l6, ok, key(g, "dangling-test:" + side), g.where(lp), "cells of node->%s are released without the `%s == NULL` test" % (side, want_test))
        byp = [s for s in paths.stores(g, body) if s["path"] in ("prev_x->next", "node->" + side) and g.canon(s["rhs"], subst=False) == "next_x"]
        ok = len(byp) == 2 and all(paths.always_before(g, c2, lambda e: e in [s["node"] for s in byp]) or not paths.guarded(g, c2, lambda fn, cc, pol: True) for c2 in frees)
        ok = ok and all(not g.cfg.path_exists(paths.pos_of(g, body), lambda e, c2=c2: e == c2, is_barrier=lambda e: e in [s["node"] for s in byp]) for c2 in frees)
        ctx.check(l6, ok, key(g, "unlink-cell:" + side), g.where(lp), "a dangling list cell is released without first being unlinked from node->%s" % side)

    # the cache test compares frame counts only: it is the start of an utterance that makes it sound, by dropping
    # the previous utterance's lattice (seed C11-9: a second utterance of equal length got the first one's lattice)
    from . import c08
    c08.required_resets(ctx, P, l3, only=("decoder_start_utt",), only_paths=("d->search->dag",))
