"""C18 — features and scores stay finite and within range.

Decided (structural necessary conditions):
  N1 LOG.floor     every logarithm taken on the decode path of the front end
                   has a positive constant floor added to its argument
  N2 DIV.state     every floating-point division on the decode path of the
                   front end / normalisation code whose denominator is run-time
                   state (a field that decode-time code stores) is dominated,
                   after the last store to that state, by a test that the
                   denominator is positive - in the function itself, or at every
                   call site when the function is file-local
  N3 CAST.range    every float -> int conversion of a Gaussian density in the
                   scorers is dominated by the lower-range test against
                   MAX_NEG_INT32 on the same value
  N4 CLAMP.upper   every normalised density / senone score passes its upper
                   clamp (MAX_NEG_ASCR, 32767) before it is used
  N5 NORM.frame    the scorers normalise on every frame that writes densities:
                   between any write of the top-N store and the senone
                   evaluation the normaliser is passed; the best senone score is
                   tracked for every stored score and subtracted from all
  N6 VIT.W         (shared with C02) every HMM state score passes the
                   WORST_SCORE clamp; the aligner renormalises before the best
                   score can reach WORST_SCORE and hmm_normalize leaves floor
                   scores alone
  N7 REPR          the textual export of the channel mean is sized and written
                   by the same format over the same values, and the separator
                   it writes is the one the import splits on; import stores
                   are bounded by the vector length
Not decided: that arithmetic on finite inputs yields finite outputs in general
(overflow of float32 on 16-bit audio is out of reach of these rules), exact
round-trip equality of the text form (numerical).
"""
import re

from .. import paths, vit
from ..prog import AnalysisIncomplete

FIXTURES = ["vit_fx.c"]

FE_UNITS = ("cmn.c", "cmn_live.c", "fe_noise.c", "fe_sigproc.c", "fe_interface.c", "feat.c")
SCORER_UNITS = ("ptm_mgau.c", "s2_semi_mgau.c", "ms_senone.c", "ms_mgau.c", "ms_gauden.c")
DECODE_ROOTS = ("decoder_process_int16", "decoder_process_float32", "decoder_end_utt", "decoder_start_utt",
                "decoder_get_cmn", "decoder_set_cmn", "fe_process_int16", "fe_process_float32", "fe_end",
                "acmod_process_raw", "acmod_process_float32", "acmod_process_cep", "acmod_score", "acmod_end_utt",
                "feat_s2mfc2feat_live", "feat_update_stats")
# functions on the call graph below the roots that only run while an object is
# being built (reached through decoder_reinit-like paths): their stores do not
# make a field "run-time state"
INIT_ONLY = re.compile(r"(_init|_init_[a-z0-9_]+|_reinit|_create_[a-z_]+|_build_[a-z_]+|_parse_[a-z_]+|_read|_load)$")

FLOAT_T = ("float", "double", "long double")


def key(fn, what):
    return "%s:%s" % (fn.name, what)


def unit_of(fn):
    return fn.relfile().split("/")[-1]


def is_float_div(fn, i):
    nd = fn.nodes[i]
    if nd["k"] == "Bin" and nd["op"] == "/":
        pass
    elif nd["k"] == "CompoundAssign" and nd["op"] == "/=":
        pass
    else:
        return False
    # operand types after the usual conversions: the result (or the computation
    # type) is floating
    ts = [nd.get("t", "")] + [fn.nodes[c].get("t", "") for c in nd["ch"]]
    return any(_is_float_type(fn, t) for t in ts)


def _is_float_type(fn, t):
    t = t.replace("const ", "").strip()
    seen = 0
    tds = fn.prog.typedefs
    while t in tds and seen < 8:
        t = tds[t]
        seen += 1
    return t in FLOAT_T


def positive_literal(fn, i):
    j = fn.strip(i)
    nd = fn.nodes[j]
    if nd["k"] in ("Int", "Float"):
        try:
            return float(nd["v"]) > 0
        except (TypeError, ValueError):
            return False
    v = fn.constval(i)
    return v is not None and v > 0


def state_fields(P, decode_fns):
    """(rec, field) stored by decode-time code outside constructors"""
    out = {}
    for f in decode_fns:
        if INIT_ONLY.search(f.name):
            continue
        for s in paths.stores(f):
            lhs = s["lhs"]
            # the field at the root of an element store a->b[i] = ... is b
            j = lhs
            while f.k(j) in ("Subscript", "Paren", "ICast", "Cast") or (f.k(j) == "Un" and f.nodes[j]["op"] == "*"):
                j = f.ch(j)[0]
            if f.k(j) == "Member":
                out.setdefault((f.nodes[j].get("rec"), f.nodes[j]["field"]), []).append((f, s["node"]))
    return out


def denominator_members(fn, d):
    """Member nodes read by the denominator expression"""
    return [i for i in fn.walk(d) if fn.k(i) == "Member"]


def pos_guard(den):
    """predicate: the branch condition establishes den > 0"""
    def pred(fn, c, pol):
        r = paths.rel(fn, c, pol, subst=False)
        if r is None:
            return False
        a, op, b = r
        if b == den and op in ("<", "<="):
            try:
                v = float(a)
            except ValueError:
                return False
            return v > 0 or (v == 0 and op == "<")
        if op == "!=" and {a, b} == {den, "0"}:
            # non-zero is enough for a count (integer-typed denominator)
            j = fn.strip(c)
            return all(not _is_float_type(fn, fn.nodes[fn.strip(x, casts=False)].get("t", "")) for x in fn.ch(j)) if fn.k(j) == "Bin" else False
        return False
    return pred


def ratio_guard(fn, den):
    """predicate: the condition is Y < K * den where Y has a positive floor
    store `if (Y < C) Y = C` in the same function"""
    floors = set()
    for s in paths.stores(fn):
        if s["op"] == "=" and s["rhs"] is not None and positive_literal(fn, s["rhs"]):
            y = s["path"]
            c = fn.canon(s["rhs"], subst=False)
            if paths.guarded(fn, s["node"], lambda f, cc, pol, y=y, c=c: paths.rel(f, cc, pol, subst=False) == (y, "<", c)):
                floors.add(y)

    def pred(f, c, pol):
        r = paths.rel(f, c, pol, subst=False)
        if r is None:
            return False
        a, op, b = r
        if op != "<" or a not in floors:
            return False
        j = f.strip(c)
        while f.k(j) == "Un" and f.nodes[j]["op"] == "!":
            j = f.strip(f.ch(j)[0])
        # rhs of the comparison is a product with den as a factor
        for side in f.ch(j):
            s = f.strip(side)
            if f.k(s) == "Bin" and f.nodes[s]["op"] == "*":
                if any(f.canon(x, subst=False) == den for x in f.ch(s)):
                    return True
        return False
    return pred


def stores_touching(fn, rec, field):
    out = []
    for s in paths.stores(fn):
        j = s["lhs"]
        while fn.k(j) in ("Subscript", "Paren", "ICast", "Cast") or (fn.k(j) == "Un" and fn.nodes[j]["op"] == "*"):
            j = fn.ch(j)[0]
        if fn.k(j) == "Member" and fn.nodes[j].get("rec") == rec and fn.nodes[j]["field"] == field:
            out.append(s["node"])
    return out


def locally_guarded(fn, node, den, members, extra=None):
    preds = [pos_guard(den)]
    if extra is not None:
        preds.append(extra)

    def pred(f, c, pol):
        return any(p(f, c, pol) for p in preds)
    if not paths.guarded(fn, node, pred):
        return False
    # no store to the denominator's state between the guard and the division
    for m in members:
        nd = fn.nodes[m]
        for st in stores_touching(fn, nd.get("rec"), nd["field"]):
            if paths.may_reach(fn, st, lambda e, node=node: e == node):
                if not paths.guarded_from(fn, st, node, pred):
                    return False
    return True


def div_difference_rule(ctx, P):
    """Set-up code of the front end: a floating-point division by a *difference* of two computed values (the edges
    of a mel filter after rounding to DFT points) is a division by zero as soon as the two coincide - 0/0 = NaN
    coefficients that turn every cepstrum of every frame into NaN.  The difference must be known non-zero where it
    divides: a dominating comparison of its two operands (strict order or inequality) whose other edge leaves."""
    r = ctx.rule("DIV.difference", "in the set-up of the front end every floating-point division by a difference `a - b` of computed values is dominated by a comparison that excludes a == b (a configuration in which they coincide is refused, not turned into NaN coefficients)", floor=2)
    n = 0
    for unit in ("fe_sigproc.c", "fe_interface.c"):
        for f in P.functions(unit):
            if not f.file.endswith(unit):
                continue
            for i in f.walk():
                if not is_float_div(f, i):
                    continue
                dj = f.strip(f.ch(i)[1])
                if f.k(dj) != "Bin" or f.nodes[dj]["op"] != "-":
                    continue
                a, b = (f.canon(x, subst=False) for x in f.ch(dj))
                if any(f.constval(x) is not None or f.k(f.strip(x)) in ("Int", "Float", "Char") for x in f.ch(dj)):
                    continue
                n += 1
                ctx.touch(f)

                def lt(x, y):
                    # a dominating strict order x < y (either spelling)
                    def pred(fn, cc, pol):
                        rr = paths.rel(fn, cc, pol, subst=False)
                        return rr is not None and ((rr[0], rr[1], rr[2]) == (x, "<", y) or (rr[0], rr[1], rr[2]) == (y, ">", x))
                    return paths.guarded(f, i, pred)

                def apart(fn, cc, pol, a=a, b=b):
                    rr = paths.rel(fn, cc, pol, subst=False)
                    return rr is not None and {rr[0], rr[2]} == {a, b} and rr[1] in ("<", ">", "!=")
                others = set()
                for i2 in f.walk():
                    if is_float_div(f, i2) and f.k(f.strip(f.ch(i2)[1])) == "Bin" and f.nodes[f.strip(f.ch(i2)[1])]["op"] == "-":
                        others.update(f.canon(x, subst=False) for x in f.ch(f.strip(f.ch(i2)[1])))
                chain = any((lt(b, c) and lt(c, a)) or (lt(a, c) and lt(c, b)) for c in others - {a, b})
                ctx.check(r, paths.guarded(f, i, apart) or chain, key(f, "div:%s-%s#%d" % (a[:20], b[:20], n)), f.where(i), "division by `(%s - %s)` without a dominating test that the two differ: when they coincide (filter edges rounded to the same DFT point) the quotient is NaN or infinite and so is every feature computed from it" % (a, b))


def div_rule(ctx, P, decode):
    r = ctx.rule("DIV.state", "every floating-point division on the decode path of the front end whose denominator is run-time state is dominated, after the last store to that state, by a test that the denominator is positive (in the function, or at every call site of a file-local function)", floor=6)
    fns = [f for f in decode if unit_of(f) in FE_UNITS]
    sf = state_fields(P, decode)
    n_const = 0
    init_derived = []
    for f in fns:
        if INIT_ONLY.search(f.name):
            continue
        ctx.touch(f)
        seen = {}
        for i in f.walk():
            if not is_float_div(f, i):
                continue
            d = f.ch(i)[1]
            if positive_literal(f, d) or f.k(f.strip(d)) in ("Int", "Float"):
                n_const += 1
                continue
            mem = denominator_members(f, d)
            st = [m for m in mem if (f.nodes[m].get("rec"), f.nodes[m]["field"]) in sf]
            den = f.canon(d, subst=False)
            if not st:
                init_derived.append("%s:%s" % (f.name, den))
                continue
            k = key(f, den)
            seen[k] = seen.get(k, 0) + 1
            if seen[k] > 1:
                k = "%s#%d" % (k, seen[k])
            ok = locally_guarded(f, i, den, st, extra=ratio_guard(f, den))
            how = "guarded in the function"
            if not ok and f.d.get("static"):
                # caller guard: every call site is dominated by the positivity
                # test on the corresponding actual
                callers = P.callers.get(f.name, [])
                callers = [(g, c) for (g, c) in callers if g.unit == f.unit]
                # and the callee itself must not store the state before dividing
                clean = not any(paths.may_reach(f, s_, lambda e, i=i: e == i) for m in st for s_ in stores_touching(f, f.nodes[m].get("rec"), f.nodes[m]["field"]))
                if callers and clean:
                    ok = True
                    for (g, c) in callers:
                        den_g = den
                        for prm, a in zip(f.params, g.args(c)):
                            pn = prm[0]
                            den_g = re.sub(r"\b%s\b" % re.escape(pn), g.canon(a, subst=False), den_g)
                        mem_g = []
                        for m in st:
                            nd = f.nodes[m]
                            mem_g += [x for x in range(len(g.nodes)) if g.k(x) == "Member" and g.nodes[x].get("rec") == nd.get("rec") and g.nodes[x]["field"] == nd["field"]][:1]
                        if not locally_guarded(g, c, den_g, mem_g):
                            ok = False
                            how = "call site %s is not guarded" % g.where(c)
                            break
                    if ok:
                        how = "guarded at all %d call sites" % len(callers)
            ctx.check(r, ok, k, f.where(i), "division by `%s` (run-time state, stored by %s) is not dominated by a test that it is positive after its last store: a zero denominator yields Inf/NaN features (%s)" % (
                den, ", ".join(sorted({g.name for m in st for (g, _n) in sf[(f.nodes[m].get("rec"), f.nodes[m]["field"])]}))[:120], how), how)
    ctx.notes.append("DIV.state: %d divisions by literal constants and %d by values fixed at initialisation (%s) are not obligations" % (n_const, len(init_derived), ", ".join(sorted(set(init_derived)))))


def log_rule(ctx, P, decode):
    r = ctx.rule("LOG.floor", "every logarithm taken on the decode path of the front end adds a positive constant floor to its argument (or is dominated by a positivity test of the argument)", floor=1)
    for f in decode:
        if unit_of(f) not in FE_UNITS or INIT_ONLY.search(f.name):
            continue
        for c in f.calls():
            if f.nodes[c].get("callee") not in ("log", "logf", "log10", "log2", "log10f"):
                continue
            ctx.touch(f)
            a = f.strip(f.args(c)[0])
            ok = False
            if f.k(a) == "Bin" and f.nodes[a]["op"] == "+":
                ok = any(positive_literal(f, x) for x in f.ch(a))
            if not ok:
                ok = paths.guarded(f, c, pos_guard(f.canon(a, subst=False)))
            ctx.check(r, ok, key(f, "log(%s)" % f.canon(a, subst=False)[:40]), f.where(c), "log() of `%s` without a positive floor: an empty filterbank channel gives -Inf" % f.src(a))


def cast_rule(ctx, P, decode):
    r = ctx.rule("CAST.range", "every float -> int conversion of a Gaussian density in the scorers is dominated by the lower-range test against MAX_NEG_INT32 on the same value", floor=6)
    for f in decode:
        if unit_of(f) not in SCORER_UNITS:
            continue
        n = 0
        for i in f.walk():
            nd = f.nodes[i]
            if nd["k"] in ("Cast", "ICast") and nd.get("ck") == "FloatingToIntegral":
                ctx.touch(f)
                n += 1
                x = f.canon(nd["ch"][0], subst=False)

                def pred(fn, c, pol, x=x):
                    rr = paths.rel(fn, c, pol, subst=False)
                    if rr is None:
                        return False
                    a, op, b = rr
                    if b != x or op != "<=":
                        return False
                    j = fn.strip(c)
                    return any(fn.constval(s) == -(1 << 31) or "MAX_NEG_INT32" in fn.mac(fn.strip(s)) for s in fn.ch(j))
                ok = paths.guarded(f, i, pred)
                # the tested value must not be modified between test and cast
                d = paths.local_of(f, nd["ch"][0])
                if ok and d is not None:
                    for dn in paths.defs_of_local(f, d):
                        if isinstance(dn, int) and paths.may_reach(f, dn, lambda e, i=i: e == i) and not paths.guarded_from(f, dn, i, pred):
                            ok = False
                ctx.check(r, ok, key(f, "(int)%s#%d" % (x, n)), f.where(i), "`%s` is converted to int without a dominating test that it is not below MAX_NEG_INT32 (undefined conversion for very poor densities)" % f.src(i))


CLAMPS = (
    # unit, function, bound value, what
    ("ptm_mgau.c", "ptm_mgau_codebook_norm", 96, "normalised top-N density"),
    ("s2_semi_mgau.c", "mgau_norm", 96, "normalised top-N density"),
    ("ms_senone.c", "senone_eval", 32767, "senone score"),
    ("ms_mgau.c", "ms_cont_mgau_frame_eval", 32767, "normalised senone score"),
)


def _decl_of_path(f, lhs):
    j = f.strip(lhs)
    nd = f.nodes[j]
    if nd["k"] == "DeclRef" and nd["ref"] in ("local", "param"):
        return nd["decl"]
    return None


def _mentions(f, root, x, decl):
    """nodes under root that denote lvalue x (same declaration for locals)"""
    out = []
    for i in f.walk(root):
        nd = f.nodes[i]
        if decl is not None:
            if nd["k"] == "DeclRef" and nd.get("decl") == decl:
                out.append(i)
        elif nd["k"] in ("Member", "Subscript") and f.canon(i, subst=False) == x:
            out.append(i)
    return out


def clamp_rule(ctx, P):
    r = ctx.rule("CLAMP.upper", "every normalised density / senone score passes its upper clamp (`if (x > B) x = B`) after its last computation and before it is read for anything else or the function returns", floor=10)
    for unit, name, bound, what in CLAMPS:
        f = P.fn(name, unit)
        ctx.touch(f)
        clamps = []
        for s in paths.stores(f):
            if s["op"] == "=" and s["rhs"] is not None and f.constval(s["rhs"]) == bound:
                x = s["path"]
                decl = _decl_of_path(f, s["lhs"])

                def pred(fn, c, pol, x=x, decl=decl):
                    rr = paths.rel(fn, c, pol, subst=False)
                    if rr is None or rr[1] != "<" or rr[2] != x or not _mentions(fn, c, x, decl):
                        return False
                    j = fn.strip(c)
                    return any(fn.constval(o) == bound for o in fn.ch(j))
                if paths.guarded(f, s["node"], pred):
                    clamps.append((x, decl, s["node"], pred))
        # the same clamp written as a conditional expression: x = (x > B) ? B : x  /  x = (x <= B) ? x : B
        ternary = []
        for s in paths.stores(f):
            if s["op"] != "=" or s["rhs"] is None:
                continue
            cj = f.strip(s["rhs"])
            if f.k(cj) != "Cond":
                continue
            x = s["path"]
            q = paths.rel(f, f.ch(cj)[0], True, subst=False)
            a1, a2 = f.ch(cj)[1], f.ch(cj)[2]
            if q is None:
                continue
            hi_then = q[1] == "<" and q[0] == str(bound) and q[2] == x and f.constval(a1) == bound and f.canon(a2, subst=False) == x
            lo_then = q[1] == "<=" and q[0] == x and q[2] == str(bound) and f.canon(a1, subst=False) == x and f.constval(a2) == bound
            if hi_then or lo_then:
                ternary.append(s)
        if ternary and not clamps:
            for n_, s in enumerate(ternary):
                ctx.ok(r, key(f, "clamp-ternary#%d" % n_), f.where(s["node"]), "clamp written as a conditional expression")
            # the clamped value must be the last computation of x before it is used: no other store to x follows on the way out
            for s in ternary:
                x = s["path"]
                later = [t for t in paths.stores(f) if t["path"] == x and t["node"] != s["node"] and paths.may_reach(f, s["node"], lambda e, n2=t["node"]: e == n2) and not paths.may_reach(f, t["node"], lambda e, n2=s["node"]: e == n2)]
                ctx.check(r, not later, key(f, "clamp-last:%s" % x), f.where(s["node"]), "`%s` is recomputed after the clamp" % x)
            ctx.check(r, len(ternary) >= {"ms_cont_mgau_frame_eval": 2}.get(name, 1), key(f, "clamp-count"), f.where(f.root), "%s clamps the %s at %d place(s)" % (name, what, len(ternary)))
            continue
        if not ctx.check(r, clamps, key(f, "clamp-exists"), f.where(f.root), "%s has no `if (x > %d) x = %d` clamp of the %s" % (name, bound, bound, what)):
            continue
        want = {"ms_cont_mgau_frame_eval": 2}.get(name, 1)
        ctx.check(r, len(clamps) >= want, key(f, "clamp-count"), f.where(f.root), "%s clamps the %s at %d place(s), %d expected (one per evaluation branch)" % (name, what, len(clamps), want))
        # values narrowed into the int16 score array come from a clamped local or a callee that clamps
        clamped = {decl for (x, decl, cn, pred) in clamps if decl is not None}
        for s in paths.stores(f):
            if s["op"] == "=" and s["kind"] == "Subscript" and s["rhs"] is not None and f.nodes[s["lhs"]].get("ct", f.nodes[s["lhs"]].get("t")) in ("short", "int16") and name == "ms_cont_mgau_frame_eval":
                d = paths.local_of(f, s["rhs"])
                rv = f.strip(s["rhs"])
                okn = (d in clamped) if d is not None else (f.k(rv) == "Call" and f.nodes[rv].get("callee") == "senone_eval")
                ctx.check(r, okn, key(f, "narrow:%s<-%s" % (s["path"][:20], f.canon(s["rhs"], subst=False)[:20])), f.where(s["node"]), "`%s` is stored into the 16-bit score array without having passed the 32767 clamp" % f.canon(s["rhs"], subst=False))
        for ci, (x, decl, cn, pred) in enumerate(clamps):
            condset = set()
            for (s0, d0, c, pol) in f.cfg.cond_edges():
                if pol and pred(f, c, True):
                    condset.add(c)
                    condset.update(f.walk(c))
            if decl is not None:
                defs = [d for d in paths.defs_of_local(f, decl) if isinstance(d, int)]
            else:
                defs = [s["node"] for s in paths.stores(f) if s["path"] == x]
            defset = set(defs)
            for d in defs:
                p = f.parent[d]
                if f.k(d) == "Var" and p is not None and f.k(p) == "Decl" and len(f.ch(p)) == 1:
                    defset.add(p)
            n = 0
            for d in sorted(defs):
                if d == cn:
                    continue
                # constant stores inside the range (the lower clamp) need no upper clamp
                nd = f.nodes[d]
                rhs = nd["ch"][1] if nd["k"] in ("Assign",) else (nd["ch"][0] if nd["k"] == "Var" and nd.get("ch") else None)
                if nd["k"] in ("Assign", "Var") and rhs is not None and f.constval(rhs) is not None and -32768 <= f.constval(rhs) <= bound:
                    continue
                n += 1
                own = set(f.walk(d))

                def is_use(e, own=own):
                    if e in condset or e in own:
                        return False
                    nd_ = f.nodes[e]
                    if nd_["k"] == "ICast" and nd_.get("ck") == "LValueToRValue" and _mentions(f, e, x, decl) and f.strip(nd_["ch"][0]) in _mentions(f, e, x, decl):
                        # reads that feed another definition of x (x = -x, x -= n) are part of the computation
                        q = f.parent[e]
                        while q is not None and f.k(q) not in ("Assign", "CompoundAssign", "Var", "Compound", "If", "For", "While", "Return", "Call"):
                            q = f.parent[q]
                        if q is not None and q in defset:
                            return False
                        return True
                    if nd_["k"] == "CompoundAssign" and e in defset:
                        return False
                    return False
                ok = paths.must_pass(f, d, lambda e: e in condset, to=is_use) and paths.must_pass(f, d, lambda e: e in condset or (e in defset and e not in own))
                ctx.check(r, ok, key(f, "%s#%d.%d" % (x, ci, n)), f.where(d), "the %s `%s` computed here can be used or returned without passing the clamp to %d" % (what, x, bound))


def _elems(f, n):
    """CFG elements standing for node n (a Var is represented by its DeclStmt)"""
    out = {n}
    p = f.parent[n]
    if f.k(n) == "Var" and p is not None and f.k(p) == "Decl":
        out.add(p)
    return out


def norm_rule(ctx, P):
    r = ctx.rule("NORM.frame", "between any write of the scorer's top-N store and the senone evaluation the normaliser is passed on every path; the best senone score is tracked for every stored score and subtracted from every score", floor=8)
    # --- PTM
    f = P.fn("ptm_mgau_frame_eval", "ptm_mgau.c")
    ctx.touch(f)
    evals = f.calls("ptm_mgau_senone_eval")
    norms = set(f.calls("ptm_mgau_codebook_norm"))
    writes = [c for c in f.calls("memcpy") if "topn" in f.canon(f.args(c)[0], subst=False)] + f.calls("ptm_mgau_codebook_eval")
    if not evals or not writes:
        raise AnalysisIncomplete("anchor vanished: ptm_mgau_frame_eval no longer calls senone_eval / writes top-N")
    for n, w in enumerate(writes):
        ok = all(paths.must_pass(f, w, lambda e: e in norms, to=lambda e, ev=ev: e == ev) for ev in evals)
        ctx.check(r, ok, key(f, "%s#%d" % (f.nodes[w].get("callee"), n)), f.where(w), "top-N densities written here (%s) can reach ptm_mgau_senone_eval without passing ptm_mgau_codebook_norm: raw log-densities of codebooks that were inactive in the previous frame are used as normalised scores" % f.nodes[w].get("callee"))
    # the normaliser covers every active codebook's every top-N entry: same loop bounds as the evaluator
    g = P.fn("ptm_mgau_codebook_norm", "ptm_mgau.c")
    ctx.touch(g)
    for nm, u_ in (("ptm_mgau_codebook_norm", "ptm_mgau.c"), ("mgau_norm", "s2_semi_mgau.c")):
        h_ = P.fn(nm, u_)
        ctx.touch(h_)
        loops = h_.find("For")
        outer = [lp for lp in loops if h_.enclosing(lp, ("For", "While")) is None]
        heads = set()
        for lp in outer:
            cn = h_.ch(lp)[1]
            heads.add(cn)
            heads.update(h_.walk(cn))
        early = [rt for rt in h_.find("Return") if not paths.always_before(h_, rt, lambda e: e in heads)]
        ctx.check(r, bool(outer) and not early, key(h_, "no-early-return"), h_.where(early[0]) if early else h_.where(h_.root), "%s can return before its normalisation loop runs (line %s): on those calls the densities written by the evaluator stay raw" % (nm, h_.line(early[0]) if early else "?"))
    bounds = set()
    for lp in g.find("For"):
        c = g.ch(lp)[1] if len(g.ch(lp)) > 1 else None
        if c is not None and g.k(c) != "Absent":
            rr = paths.rel(g, c, True, subst=False)
            if rr:
                bounds.add(rr[2])
    ctx.check(r, {"s->g->n_feat", "s->g->n_mgau", "s->max_topn"} <= bounds, key(g, "coverage"), g.where(g.root), "ptm_mgau_codebook_norm no longer iterates over all features, codebooks and top-N entries (loop bounds %s)" % sorted(bounds))
    # inactive codebooks must not be normalised with the active ones' norm — and
    # conversely the evaluator of senones resets scores of inactive codebooks
    h = P.fn("ptm_mgau_senone_eval", "ptm_mgau.c")
    ctx.touch(h)
    resets = [s for s in paths.stores(h) if s["path"].endswith(".score") and s["rhs"] is not None and h.constval(s["rhs"]) == 96]
    okr = bool(resets) and all(paths.guarded(h, s["node"], lambda fn, c, pol: "bitvec_is_clear" in fn.canon(c, subst=False) or "mgau_active" in fn.canon(c, subst=False)) for s in resets)
    ctx.check(r, okr, key(h, "inactive-reset"), h.where(resets[0]["node"]) if resets else h.where(h.root), "senones of inactive codebooks no longer get the clamped worst density MAX_NEG_ASCR before their scores are combined")
    # best score: every store senone_scores[...] = v is in an iteration that has passed `if (v < best) best = v`; a later loop subtracts best from all n_sen entries
    best_rule(ctx, r, h, "senone_scores", "s->n_sen")
    # --- S2 semi: per feature, distance then norm, result count stored
    f2 = P.fn("s2_semi_mgau_frame_eval", "s2_semi_mgau.c")
    ctx.touch(f2)
    dist = f2.calls("mgau_dist")
    nrm = set(f2.calls("mgau_norm"))
    cps = [c for c in f2.calls("memcpy") if "s->f" in f2.canon(f2.args(c)[0], subst=False)]
    getters = [c for c in f2.calls() if (f2.nodes[c].get("callee") or "").startswith("get_scores_")]
    if not dist or not getters:
        raise AnalysisIncomplete("anchor vanished: s2_semi_mgau_frame_eval shape")
    for n, w in enumerate(dist + cps):
        ok = all(paths.must_pass(f2, w, lambda e: e in nrm, to=lambda e, gt=gt: e == gt) for gt in getters)
        ctx.check(r, ok, key(f2, "%s#%d" % (f2.nodes[w].get("callee"), n)), f2.where(w), "top-N densities written here can reach the senone score computation without passing mgau_norm")
    # --- multi-stream: best-score normalisation in ms_cont_mgau_frame_eval
    m = P.fn("ms_cont_mgau_frame_eval", "ms_mgau.c")
    ctx.touch(m)
    subs = [{"node": i, "rhs": m.ch(i)[0]} for i in m.find("Var") if m.ch(i) and re.search(r"senscr\[.*\] - best\b", m.canon(m.ch(i)[0], subst=False))]
    subs += [s for s in paths.stores(m) if s["rhs"] is not None and re.search(r"senscr\[.*\] - best\b", m.canon(s["rhs"], subst=False))]
    ctx.check(r, len(subs) >= 2, key(m, "best-subtracted"), m.where(m.root), "ms_cont_mgau_frame_eval no longer subtracts the best senone score in both the all-senone and active-senone branches (found %d)" % len(subs))
    for n, s in enumerate(subs):
        # the best value is the minimum over the same index set: an update `if (best > senscr[s]) best = senscr[s]` is passed on the way
        upd = [u["node"] for u in paths.stores(m) if u["path"] == "best" and u["rhs"] is not None and "senscr[" in m.canon(u["rhs"], subst=False)]
        ok = any(paths.may_reach(m, u, lambda e, t=_elems(m, s["node"]): e in t) for u in upd)
        ctx.check(r, ok, key(m, "best-tracked#%d" % n), m.where(s["node"]), "the best score subtracted here is not computed from the frame's senone scores")


def best_rule(ctx, r, h, arr, n_all):
    st = [s for s in paths.stores(h) if s["op"] == "=" and s["path"].startswith(arr + "[") and s["rhs"] is not None]
    subs = [s for s in paths.stores(h) if s["op"] == "-=" and s["path"].startswith(arr + "[")]
    if not st or not subs:
        ctx.bad(r, key(h, "best-normalisation"), h.where(h.root), "%s no longer stores senone scores and subtracts the frame's best score from them" % h.name)
        return
    for n, s in enumerate(st):
        v = h.canon(s["rhs"], subst=False)
        d = paths.local_of(h, s["rhs"])
        defs = set(dn for dn in paths.defs_of_local(h, d) if isinstance(dn, int)) if d is not None else set()
        for dn in list(defs):
            p = h.parent[dn]
            if p is not None and h.k(p) == "Decl" and len(h.ch(p)) == 1:
                defs.add(p)
        ok = False
        why = "no `if (%s < best) best = %s` update" % (v, v)
        for u in paths.stores(h):
            if u["op"] != "=" or u["rhs"] is None or h.canon(u["rhs"], subst=False) != v or u["path"] == s["path"]:
                continue
            b = u["path"]
            if not paths.guarded(h, u["node"], lambda fn, c, pol, v=v, b=b: paths.rel(fn, c, pol, subst=False) == (v, "<", b)):
                continue
            cnodes = set()
            for (s0, d0, c, pol) in h.cfg.cond_edges():
                if paths.rel(h, c, True, subst=False) == (v, "<", b):
                    cnodes.add(c)
                    cnodes.update(h.walk(c))
            # (a) the test follows the last definition of v on the way to the store, or
            before = True
            for dn in defs:
                others = defs - {dn}
                if h.cfg.path_exists(paths.pos_of(h, dn), lambda e, t=s["node"]: e == t, is_barrier=lambda e, o=others: e in cnodes or e in o):
                    before = False
            # (b) it follows the store before v is recomputed or the function is left
            after = paths.must_pass(h, s["node"], lambda e: e in cnodes, to=lambda e: e in defs) and paths.must_pass(h, s["node"], lambda e: e in cnodes)
            if not (before or after):
                why = "the update of `%s` can be skipped between the computation of `%s` and its store" % (b, v)
                continue
            why = "`%s` is not subtracted from all %s scores afterwards" % (b, n_all)
            for sb in subs:
                if h.canon(sb["rhs"], subst=False) != b:
                    continue
                lp = h.enclosing(sb["node"], ("For",))
                cond = h.ch(lp)[1] if lp is not None else None
                rr = paths.rel(h, cond, True, subst=False) if cond is not None and h.k(cond) != "Absent" else None
                if rr and rr[1] == "<" and rr[2] == n_all and paths.must_pass(h, s["node"], lambda e, lp=lp: e == h.ch(lp)[1] or e in set(h.walk(h.ch(lp)[1]))):
                    ok = True
        ctx.check(r, ok, key(h, "best#%d" % n), h.where(s["node"]), "the score `%s` stored here is not normalised against the frame's best score (%s): the best score of the frame is no longer zero" % (v, why))


def vitw_rule(ctx, P):
    r = ctx.rule("VIT.W", "every HMM state score stored by the Viterbi evaluators passes the WORST_SCORE clamp (path scores saturate instead of wrapping)", floor=20)
    n = 0
    for name, ns, mpx in (("hmm_vit_eval_5st_lr", 5, False), ("hmm_vit_eval_5st_lr_mpx", 5, True), ("hmm_vit_eval_3st_lr", 3, False), ("hmm_vit_eval_3st_lr_mpx", 3, True)):
        f = P.fn(name, "hmm.c")
        ctx.touch(f)
        v = vit.analyse(f, ns, mpx)
        bad = set()
        for (c, k, node, text) in v.findings:
            if c == "W":
                ctx.bad(r, key(f, k), f.where(node), text)
                bad.add(k)
        for (c, k, node, text) in v.oks:
            if c == "W" and k not in bad:
                ctx.ok(r, key(f, k), f.where(node), text)
                n += 1
    fx = {f.name: f for f in P.functions("fixture:vit_fx.c")}
    vb = vit.analyse(fx["fx_vit_bad"], 3, False)
    ctx.control(r, bool(vb.findings), "fixture fx_vit_bad must be reported by the Viterbi interpreter")
    # aligner renormalisation and hmm_normalize
    r2 = ctx.rule("RENORM", "the state aligner renormalises (hmm_normalize over all HMMs, then the best score itself) whenever best_score minus a positive margin is below WORST_SCORE, and hmm_normalize only shifts scores that are above WORST_SCORE", floor=4)
    s = P.fn("state_align_search_step", "state_align_search.c")
    ctx.touch(s)
    calls = s.calls("renormalize_hmms")
    if not calls:
        raise AnalysisIncomplete("anchor vanished: renormalize_hmms call in state_align_search_step")
    for c in calls:
        def pred(fn, cc, pol):
            rr = paths.rel(fn, cc, pol, subst=False)
            if rr is None:
                return False
            a, op, b = rr
            m = re.match(r"^\(sas->best_score - (\d+)\)$", a)
            return bool(m) and int(m.group(1)) > 0 and op == "<" and fn.constval(fn.ch(fn.strip(cc))[1]) is not None and "WORST_SCORE" in fn.mac(fn.strip(fn.ch(fn.strip(cc))[1]))
        ctx.check(r2, paths.guarded(s, c, pred), key(s, "renorm-guard"), s.where(c), "renormalisation is no longer triggered by `best_score - margin < WORST_SCORE`")
        ctx.check(r2, s.canon(s.args(c)[2], subst=False) == "sas->best_score", key(s, "renorm-by-best"), s.where(c), "renormalisation does not shift by the current best score")
    # the renormalisation happens before the HMMs are evaluated in this frame
    ev = s.calls("evaluate_hmms")
    if ev and calls:
        ctx.check(r2, not paths.may_reach(s, ev[0], lambda e: e == calls[0]), key(s, "renorm-before-eval"), s.where(calls[0]), "renormalisation happens after the frame's evaluation")
    hn = P.fn("hmm_normalize", "hmm.c")
    ctx.touch(hn)
    for n_, st in enumerate(x for x in paths.stores(hn) if x["op"] == "-="):
        x = st["path"]
        g = paths.guarded(hn, st["node"], lambda fn, cc, pol: (lambda rr: rr is not None and rr[1] == "<" and rr[2] != "" and "WORST_SCORE" in fn.mac(fn.strip(fn.ch(fn.strip(cc))[0])) + fn.mac(fn.strip(fn.ch(fn.strip(cc))[1])))(paths.rel(fn, cc, pol, subst=False)))
        ctx.check(r2, g, key(hn, "floor-kept#%d" % n_), hn.where(st["node"]), "hmm_normalize shifts `%s` without testing that it is above WORST_SCORE: floor scores would drift upward and wrap" % x)


def repr_rule(ctx, P):
    r = ctx.rule("REPR", "the textual export of the channel mean is sized and written by the same format over the same values; the separator written is the one the import splits on; import stores are bounded by the vector length and reset the frame count with the sums", floor=6)
    up = P.fn("cmn_update_repr", "cmn.c")
    st = P.fn("cmn_set_repr", "cmn.c")
    ctx.touch(up)
    ctx.touch(st)
    sn = up.calls("snprintf")
    writing = [c for c in sn if not paths._is_zero(up, up.args(c)[0])]
    if not writing:
        raise AnalysisIncomplete("anchor vanished: cmn_update_repr no longer formats the mean with snprintf")
    # the export holds every value: the writing loop runs over the whole vector and cannot be left early
    for n_, c in enumerate(writing):
        lp = up.enclosing(c, ("For", "While"))
        early = [x for x in up.walk(lp) if up.k(x) in ("Break", "Goto") or (up.k(x) == "Return" and not paths.guarded(up, x, lambda fn, cc, pol: (lambda q: q is not None and q[1] in ("<", "<=") and q[2] == "0" or (q is not None and q[1] == "<=" and q[2] == "0"))(paths.rel(fn, cc, pol, subst=False))))] if lp is not None else []
        ctx.check(r, lp is not None and not early, key(up, "writes-all#%d" % n_), up.where(c), "the loop that writes the values can be left before all of them are written (line %s): the exported text then holds fewer values than the vector, and importing it sets the rest to zero" % (up.line(early[0]) if early else "?"))
        dst = up.strip(up.args(c)[0])
        # destination capacity comes from a counted length, not from a fixed-size array
        fixed = [m for m in up.walk() if up.k(m) == "Member" and up.nodes[m]["field"] == "repr" and re.search(r"\[\d+\]", up.nodes[m].get("t", ""))]
        ctx.check(r, not fixed, key(up, "capacity#%d" % n_), up.where(c), "the text is formatted into a fixed-size array (%s): a vector whose text is longer is cut short" % (up.nodes[fixed[0]].get("t") if fixed else ""))
    if len(sn) < 2:
        ctx.bad(r, key(up, "two-passes"), up.where(sn[0]), "cmn_update_repr no longer sizes the text before writing it")
        return
    fmts = []
    vals = []
    for c in sn:
        a = up.args(c)
        fm = up.strip(a[2])
        fmts.append(up.nodes[fm].get("v") if up.k(fm) == "Str" else None)
        vals.append([up.canon(x, subst=False) for x in a[3:]])
    ctx.check(r, len(set(fmts)) == 1 and fmts[0] is not None, key(up, "format-agrees"), up.where(sn[0]), "sizing and writing passes use different formats %s" % fmts)
    ctx.check(r, all(v == vals[0] for v in vals), key(up, "values-agree"), up.where(sn[0]), "sizing and writing passes format different values %s" % vals)
    fmt = fmts[0] or ""
    m = re.match(r"^%[-+ #0]*(\d+)?(\.\d+)?l?[gGeEf](.)$", fmt)
    sep = m.group(3) if m else None
    ctx.check(r, m is not None, key(up, "format-shape"), up.where(sn[0]), "export format `%s` is not one floating conversion followed by a one-character separator" % fmt)
    # loops of both passes run over veclen
    for n_, c in enumerate(sn):
        lp = up.enclosing(c, ("For",))
        rr = paths.rel(up, up.ch(lp)[1], True, subst=False) if lp is not None else None
        ctx.check(r, rr is not None and rr[1] == "<" and rr[2] == "cmn->veclen", key(up, "pass%d-bound" % n_), up.where(c), "export pass %d does not run over cmn->veclen values" % n_)
    # import: splits on the same separator
    seps = set()
    for c in st.calls("strchr"):
        a = st.strip(st.args(c)[1])
        if st.k(a) == "Char":
            seps.add(chr(st.nodes[a]["v"]) if isinstance(st.nodes[a]["v"], int) else st.nodes[a]["v"])
    ctx.check(r, sep is not None and seps == {sep}, key(st, "separator"), st.where(st.root), "export separates values with %r but import splits on %s" % (sep, sorted(seps)))
    # every store to cmn_mean[nvals] / sum[nvals] bounded by nvals < veclen
    for s in paths.stores(st):
        if re.match(r"^cmn->(cmn_mean|sum)\[", s["path"]):
            idx = re.match(r"^cmn->\w+\[(.*)\]$", s["path"]).group(1)
            ok = paths.guarded(st, s["node"], lambda fn, c, pol, idx=idx: paths.rel(fn, c, pol, subst=False) == (idx, "<", "cmn->veclen"))
            ctx.check(r, ok, key(st, "bounded:%s" % s["path"]), st.where(s["node"]), "import stores `%s` without a dominating %s < cmn->veclen test" % (s["path"], idx))
    # sum and nframe are set consistently: sum[i] = mean[i] * K and nframe = K with the same K > 0
    ks = set()
    for s in paths.stores(st):
        if s["path"].startswith("cmn->sum[") and s["rhs"] is not None:
            mm = re.match(r"^\((\d+) \* cmn->cmn_mean\[.*\]\)$|^\(cmn->cmn_mean\[.*\] \* (\d+)\)$", st.canon(s["rhs"], subst=False))
            ks.add(int(mm.group(1) or mm.group(2)) if mm else None)
    nf = [st.constval(s["rhs"]) for s in paths.stores(st) if s["path"] == "cmn->nframe" and s["rhs"] is not None]
    ctx.check(r, len(ks) == 1 and None not in ks and nf and set(nf) == ks and min(ks) > 0, key(st, "sum-nframe"), st.where(st.root), "import sets sum = mean * %s but nframe = %s: the next update would compute a different mean from what was imported" % (sorted(map(str, ks)), nf))
    # the text follows the mean: wherever the mean is stored, the text is rebuilt before the function returns
    # (the export hands out the text, so a mean that moved without it is exported stale and a re-import
    # overwrites the adapted mean); the facts are those of the release build, so a rebuild that only exists
    # as the argument of a log macro compiled out there does not count
    nmean = 0
    for f in [x for u_ in ("cmn.c", "cmn_live.c") for x in P.functions(u_) if x.file.endswith(u_)]:
        if f.name == "cmn_update_repr":
            continue
        ups = set(f.calls("cmn_update_repr"))
        for s_ in paths.stores(f):
            if s_["kind"] == "Subscript" and re.search(r"(->|\.)cmn_mean\[", s_["path"]):
                nmean += 1
                ctx.touch(f)
                ctx.check(r, paths.must_pass(f, s_["node"], lambda e: e in ups), key(f, "text-follows-mean@%d" % f.line(s_["node"])), f.where(s_["node"]), "%s stores the mean here and can return without rebuilding its text (cmn_update_repr): decoder_get_cmn then exports the old mean, and importing that text again overwrites the adapted one" % f.name)
    if nmean < 4:
        ctx.missing("stores of the channel mean not found (%d)" % nmean)


def cache_rule(ctx, P):
    r = ctx.rule("GUARD.score-cache", "acmod_score hands out the scores it kept from an earlier request for the same frame only when all senones were computed (compallsen): otherwise the array is valid for the senones active at that time only, every other slot holds the un-normalised fill value, and a second request with another active set would get scores whose best is not zero", floor=1)
    f = P.fn("acmod_score", "acmod.c")
    ctx.touch(f)
    evs = [c for c in f.find("Call") if f.nodes[c].get("callee") in ("ps_mgau_frame_eval",) or (f.nodes[c].get("slot") or [None, None])[1] == "frame_eval" or "frame_eval" in f.canon(c, subst=False).split("(")[0]]
    if not evs:
        raise AnalysisIncomplete("acmod_score: scoring call not found")
    n = 0
    for rt in f.find("Return"):
        if not f.ch(rt) or not f.canon(f.ch(rt)[0], subst=False).endswith("->senone_scores"):
            continue
        # a return of the score array that can be reached without scoring
        if not f.cfg.path_exists((f.cfg.entry, 0), lambda e, rt=rt: e == rt, is_barrier=lambda e: e in evs, start_after=False):
            continue
        n += 1
        g = paths.guarded(f, rt, lambda fn, cc, pol: paths.cond_atoms(fn, cc, pol, subst=False) == ("%s->compallsen" % f.params[0][0], True))
        g2 = paths.guarded(f, rt, lambda fn, cc, pol: paths.rel(fn, cc, pol, subst=False) is not None and paths.rel(fn, cc, pol, subst=False)[1] == "==" and "senscr_frame" in " ".join(paths.rel(fn, cc, pol, subst=False)))
        ctx.check(r, g and g2, key(f, "reuse@%d" % f.line(rt)), f.where(rt), "kept scores are handed out without the tests `compallsen` and `frame_idx == senscr_frame`")
    if n < 1:
        raise AnalysisIncomplete("acmod_score: no reuse of kept scores found")


def run(ctx):
    P = ctx.P
    names = P.reachable_functions(DECODE_ROOTS)
    decode = []
    for n in sorted(names):
        for f in P.fn_index.get(n, []):
            if f.relfile().startswith("src/") or f.relfile().startswith("include/"):
                decode.append(f)
    if len(decode) < 150:
        raise AnalysisIncomplete("decode-path function set shrank to %d" % len(decode))
    log_rule(ctx, P, decode)
    cache_rule(ctx, P)
    div_rule(ctx, P, decode)
    div_difference_rule(ctx, P)
    cast_rule(ctx, P, decode)
    clamp_rule(ctx, P)
    norm_rule(ctx, P)
    vitw_rule(ctx, P)
    repr_rule(ctx, P)
