"""C09 — no sequence of API calls corrupts memory, aborts, or leaks.

Decided (structural necessary conditions):
  STATE.guards   each utterance entry point (start, process x2, end) rejects
                 exactly the states in which it must not run, and the rejecting
                 edge returns the documented error value
  NULL.fields    in decoder.c every dereference through the nullable fields
                 d->search / d->align (and a v-table call through them) is
                 dominated by a non-NULL test of the field or a store of a tested
                 value
  OWN.consume    (shared with C10) consumed arguments are dead in the caller
  UNWIND         (shared machinery) no double release / use after release /
                 leaked temporary in the API layer, searches, alignment, lattice
  ITER.early     a loop over a self-freeing iterator that can be left early
                 releases the iterator on that exit
  ALLOCSZ        every allocation assigned to a pointer to elements wider than
                 a byte is sized in units of that element (whole library)
  LEN.nonempty   x[strlen(x) - 1] / x[len - 1] is dominated by a test that the
                 string is not empty
  EMPTY.align    an alignment is only started for a non-empty word sequence
  EXIT.api       census of process exits reachable from the run-time API, each
                 classified with its reason (allocation policy, unreachable under
                 a named guard) - a new exit is a violation
  EMIT.*         (C14's rules) the JSON result writer cannot write past its
                 buffer
Not decided: general memory safety of every function; leak freedom of whole
histories (only the per-function ownership clauses above).
"""
import re

from .. import allocsz, lin, paths
from ..prog import AnalysisIncomplete
from . import c10, c14, c17

FIXTURES = ["span_fx.c"]
API_UNITS = ("decoder.c", "fsg_search.c", "state_align_search.c", "ps_alignment.c", "ps_lattice.c", "acmod.c", "dict.c",
             "search_module.c", "fsg_history.c", "fsg_lextree.c", "dict2pid.c", "jsgf.c", "fsg_model.c", "config.c")
GENERATED = ("jsgf_parser.c", "jsgf_scanner.c")
STATES = ("ACMOD_IDLE", "ACMOD_STARTED", "ACMOD_PROCESSING", "ACMOD_ENDED")
# entry point -> states in which it must refuse to run, documented error value
ENTRY = {
    "decoder_start_utt": ({"ACMOD_STARTED", "ACMOD_PROCESSING"}, -1),
    "decoder_process_int16": ({"ACMOD_IDLE", "ACMOD_ENDED"}, 0),
    "decoder_process_float32": ({"ACMOD_IDLE", "ACMOD_ENDED"}, 0),
    "decoder_end_utt": ({"ACMOD_IDLE", "ACMOD_ENDED"}, -1),
}


def key(fn, what):
    return "%s:%s" % (fn.name, what)


def unit_of(fn):
    return fn.relfile().split("/")[-1]


# -------------------------------------------------------------------------------- state guards
def eval_cond(fn, c, state, P):
    """truth value of a condition built from `...->state ==/!= ACMOD_X` for a given state; None if other atoms occur"""
    j = fn.strip(c)
    nd = fn.nodes[j]
    if nd["k"] == "Un" and nd["op"] == "!":
        v = eval_cond(fn, nd["ch"][0], state, P)
        return None if v is None else not v
    if nd["k"] == "Bin" and nd["op"] in ("||", "&&"):
        a = eval_cond(fn, nd["ch"][0], state, P)
        b = eval_cond(fn, nd["ch"][1], state, P)
        if a is None or b is None:
            return None
        return (a or b) if nd["op"] == "||" else (a and b)
    if nd["k"] == "Bin" and nd["op"] in ("==", "!="):
        sides = [fn.canon(x, subst=False) for x in nd["ch"]]
        st = [s for s in sides if s.endswith("->state")]
        en = [s for s in sides if s in STATES]
        # folded enumerators
        if not en:
            for x in nd["ch"]:
                v = fn.constval(x)
                if v is not None and 0 <= v < 4:
                    en = [STATES[v]]
        if len(st) == 1 and len(en) == 1:
            return (state == en[0]) == (nd["op"] == "==")
    return None


def state_rule(ctx, P):
    r = ctx.rule("STATE.guards", "each utterance entry point tests the utterance state first: the states it refuses are exactly those in which it must not run (start: STARTED, PROCESSING; process and end: IDLE, ENDED), and the refusing edge returns the documented error value without side effects on the utterance", floor=8)
    for name, (refuse, errval) in ENTRY.items():
        f = P.fn(name, "decoder.c")
        ctx.touch(f)
        # per state: can the function reach anything that changes the utterance, or does every path leave
        # with the error value first?  (CFG reachability with the edges the state rules out removed:
        # if-chain, disjunction, negation or switch all read the same)
        mut = ("acmod_start_utt", "acmod_end_utt", "acmod_process_raw", "acmod_process_float32", "search_module_start", "search_module_finish", "search_module_step", "search_module_forward", "acmod_set_grow")
        work = [c for c in f.calls() if f.nodes[c].get("callee") in mut]
        subj = lambda fn, n: fn.canon(n).endswith("->state")
        tests = [c for (s0, d0, c, pol) in f.cfg.cond_edges() if "->state" in f.canon(c)] + [c for (s0, d0, c, v_) in f.cfg.switch_edges() if c is not None and c >= 0 and subj(f, c)]
        if not tests or not work:
            ctx.bad(r, key(f, "state-test"), f.where(f.root), "%s no longer tests the utterance state" % name)
            continue
        got = set()
        badval = []
        for sv, st in enumerate(STATES):
            ex = paths.edges_excluded_when(f, subj, sv)
            reach = f.cfg.path_exists((f.cfg.entry, 0), lambda e: e in work, start_after=False, removed_edges=ex)
            if not reach:
                got.add(st)
                # every way out in this state returns the documented value
                for rt in f.find("Return"):
                    if f.cfg.path_exists((f.cfg.entry, 0), lambda e, rt=rt: e == rt, start_after=False, removed_edges=ex):
                        if not f.ch(rt) or f.constval(f.ch(rt)[0]) != errval:
                            badval.append((st, f.line(rt)))
        ctx.check(r, got == refuse, key(f, "refused-states"), f.where(tests[0]), "%s refuses to run in %s but must refuse in %s: calls in the missing state(s) run on an utterance that is not in progress, or legitimate calls are rejected" % (name, sorted(got), sorted(refuse)))
        ctx.check(r, not badval, key(f, "refusal-value"), f.where(tests[0]), "%s does not return %d when it refuses the call (%s)" % (name, errval, badval[:3]))

# -------------------------------------------------------------------------------- nullable fields
NULLABLE = ("d->search", "d->align")


def null_rule(ctx, P):
    r = ctx.rule("NULL.fields", "in decoder.c every dereference through d->search / d->align, and every call that passes them to a function that dereferences the argument, is dominated by a non-NULL test of the field (after its last store) or by a store of a freshly tested value", floor=12)
    for f in P.functions("decoder.c"):
        if not f.file.endswith("decoder.c"):
            continue
        for fld in NULLABLE:
            uses = []
            for i in f.walk():
                nd = f.nodes[i]
                if nd["k"] == "Member" and nd.get("arrow") and f.canon(f.ch(i)[0], subst=False) == fld:
                    uses.append((i, "dereferenced"))
                if nd["k"] == "Call":
                    for ai, a in enumerate(f.args(i)):
                        if f.canon(a, subst=False) == fld:
                            cal = f.nodes[i].get("callee")
                            tg = P.fn_index.get(cal, []) if cal else []
                            if any(ai < len(g.params) and c17._derefs_param_unguarded(g, ai) for g in tg):
                                uses.append((i, "passed to %s, which dereferences it" % cal))
            if not uses:
                continue
            ctx.touch(f)

            def nonnull(fn, cc, pol, fld=fld):
                return paths.cond_atoms(fn, cc, pol, subst=False) == (fld, True)
            stores = [s for s in paths.stores(f) if s["path"] == fld and s["op"] == "="]
            for n, (i, how) in enumerate(uses):
                e = c17._elem_of(f, i)
                ok = paths.guarded(f, e, nonnull)
                if ok:
                    # not invalidated by a later store of NULL / unknown
                    for s in stores:
                        if paths.may_reach(f, s["node"], lambda x, e=e: x == e) and not paths.guarded_from(f, s["node"], e, nonnull):
                            v = s["rhs"]
                            if v is None or paths._is_zero(f, v) or not _tested_value(f, s, v):
                                ok = False
                else:
                    # every path passes a store of a value that was itself tested non-NULL
                    good = [s["node"] for s in stores if s["rhs"] is not None and _tested_value(f, s, s["rhs"])]
                    ok = bool(good) and not f.cfg.path_exists((f.cfg.entry, -1), lambda x, e=e: x == e, is_barrier=lambda x: x in good, removed_edges=set(paths.guard_edges(f, nonnull)))
                ctx.check(r, ok, key(f, "%s#%d" % (fld, n + 1)), f.where(i), "`%s` is %s without a dominating test that it is set: before a grammar is loaded (or after an alignment was dropped) it is NULL" % (fld, how))


def _tested_value(f, s, v):
    """the stored value is a local / call result that is tested non-NULL before the store"""
    d = paths.local_of(f, v)
    if d is None:
        return False
    name = f.canon(f.strip(v), subst=False)
    return paths.guarded(f, s["node"], lambda fn, cc, pol, name=name: paths.cond_atoms(fn, cc, pol, subst=False) == (name, True))


# -------------------------------------------------------------------------------- iterators
ITERS = {"hash_table_iter_next": "hash_table_iter_free", "fsg_arciter_next": "fsg_arciter_free", "alignment_iter_next": "alignment_iter_free",
         "seg_iter_next": "seg_iter_free", "hyp_iter_next": "hyp_iter_free", "jsgf_rule_iter_next": "jsgf_rule_iter_free",
         "latlink_iter_next": "latlink_iter_free", "latnode_iter_next": "latnode_iter_free"}


# functions that sit in a v-table slot but are never the target of the API's calls through that slot
NOT_CALLED = {"state_align_search_hyp": "slot `hyp` of the state aligner: the library calls hyp only through d->search (decoder_hyp), and d->search is only ever assigned the result of fsg_search_init; checked in receiver_rule"}


def receiver_rule(ctx, P):
    r = ctx.rule("SLOT.receiver", "the hypothesis / lattice / probability slots are only invoked on d->search, and d->search only ever holds an FSG search (the state aligner leaves these slots to functions the API never reaches)", floor=3)
    n = 0
    for f in P.repo_functions():
        for c in f.calls():
            sl = f.nodes[c].get("slot")
            if sl and sl[1] in ("hyp", "prob", "lattice", "seg_iter"):
                n += 1
                ctx.touch(f)
                recv = f.canon(f.args(c)[0], subst=False) if f.args(c) else "?"
                ctx.check(r, recv == "d->search" or recv.endswith("d->search") or recv == "search", key(f, "%s(%s)" % (sl[1], recv)), f.where(c), "slot `%s` is invoked on `%s`, which may be the state aligner: its function for that slot is outside what this check covers" % (sl[1], recv))
    for f in P.functions("decoder.c"):
        for s in paths.stores(f):
            if s["path"] == "d->search" and s["op"] == "=" and s["rhs"] is not None:
                v = f.canon(s["rhs"], calls=True)
                ok = paths._is_zero(f, s["rhs"]) or "fsg_search_init(" in v
                ctx.check(r, ok, key(f, "d->search="), f.where(s["node"]), "d->search is assigned `%s`, not the result of fsg_search_init" % v[:60])
    if n < 2:
        raise AnalysisIncomplete("slot calls vanished")


def iter_rule(ctx, P, fns):
    r = ctx.rule("ITER.early", "a loop that advances a self-freeing iterator (x = *_iter_next(x)) and can be left before the iterator is exhausted releases the iterator on that exit, or hands it on", floor=18)
    for f in fns:
        if f.name in NOT_CALLED:
            continue
        for lp in f.find("For") + f.find("While"):
            adv = []
            for i in f.walk(lp):
                nd = f.nodes[i]
                if nd["k"] == "Assign":
                    rhs = f.strip(nd["ch"][1])
                    if f.k(rhs) == "Call" and (f.nodes[rhs].get("callee") in ITERS or f.nodes[rhs].get("slot") and False):
                        lhs = f.canon(nd["ch"][0], subst=False)
                        if f.args(rhs) and f.canon(f.args(rhs)[0], subst=False) == lhs:
                            adv.append((i, lhs, f.nodes[rhs]["callee"]))
            if not adv:
                continue
            # only the innermost loop that owns the advance
            (a0, it, nxt) = adv[0]
            if f.enclosing(a0, ("For", "While")) != lp:
                continue
            ctx.touch(f)
            free = ITERS[nxt]
            body = set(f.walk(lp))
            frees = set(c for c in f.calls(free) if f.canon(f.args(c)[0], subst=False) == it)
            exits = []
            for i in body:
                k = f.k(i)
                if k in ("Return", "Goto"):
                    exits.append(i)
                elif k == "Break" and f.enclosing(i, ("For", "While", "Do", "Switch")) == lp:
                    exits.append(i)
            n = 0
            for x in exits:
                n += 1
                # returning / storing the iterator hands it on
                if f.k(x) == "Return" and f.ch(x) and it in f.canon(f.ch(x)[0], subst=False):
                    ctx.ok(r, key(f, "%s@exit%d" % (it, n)), f.where(x), "iterator returned")
                    continue
                # exits taken only when snprintf / a pure length computation reports an error cannot be taken with these formats
                if paths.guarded(f, x, lambda fn, cc, pol: (lambda q: q is not None and q[1] == "<" and q[2] == "0" and re.search(r"snprintf\(|serialize_(key|value)\(", q[0]) is not None)(paths.rel(fn, cc, pol, subst=False))):
                    ctx.ok(r, key(f, "%s@exit%d" % (it, n)), f.where(x), "exit only on a negative snprintf / length result (cannot happen with the fixed formats used)")
                    continue
                cnd = f.ch(lp)[1] if f.k(lp) == "For" else f.ch(lp)[0]
                cset = (set(f.walk(cnd)) | {cnd}) if f.k(cnd) != "Absent" else set()
                # from the loop test to this exit without releasing; or released after the loop on every path from a break
                esc = f.cfg.path_exists(paths.pos_of(f, a0), lambda e, x=x: e == x, is_barrier=lambda e: e in frees)
                first_iter = bool(cset) and f.cfg.path_exists(paths.pos_of(f, cnd), lambda e, x=x: e == x, is_barrier=lambda e: e in frees or e == a0)
                leaked = esc or first_iter
                if leaked and f.k(x) in ("Break", "Goto"):
                    # released (or handed on) after leaving the loop
                    after = set(c for c in f.calls(free) if f.canon(f.args(c)[0], subst=False) == it and c not in body)
                    handed = set(s["node"] for s in paths.stores(f) if s["rhs"] is not None and f.canon(s["rhs"], subst=False) == it and s["node"] not in body)
                    rets = set(rt for rt in f.find("Return") if f.ch(rt) and it in f.canon(f.ch(rt)[0], subst=False))
                    if paths.must_pass(f, x, lambda e: e in after or e in handed or e in rets):
                        leaked = False
                ctx.check(r, not leaked, key(f, "%s@exit%d" % (it, n)), f.where(x), "the loop over `%s` is left here while the iterator is still live and %s(%s) is not called: the iterator leaks" % (it, free, it))
            if not exits:
                ctx.ok(r, key(f, "%s:runs-to-end" % it), f.where(lp), "no early exit")


# -------------------------------------------------------------------------------- allocation sizes / len-1
ALLOC_EXEMPT = {("listelem_add_block", "list->freelist"): "byte pool of elemsize-sized cells handed out as char **",
                ("__ckd_calloc_2d__", "ref"): "row pointer table", }


def allocsz_rule(ctx, P):
    r = ctx.rule("ALLOCSZ", "every allocation assigned to a pointer to elements wider than one byte is sized in units of that element (some term of the byte size is a multiple of the element size)", floor=110)
    n = 0
    for f in P.repo_functions():
        if unit_of(f) in GENERATED or unit_of(f) in ("ckd_alloc.c",):
            continue
        try:
            res = list(allocsz.check(P, f))
        except Exception:
            continue
        for (c, lhs, es, size, ok) in res:
            if (f.name, lhs) in ALLOC_EXEMPT:
                continue
            n += 1
            ctx.touch(f)
            k = key(f, "alloc:%s@%d" % (lhs, sum(1 for (c2, l2, _e, _s, _o) in res if l2 == lhs and c2 <= c)))
            ctx.check(r, ok, k, f.where(c), "`%s` points to %d-byte elements but is allocated %s bytes" % (lhs, es, lin.p_str(size)), lin.p_str(size))


def len_rule(ctx, P):
    r = ctx.rule("LEN.nonempty", "a subscript `x[strlen(x) - 1]` or `x[len - 1]` with len = strlen(x) is dominated by a test that the string is not empty", floor=1)
    for f in P.repo_functions():
        if unit_of(f) in GENERATED or f.name in NOT_CALLED:
            continue
        for i in f.find("Subscript"):
            ix = f.canon(f.ch(i)[1])          # with substitution: len -> strlen(x)
            raw = f.canon(f.ch(i)[1], subst=False)
            m = re.match(r"^\(strlen\((.*)\) - 1\)$", ix) or re.match(r"^\(-1 \+ strlen\((.*)\)\)$", ix)
            if not m:
                continue
            ctx.touch(f)
            x = m.group(1)
            lenvar = re.match(r"^\((\w+) - 1\)$", raw)

            def nonempty(fn, cc, pol, x=x, lv=lenvar.group(1) if lenvar else None):
                a = paths.cond_atoms(fn, cc, pol, subst=False)
                if a in (("strlen(%s)" % x, True), ("*%s" % x, True), ("%s[0]" % x, True)):
                    return True
                if lv and a == (lv, True):
                    return True
                q = paths.rel(fn, cc, pol, subst=False)
                if q is None:
                    return False
                names = ("strlen(%s)" % x,) + ((lv,) if lv else ())
                if q[2] in names and q[1] in ("<", "<=") and re.match(r"^\d+$", q[0]) and (int(q[0]) > 0 or q[1] == "<"):
                    return True
                return False
            n = sum(1 for j in f.find("Subscript") if j <= i)
            ctx.check(r, paths.guarded(f, c17._elem_of(f, i), nonempty), key(f, "%s[len-1]#%d" % (x[:20], n)), f.where(i), "`%s` is indexed with its length minus one without a test that it is not empty: an empty string reads (or writes) the byte before the buffer" % x)


# -------------------------------------------------------------------------------- empty alignment
def empty_rule(ctx, P):
    r = ctx.rule("EMPTY.align", "the state aligner is only created for an alignment that holds at least one word: the call is dominated by a test of the word count", floor=1)
    f = P.fn("decoder_alignment", "decoder.c")
    ctx.touch(f)
    calls = f.calls("state_align_search_init")
    if not calls:
        raise AnalysisIncomplete("anchor vanished: state_align_search_init call in decoder_alignment")
    for c in calls:
        al = f.canon(f.args(c)[3], subst=False) if len(f.args(c)) > 3 else None

        def nonempty(fn, cc, pol):
            s = fn.canon(cc, subst=False)
            q = paths.rel(fn, cc, pol, subst=False)
            a = paths.cond_atoms(fn, cc, pol, subst=False)
            cnt = lambda t: "alignment_n_words" in t or t.endswith("word.n_ent") or t.endswith("word.n_ent)")
            if cnt(a[0]) and a[1] is True and q is None:
                return True
            if q and cnt(q[2]) and q[1] in ("<", "<=") and re.match(r"^\d+$", q[0]) and (int(q[0]) > 0 or q[1] == "<"):
                return True
            if q and q[1] == "!=" and (cnt(q[0]) or cnt(q[2])) and "0" in (q[0], q[2]):
                return True
            return False
        ctx.check(r, paths.guarded(f, c, nonempty), key(f, "aligner-needs-words"), f.where(c), "state_align_search_init is reached with an alignment that may hold no word (hypothesis of null transitions / fillers only, or no audio yet): it allocates zero HMMs and the first step enters element 0")


# -------------------------------------------------------------------------------- alignment text: counting and building passes
RELEASED_EXEMPT = {
    "search_module_base_free": "the base part of a search's destructor: its callers release the object itself right after",
}


def released_field_rule(ctx, P):
    """what a field of the decoder points to is released only together with the field: by the time the
    function returns the field has been given a new value (or NULL), or the object holding it is gone"""
    r = ctx.rule("FIELD.released", "in decoder.c a release of what a field points to (x_free(d->f), ckd_free(d->f)) is followed on every path to the function's exits by a store to that field or by the release of the object holding it: no exit leaves the field pointing at released memory for the next API call (or decoder_free) to use", floor=12)
    for f in [g for g in P.functions("decoder.c") if g.file.endswith("decoder.c")]:
        if f.name in RELEASED_EXEMPT:
            continue
        n = 0
        for c in f.calls():
            cal = f.nodes[c].get("callee") or ""
            if not cal and (f.nodes[c].get("slot") or [None, None])[1] == "free":
                cal = "search_module_free"       # the release slot of a search module
            if not (cal.endswith("_free") or cal in ("ckd_free", "__ckd_free__")):
                continue
            a = f.args(c)
            if not a or f.k(f.strip(a[0])) != "Member":
                continue
            j = f.strip(a[0])
            pth = f.canon(j, subst=False)
            base = f.canon(f.ch(j)[0], subst=False)
            st = set(s_["node"] for s_ in paths.stores(f) if s_["path"] == pth)
            gone = set(c2 for c2 in f.calls() if (f.nodes[c2].get("callee") or "").endswith("free") and f.args(c2) and f.canon(f.args(c2)[0], subst=False) == base)
            n += 1
            ctx.touch(f)
            ctx.check(r, paths.must_pass(f, c, lambda e: e in st or e in gone), key(f, "%s#%d" % (pth, n)), f.where(c), "%s releases what `%s` points to and can return with the field unchanged: the next call that looks at it (decoder_free at the latest) uses and releases freed memory" % (f.name, pth))


def vector_width_rule(ctx, P):
    """the alignment's vectors count their entries in 16 bits: growing one is refused when the counters
    cannot describe the result, and no capacity beyond 16 bits is ever stored"""
    from .. import symx
    r = ctx.rule("WIDTH.vector", "vector_grow_one, path by path over values: some path refuses (returns NULL) under a comparison with the 16-bit limit, and every capacity it stores is a constant within that limit or was compared with it on the path (a vector that cannot refuse wraps its count to 0 and hands out the slot before its storage)", floor=2)
    f = P.fn("vector_grow_one", "ps_alignment.c")
    ctx.touch(f)
    cap = "*" + f.params[1][0]
    refuses, wide, nst = False, None, 0
    for pt in symx.run_paths(f, P):
        lim = [k_ for k_, v_ in pt.atoms.items() if k_[0] == "<" and k_[1] == "65535"]
        if pt.ret is not None and lin.p_str(pt.ret) == "0" and any(pt.atoms[k_] for k_ in lim):
            refuses = True
        for (pth, v_, n_) in pt.stores:
            if pth != cap:
                continue
            nst += 1
            vs = lin.p_str(v_)
            const = v_.get((), 0) if all(m_ == () for m_ in v_) else None
            if not ((const is not None and 0 < const <= 65535) or pt.atoms.get(("<", "65535", vs)) is False):
                wide = (vs, n_)
    if nst == 0:
        raise AnalysisIncomplete("vector_grow_one no longer stores a capacity")
    ctx.check(r, refuses, key(f, "refuses-at-limit"), f.where(f.root), "vector_grow_one never refuses: once a vector holds 65535 entries the 16-bit count wraps to 0, the slot handed out lies before the vector's storage and the alignment describes garbage")
    ctx.check(r, wide is None, key(f, "capacity-fits"), f.where(wide[1]) if wide else f.where(f.root), "the capacity `%s` is stored in 16 bits without having been compared with the limit on this path" % (wide[0] if wide else ""))


def align_text_rule(ctx, P):
    r = ctx.rule("TWIN.align-text", "decoder_set_align_text sizes the grammar from a count taken by the same tokeniser call (same delimiters) that the building pass uses, both passes advance the counter once per word from zero, and the transitions go from state k to k+1 of that counter", floor=5)
    f = P.fn("decoder_set_align_text", "decoder.c")
    ctx.touch(f)
    ini = f.calls("fsg_model_init")
    tr = f.calls("fsg_model_trans_add")
    if len(ini) != 1 or not tr:
        raise AnalysisIncomplete("anchor vanished: fsg_model_init / fsg_model_trans_add in decoder_set_align_text")
    m = re.match(r"^\((\w+) \+ 1\)$|^\(1 \+ (\w+)\)$", f.canon(f.args(ini[0])[3], subst=False))
    if not ctx.check(r, m is not None, key(f, "state-count"), f.where(ini[0]), "the grammar is created with `%s` states, not word count + 1" % f.canon(f.args(ini[0])[3], subst=False)):
        return
    v = m.group(1) or m.group(2)
    loops = []
    for lp in f.find("While") + f.find("For"):
        incs = [i for i in f.walk(lp) if f.k(i) == "Un" and f.nodes[i]["op"] in ("pre++", "post++") and f.canon(f.ch(i)[0], subst=False) == v]
        incs += [i for i in f.walk(lp) if f.k(i) == "CompoundAssign" and f.nodes[i]["op"] == "+=" and f.canon(f.ch(i)[0], subst=False) == v]
        if incs:
            cnd = f.ch(lp)[0] if f.k(lp) == "While" else f.ch(lp)[1]
            loops.append((lp, cnd, incs))
    count = [l for l in loops if paths.may_reach(f, l[1], lambda e: e == ini[0]) and not any(t in set(f.walk(l[0])) for t in tr)]
    build = [l for l in loops if any(t in set(f.walk(l[0])) for t in tr)]
    ok = len(count) == 1 and len(build) == 1
    ctx.check(r, ok, key(f, "two-passes"), f.where(ini[0]), "expected one counting loop before fsg_model_init and one building loop with the transitions, both advancing `%s` (found %d / %d)" % (v, len(count), len(build)))
    if not ok:
        return
    c1 = f.canon(count[0][1], subst=False)
    c2 = f.canon(build[0][1], subst=False)
    ctx.check(r, c1 == c2 and "nextword(" in c1, key(f, "same-tokeniser"), f.where(count[0][1]), "the counting pass splits the text with `%s` but the building pass with `%s`: a text on which they disagree gets fewer states than transitions" % (c1[:70], c2[:70]))
    for nm, (lp, cnd, incs) in (("count", count[0]), ("build", build[0])):
        body = f.ch(lp)[1] if f.k(lp) == "While" else f.ch(lp)[-1]
        once = len(incs) == 1 and not [x for x in f.walk(lp) if f.k(x) == "Continue"]
        ctx.check(r, once, key(f, "%s-once" % nm), f.where(lp), "the %s pass does not advance `%s` exactly once per word" % (nm, v))
        zero = [s_ for s_ in paths.stores(f) if s_["path"] == v and s_["op"] == "=" and s_["rhs"] is not None and f.constval(s_["rhs"]) == 0 and paths.always_before(f, cnd, lambda e, n_=s_["node"]: e == n_)]
        others = [s_ for s_ in paths.stores(f) if s_["path"] == v and s_["op"] == "=" and (s_["rhs"] is None or f.constval(s_["rhs"]) != 0)]
        ctx.check(r, bool(zero) and not others, key(f, "%s-from-zero" % nm), f.where(lp), "`%s` does not start from zero in the %s pass" % (v, nm))
    for t in tr:
        a = [f.canon(x, subst=False) for x in f.args(t)]
        ctx.check(r, a[1] == v and a[2] in ("(%s + 1)" % v, "(1 + %s)" % v), key(f, "chain"), f.where(t), "transition goes from `%s` to `%s`, not from word k to k+1" % (a[1], a[2]))
    fin = [s_ for s_ in paths.stores(f) if s_["path"] == "fsg->final_state"]
    ctx.check(r, len(fin) == 1 and f.canon(fin[0]["rhs"], subst=False) == v, key(f, "final-state"), f.where(fin[0]["node"]) if fin else f.where(f.root), "the final state is not the number of words")


# -------------------------------------------------------------------------------- exits
API_ROOTS = ("decoder_start_utt", "decoder_process_int16", "decoder_process_float32", "decoder_end_utt", "decoder_hyp", "decoder_prob",
             "decoder_seg_iter", "seg_iter_next", "seg_iter_free", "seg_iter_word", "seg_iter_frames", "seg_iter_prob", "decoder_alignment",
             "decoder_result_json", "decoder_free", "decoder_n_frames", "decoder_get_cmn", "decoder_lattice", "lattice_bestpath",
             "lattice_posterior", "lattice_free", "decoder_nbest", "hyp_iter_next", "hyp_iter_free", "hyp_iter_hyp", "alignment_words",
             "alignment_iter_next", "alignment_iter_children", "alignment_iter_free", "alignment_free", "decoder_get_config",
             "decoder_lookup_word", "config_free", "config_str", "config_int", "config_float", "config_bool")
EXIT_REASONS = {
    ("ckd_fail", ""): "allocation failure policy (memory exhaustion is outside the property)",
    ("acmod_grow_feat_buf", "Decoder can not process more than"): "capacity limit of one utterance held in memory (MAX_N_FRAMES); reasoned, see DESIGN.md",
    ("acmod_process_full_cep", "Batch processing can not process more than"): "same limit for one-call utterances",
    ("fsg_search_hmm_eval", "PANIC"): "internal consistency check of the active list against the lexicon tree size (not input-dependent)",
    ("cmn_live", "Variance normalization not implemented"): "configuration combination refused when it is first used",
    ("chksum_accum", "Unsupported elemsize"): "element sizes are compile-time constants (C17)",
    ("swap_buf", "Unsupported elemsize"): "element sizes are compile-time constants (C17)",
    ("yy_fatal_error", ""): "generated scanner, fixed internal messages (C10)",
    ("fsg_psubtree_init", "#phones >"): "compile-time capacity against the model's phone count (C10)",
}


def exit_rule(ctx, P):
    r = ctx.rule("EXIT.api", "every process exit (E_FATAL, exit, abort) reachable from the run-time API is in the reasoned table (allocation policy, capacity limit, internal consistency); an exit that is not in the table is a violation", floor=5)
    roots = [x for x in API_ROOTS if x in P.fn_index]
    if len(roots) < 30:
        raise AnalysisIncomplete("API entry points vanished (%d of %d)" % (len(roots), len(API_ROOTS)))
    names = P.reachable_functions(roots)
    n = 0
    for nme in sorted(names):
        for f in P.fn_index.get(nme, []):
            if not f.relfile().startswith("src/"):
                continue
            for c in f.calls():
                if f.nodes[c].get("callee") not in ("exit", "abort"):
                    continue
                n += 1
                ctx.touch(f)
                msg = ""
                blk = f.enclosing(c, ("Do", "Compound"))
                if blk is not None:
                    for c2 in f.calls(root=blk):
                        if f.nodes[c2].get("callee") in ("err_msg", "err_msg_system"):
                            for a in f.args(c2):
                                s = f.strip(a)
                                if f.k(s) == "Str" and not str(f.nodes[s].get("v", "")).endswith(".c"):
                                    msg = str(f.nodes[s]["v"])
                                    break
                why = None
                for (fn_, pref), reason in EXIT_REASONS.items():
                    if fn_ == f.name and msg.startswith(pref):
                        why = reason
                k = key(f, re.sub(r"[^A-Za-z#%() -]", "", msg)[:30].strip() or f.nodes[c]["callee"])
                if why:
                    ctx.ok(r, k, f.where(c), "table: " + why)
                else:
                    ctx.bad(r, k, f.where(c), "process exit reachable from the run-time API that is not in the reasoned table: \"%s\"" % msg.strip()[:80])
    if n < 5:
        raise AnalysisIncomplete("exit census found only %d exits" % n)


ITER_ARRAYS = (("fsg_search.c", "fsg_search_seg_iter", "fsg_seg_free", "itor->hist"),
               ("ps_lattice.c", "lattice_seg_iter", "lattice_seg_free", "itor->links"),
               ("ps_lattice.c", "astar_search_seg_iter", "astar_search_seg_free", "itor->nodes"))


def iter_own_rule(ctx, P):
    """The array a segment iterator walks is the iterator's own: allocated by the function that creates the
    iterator and released by the iterator's free function.  An iterator that borrows an array kept elsewhere (a
    cache in the search module, say) reads released memory as soon as the owner rebuilds it while the iterator is
    still open - more audio and a second iterator are enough."""
    r = ctx.rule("OWN.iter-array", "the array a segment iterator walks is allocated for that iterator by its constructor and released by its free function: an open iterator never depends on memory another call may release or rebuild", floor=6)
    for (unit, ctor, dtor, path) in ITER_ARRAYS:
        fs = [g for g in P.functions(unit) if g.name == ctor]
        ds = [g for g in P.functions(unit) if g.name == dtor]
        if not fs or not ds:
            raise AnalysisIncomplete("anchor vanished: %s / %s in %s" % (ctor, dtor, unit))
        f, d = fs[0], ds[0]
        ctx.touch(f)
        ctx.touch(d)
        sts = [s_ for s_ in paths.stores(f) if s_["path"] == path and s_["op"] == "=" and s_["rhs"] is not None]
        fresh = [s_ for s_ in sts if f.k(f.strip(s_["rhs"])) == "Call" and f.nodes[f.strip(s_["rhs"])].get("callee") in ("__ckd_calloc__", "__ckd_malloc__", "ckd_calloc", "ckd_malloc")]
        ctx.check(r, bool(sts) and len(fresh) == len(sts), "%s:%s:fresh" % (ctor, path), f.where(sts[0]["node"]) if sts else f.where(f.root), "`%s` is not given an array allocated for this iterator (%s): the iterator walks memory owned by something that can release or rebuild it while the iterator is open" % (path, [f.canon(s_["rhs"], subst=False)[:50] for s_ in sts] or "never assigned"))
        rel = [c for c in d.find("Call") if d.nodes[c].get("callee") in ("ckd_free",) and d.canon(d.args(c)[0], subst=False) == path]
        ctx.check(r, len(rel) == 1, "%s:%s:released" % (dtor, path), d.where(rel[0]) if rel else d.where(d.root), "%s does not release `%s` exactly once" % (dtor, path))


def run(ctx):
    P = ctx.P
    state_rule(ctx, P)
    null_rule(ctx, P)
    api = [f for f in P.repo_functions() if unit_of(f) in API_UNITS]
    c10.consume_rule(ctx, P, api)
    iter_own_rule(ctx, P)
    c17.unwind_rule(ctx, P, api, floor=40, only_readers=False, extra_allocs=("copy_header_value", "string_join", "s3file_copy_nextword", "decoder_lookup_word", "fopen"), extra_frees=("fclose", "*_free"), extra_owned=("alignment_init", "fsg_model_init", "jsgf_grammar_new", "lattice_init", "fsg_model_read_s3file", "fsg_model_readfile", "jsgf_parse_string", "jsgf_parse_file", "jsgf_build_fsg", "hash_table_new", "*ctor"))
    receiver_rule(ctx, P)
    iter_rule(ctx, P, [f for f in P.repo_functions() if unit_of(f) not in GENERATED])
    allocsz_rule(ctx, P)
    len_rule(ctx, P)
    empty_rule(ctx, P)
    align_text_rule(ctx, P)
    released_field_rule(ctx, P)
    vector_width_rule(ctx, P)
    exit_rule(ctx, P)
    # the JSON writer sizes a buffer in one pass and fills it in another: the clauses that keep the two passes and the
    # escaper's count and copy in step are memory-safety clauses; what the values say (E4) is C14's business only
    from ..report import Only
    c14.run(Only(ctx, ("EMIT.E1-two-passes", "EMIT.E2-accounting", "TAINT.E3-escaping")))
