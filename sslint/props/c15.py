"""C15 — endpointed segments are exact excerpts with consistent timestamps.

Decides (DESIGN.md §4 C15): RING discipline of the frame queue, region
bounds of every copy into / out of the queue storage, clock/head pairing,
timestamp once per frame, in-speech state writers and their guards, the
index set of the speech counter, push/pop data integrity, linearize twin.
Not decided: numeric meaning of the ratio thresholds, timestamp values.
"""
from .. import lin, paths, ring
from ..prog import AnalysisIncomplete

FIXTURES = ["ring_fx.c"]
UNIT = "ps_endpointer.c"
REC = "endpointer_s"

SPEC = ring.RingSpec("endpointer queue", REC, "maxlen", cursors=["pos"],
                     storages=["is_speech"], strided={"buf": "frame_size"})
FX_SPEC = ring.RingSpec("fixture", "fx_ring_s", "maxlen", cursors=["pos"],
                        storages=["flags"], strided={"buf": "frame_size"})


def key(fn, what):
    return "%s:%s" % (fn.name, what)


def ring_index_rule(ctx, rid, fn, spec):
    """returns number of violations"""
    nviol = 0
    for ob in ring.analyse(fn, spec):
        node = ob["node"]
        # pointer offsets that feed memcpy/memmove are decided by the region rule
        in_region = False
        for a in fn.ancestors(node):
            if fn.k(a) == "Call" and fn.nodes[a].get("callee") in ("memcpy", "memmove", "memset"):
                in_region = True
        # ... also through a local that is only passed to memcpy
        if ob["kind"].startswith("offset") and not in_region:
            par = fn.up(node)
            if par is not None and fn.k(par) in ("Var", "Assign"):
                in_region = "via-local"
        if ob["kind"] in ("offset-raw", "offset-nostride") and in_region is True:
            continue
        if in_region is True:
            continue
        if ob["kind"] in ("cursor-exit", "cursor-advance"):
            if ob["kind"] == "cursor-exit":
                nviol += 1
                ctx.bad(rid, key(fn, "cursor-exit:" + ob["storage"]), fn.where(ob["node"]), "cursor `%s` may leave the function outside [0, %s)" % (ob["storage"], spec.length))
            continue
        idx = fn.canon(ob["index"], subst=False)
        k = key(fn, "%s[%s]" % (ob["storage"], idx))
        if ob["kind"] == "offset-raw" or ob["kind"] == "offset-nostride":
            # raw pointer offset outside a copy: index must still be N
            pass
        if ob["state"] == ring.N:
            ctx.ok(rid, k, fn.where(node), "index %s is %s" % (idx, ring.NAMES[ob["state"]]))
        else:
            nviol += 1
            ctx.bad(rid, k, fn.where(node), "ring storage `%s` is indexed with `%s`, which is %s relative to `%s` on some path (used between an increment and the wrap)" % (ob["storage"], idx, ring.NAMES[ob["state"]], spec.length))
    return nviol


def region_rule(ctx, rid, fn, spec, elem_bytes, capacity, bounds_for=None):
    nviol = 0
    for op in ring.region_ops(fn, spec, elem_bytes, capacity):
        call = op["call"]
        k = key(fn, "%s:%s:%s" % (fn.nodes[call]["callee"], op["role"], op["field"]))
        # several copies of the same kind in one function: add offset form
        if "D" not in op:
            nviol += 1
            ctx.bad(rid, k, fn.where(call), op["why"])
            continue
        k += ":" + lin.p_str(op["off"])
        bounds = bounds_for(fn, call) if bounds_for else ()
        ok, form = ring.region_nonneg(op["D"], bounds)
        if ok:
            ctx.ok(rid, k, fn.where(call), "capacity - offset - count = %s >= 0" % form)
        else:
            nviol += 1
            ctx.bad(rid, k, fn.where(call), "copy may run past the end of `%s`: capacity - offset - count = %s is not provably non-negative (offset %s, count %s)" % (op["field"], form, lin.p_str(op["off"]), lin.p_str(op["count"])))
    return nviol


def vad_params_rule(ctx, P):
    r = ctx.rule("EFFECT.vad-params", "vad_set_input_params changes the detector only when it accepts the values: no store to the object can be followed by an error return (the endpointer reads frame size and rate from the shared detector on every frame)", floor=3)
    f = P.fn("vad_set_input_params", "ps_vad.c")
    ctx.touch(f)
    errs = set()
    for rt in f.find("Return"):
        if not f.ch(rt):
            continue
        v = f.constval(f.ch(rt)[0])
        if v is not None and v < 0:
            errs.add(rt)
        elif v is None and paths.guarded(f, rt, lambda fn, cc, pol: (lambda q: q is not None and q[1] == "<" and q[2] == "0")(paths.rel(fn, cc, pol, subst=False))):
            errs.add(rt)
    st = [s_ for s_ in paths.stores(f) if s_["kind"] == "Member" and s_["path"].startswith(f.params[0][0] + "->")]
    if len(st) < 3 or not errs:
        raise AnalysisIncomplete("anchor vanished: stores / error returns of vad_set_input_params (%d / %d)" % (len(st), len(errs)))
    for s_ in st:
        bad = [rt for rt in errs if paths.may_reach(f, s_["node"], lambda e, rt=rt: e == rt)]
        ctx.check(r, not bad, "vad_set_input_params:%s" % s_["path"], f.where(s_["node"]), "`%s` is written before the values are validated (an error return at line %s can follow): a refused call leaves the detector with the refused values" % (s_["path"], f.line(bad[0]) if bad else "?"))


def run(ctx):
    P = ctx.P
    vad_params_rule(ctx, P)
    U = P.unit(UNIT)
    fns = {f.name: f for f in P.functions(UNIT) if f.file.endswith(UNIT)}
    for f in fns.values():
        ctx.touch(f)
    need = ["ep_speech_count", "ep_push", "ep_pop", "ep_linearize", "endpointer_process", "endpointer_end_stream", "endpointer_init"]
    for n in need:
        if n not in fns:
            raise AnalysisIncomplete("anchor vanished: %s in %s" % (n, UNIT))

    # ---- R1 ring index discipline ------------------------------------------------
    r1 = ctx.rule("RING.index", "every subscript of / strided offset into the queue storage (is_speech[], buf + i*frame_size) uses an index in [0, maxlen) on every path", floor=4)
    for f in fns.values():
        ring_index_rule(ctx, r1, f, SPEC)
    # cursor stores keep the cursor in [0,maxlen)
    r1b = ctx.rule("RING.cursor", "every store to the queue head `pos` is `(pos+1) % maxlen` or 0", floor=3)
    advances = []
    for f in fns.values():
        for (node, field, rhs, op) in ring.cursor_stores(f, SPEC):
            form = f.canon(rhs) if rhs is not None else op
            base = f.canon(f.nodes[f.strip(f.nodes[node]["ch"][0])]["ch"][0], subst=False)
            adv = "((1 + %s->pos) %% %s->maxlen)" % (base, base)
            k = key(f, "pos=" + form)
            # `ep->pos = ep->n = 0`
            zero = form in ("0",) or form.endswith("= 0")
            if form == adv:
                advances.append((f, node))
                ctx.ok(r1b, k, f.where(node), "head advance")
            elif zero:
                ctx.ok(r1b, k, f.where(node), "reset to 0")
            else:
                ctx.bad(r1b, k, f.where(node), "store to the queue head is `%s`, neither the wrapped advance `%s` nor 0" % (form, adv))

    # ---- R2 region bounds ------------------------------------------------------------
    r2 = ctx.rule("RING.region", "every memcpy/memmove touching buf[] / is_speech[] stays inside the allocation (capacity - offset - count >= 0 as a polynomial identity, index atoms < maxlen)", floor=9)
    cap = {"buf": lin.p_mul(lin.p_atom("#LEN"), lin.p_atom("ep->frame_size")), "is_speech": lin.p_atom("#LEN")}

    def bounds_for(fn, call):
        # a dominating guard `x > frame_size -> return` gives x <= frame_size
        out = []
        for (s, d, c, pol) in fn.cfg.cond_edges():
            r = paths.rel(fn, c, pol, subst=False)
            if r and r[1] == "<=" and r[2].endswith("->frame_size"):
                small = r[0]
                if paths.guarded(fn, call, lambda f, cc, pp, c0=c, p0=pol: cc == c0 and pp == p0):
                    out.append((small, r[2]))
        return out
    for f in fns.values():
        region_rule(ctx, r2, f, SPEC, {"buf": 2, "is_speech": 1}, cap, bounds_for)
    # allocation of the storage agrees with the capacity used above
    init = fns["endpointer_init"]
    r2b = ctx.rule("ALLOCSZ.queue", "buf is allocated maxlen*frame_size elements of sizeof(*buf); is_speech maxlen bytes", floor=2)
    for s in paths.stores(init):
        if s["rec"] == REC and s["field"] in ("buf", "is_speech") and s["rhs"] is not None:
            r = init.strip(s["rhs"])
            if init.k(r) == "Call" and init.nodes[r].get("callee") in ("__ckd_calloc__", "__ckd_malloc__"):
                a = init.args(r)
                if init.nodes[r]["callee"] == "__ckd_calloc__":
                    tot = lin.p_mul(lin.poly(init, a[0]), lin.poly(init, a[1]))
                else:
                    tot = lin.poly(init, a[0])
                want = {"buf": "2*ep->frame_size*ep->maxlen", "is_speech": "ep->maxlen"}[s["field"]]
                ctx.check(r2b, lin.p_str(tot) == want, key(init, s["field"]), init.where(s["node"]),
                          "`%s` is allocated %s bytes, the copies assume %s" % (s["field"], lin.p_str(tot), want), lin.p_str(tot))

    # ---- R3 clock / head pairing -------------------------------------------------------
    r3 = ctx.rule("PAIR.clock", "every advance of the queue head is paired on every path with exactly one `qstart_time += frame_length`, and vice versa", floor=4)
    clock = []
    for f in fns.values():
        for s in paths.field_stores(f, REC, "qstart_time"):
            clock.append((f, s))
    for (f, node) in advances:
        mates = [s for (g, s) in clock if g is f and paths.paired(f, s["node"], node)]
        okc = len(mates) == 1 and mates[0]["op"] == "+=" and f.canon(mates[0]["rhs"], subst=False).endswith("->frame_length")
        ctx.check(r3, okc, key(f, "advance"), f.where(node), "queue head advanced without advancing the clock of the oldest queued frame (qstart_time += frame_length) exactly once on the same paths")
    for (f, s) in clock:
        if f.name == "endpointer_init":
            continue
        mates = [n for (g, n) in advances if g is f and paths.paired(f, s["node"], n)]
        ctx.check(r3, len(mates) == 1, key(f, "qstart_time"), f.where(s["node"]), "qstart_time changed (`%s %s`) without a matching head advance on the same paths" % (s["path"], s["op"]))

    # dropping queued frames without the clock: the length is reset (n = 0) only where no timestamp is
    # reported afterwards - when the endpointer is created and when the stream ends
    resetters = set()
    for f in fns.values():
        for s_ in paths.field_stores(f, REC, "n"):
            if s_["op"] == "=" and f.name != "endpointer_init":
                resetters.add(f.name)
    reach = set(resetters)
    grew = True
    while grew:
        grew = False
        for f in fns.values():
            if f.name not in reach and any(f.nodes[c_].get("callee") in reach for c_ in f.calls()):
                reach.add(f.name)
                grew = True
    for nm in sorted(reach - resetters):
        f = fns[nm]
        c_ = [c_ for c_ in f.calls() if f.nodes[c_].get("callee") in reach][0]
        ctx.check(r3, nm in ("endpointer_end_stream", "endpointer_init"), key(f, "drop-without-clock"), f.where(c_), "%s empties the queue (through %s) while the stream goes on: the frames dropped never advance qstart_time, so every later speech_start / speech_end lags the samples returned by their duration" % (nm, f.nodes[c_].get("callee")))
    for nm in sorted(resetters):
        f = fns[nm]
        if nm in ("endpointer_end_stream",):
            continue
        # a resetter of its own: nothing but the reset (it does not report times or frames)
        ctx.check(r3, not paths.field_stores(f, REC, "qstart_time") and not f.find("Return") or nm == "ep_clear", key(f, "resetter"), f.where(f.root), "%s resets the queue length and does more than that" % nm)

    # push: exactly one of {n++, head advance}, head advance iff full
    push = fns["ep_push"]
    r3b = ctx.rule("PAIR.push", "ep_push: on every path exactly one of `n++` / head advance; the head advances only when the queue is full; frame and flag are stored at the same index (pos+n)%maxlen", floor=4)
    ninc = [s for s in paths.field_stores(push, REC, "n")]
    adv = [n for (g, n) in advances if g is push]
    ok1 = len(ninc) == 1 and ninc[0]["op"] == "++" and len(adv) == 1
    if ok1:
        both = set([ninc[0]["node"], adv[0]])
        ok1 = paths.entry_must_pass(push, lambda e: e in both) and not paths.may_reach(push, ninc[0]["node"], lambda e: e == adv[0]) and not paths.may_reach(push, adv[0], lambda e: e == ninc[0]["node"])
    ctx.check(r3b, ok1, key(push, "n++|advance"), push.where(push.root), "ep_push does not perform exactly one of `n++` / head advance on every path")
    if adv:
        g = paths.guarded(push, adv[0], lambda f, c, pol: pol and f.canon(c, subst=False).startswith("ep_full("))
        ctx.check(r3b, g, key(push, "advance-iff-full"), push.where(adv[0]), "head advance in ep_push is not guarded by ep_full()")
    if ninc:
        g = paths.guarded(push, ninc[0]["node"], lambda f, c, pol: (not pol) and f.canon(c, subst=False).startswith("ep_full("))
        ctx.check(r3b, g, key(push, "n++-iff-not-full"), push.where(ninc[0]["node"]), "n++ in ep_push is not guarded by !ep_full()")
    # same index for frame and flag
    subs = [o for o in ring.analyse(push, SPEC) if o["kind"] in ("subscript", "offset")]
    idxs = set(push.canon(o["index"]) for o in subs)
    want_idx = None
    for o in subs:
        want_idx = push.canon(o["index"])
    base = "ep"
    for pn in push.params:
        if "endpointer" in pn[3]:
            base = pn[0]
    tail = "((%s->n + %s->pos) %% %s->maxlen)" % (base, base, base)
    ctx.check(r3b, len(subs) == 2 and idxs == {tail}, key(push, "tail-index"), push.where(push.root), "frame and speech flag are not both stored at the tail index %s (found %s)" % (tail, sorted(idxs)))
    # memcpy source is the caller's frame, full frame
    for c in push.calls("memcpy"):
        a = push.args(c)
        srcv = push.strip(a[1])
        okm = push.k(srcv) == "DeclRef" and push.nodes[srcv]["ref"] == "param" and lin.p_str(lin.poly(push, a[2])) == "2*%s->frame_size" % base
        ctx.check(r3b, okm, key(push, "memcpy-frame"), push.where(c), "ep_push does not copy one whole frame (sizeof(*buf)*frame_size bytes) from its frame argument: memcpy(%s, %s, %s)" % tuple(push.canon(x) for x in a))
    # flag stored is the is_speech parameter
    for s in paths.stores(push):
        if s["kind"] == "Subscript" and "is_speech" in s["path"]:
            r = push.strip(s["rhs"])
            ctx.check(r3b, push.k(r) == "DeclRef" and push.nodes[r]["ref"] == "param", key(push, "flag"), push.where(s["node"]), "speech flag stored in the queue is not the caller's classification")

    # pop
    pop = fns["ep_pop"]
    r3c = ctx.rule("PAIR.pop", "ep_pop: empty test first; after it exactly one `n--` and one head advance; frame pointer and flag are read at the old head before the advance", floor=4)
    ndec = [s for s in paths.field_stores(pop, REC, "n")]
    advp = [n for (g, n) in advances if g is pop]
    okp = len(ndec) == 1 and ndec[0]["op"] == "--" and len(advp) == 1 and paths.paired(pop, ndec[0]["node"], advp[0])
    ctx.check(r3c, okp, key(pop, "n--&advance"), pop.where(pop.root), "ep_pop does not pair exactly one `n--` with one head advance")
    if advp:
        g = paths.guarded(pop, advp[0], lambda f, c, pol: (not pol) and f.canon(c, subst=False).startswith("ep_empty("))
        ctx.check(r3c, g, key(pop, "nonempty"), pop.where(advp[0]), "ep_pop advances the head without a dominating !ep_empty() test")
        pb, pi = paths.pos_of(pop, advp[0])
        # reads of storage at pos must precede the advance
        for o in ring.analyse(pop, SPEC):
            ob, oi = paths.pos_of(pop, o["node"])
            before = (ob == pb and oi < pi) or (ob != pb and not paths.may_reach(pop, advp[0], lambda e, n=o["node"]: e == n))
            ctx.check(r3c, before and pop.canon(o["index"], subst=False).endswith("->pos"), key(pop, "read-%s" % o["storage"]), pop.where(o["node"]), "ep_pop reads `%s` at `%s` after the head was advanced (or not at the head)" % (o["storage"], pop.canon(o["index"], subst=False)))
    # returned pointer
    for rnode in pop.find("Return"):
        if not pop.ch(rnode):
            continue
        rv = pop.canon(pop.ch(rnode)[0])
        if rv == "0":
            continue
        ctx.check(r3c, rv in ("((ep->frame_size * ep->pos) + ep->buf)".replace("ep", base), "&ep->buf[(ep->frame_size * ep->pos)]".replace("ep", base)), key(pop, "return"), pop.where(rnode), "ep_pop returns `%s`, not the frame at the head" % rv)

    # ---- R4 timestamp once per frame --------------------------------------------------
    proc = fns["endpointer_process"]
    r4 = ctx.rule("PAIR.timestamp", "endpointer_process: every path that does not return at the NULL guard pushes exactly one frame and advances `timestamp` by frame_length exactly once; the frame classified is the frame pushed", floor=4)
    pushes = proc.calls("ep_push")
    ts = [s for s in paths.field_stores(proc, REC, "timestamp")]
    ok4 = len(pushes) == 1 and len(ts) == 1 and ts[0]["op"] == "+=" and proc.canon(ts[0]["rhs"], subst=False).endswith("->frame_length")
    ctx.check(r4, ok4, key(proc, "one-push-one-tick"), proc.where(proc.root), "endpointer_process must contain exactly one ep_push and one `timestamp += frame_length` (found %d / %d)" % (len(pushes), len(ts)))
    if ok4:
        pnode, tnode = pushes[0], ts[0]["node"]
        ctx.check(r4, paths.must_pass(proc, pnode, lambda e: e == tnode) and not paths.may_reach(proc, tnode, lambda e: e == tnode), key(proc, "tick-after-push"), proc.where(tnode), "a path pushes a frame without advancing the timestamp exactly once")
        # every path from entry reaches push unless it leaves through the NULL guard
        nullret = [r for r in proc.find("Return") if paths.guarded(proc, r, lambda f, c, pol: paths.cond_atoms(f, c, pol) in (("ep", False), ("ep->vad", False)))]
        ctx.check(r4, paths.entry_must_pass(proc, lambda e: e == pnode or e in nullret), key(proc, "always-push"), proc.where(pnode), "a path through endpointer_process skips ep_push without being the NULL-argument return")
        # frame identity
        a = proc.args(pnode)
        vc = proc.calls("vad_classify")
        okf = len(vc) == 1 and proc.canon(a[1], calls=True) == "vad_classify(ep->vad, frame)".replace("ep", proc.params[0][0]).replace("frame", proc.params[1][0]) and proc.canon(a[2], subst=False) == proc.params[1][0]
        ctx.check(r4, okf, key(proc, "frame-identity"), proc.where(pnode), "the frame pushed / its flag are not the caller's frame and its classification: ep_push(%s)" % ", ".join(proc.canon(x) for x in a))
        # the speech count used for the decision is taken after the push
        sc = proc.calls("ep_speech_count")
        ctx.check(r4, len(sc) == 1 and paths.may_reach(proc, pnode, lambda e: e == sc[0]) and not paths.may_reach(proc, sc[0], lambda e: e == pnode), key(proc, "count-after-push"), proc.where(sc[0]) if sc else proc.where(proc.root), "speech count is not taken once, after the push")

    # ---- R5 in-speech writers ------------------------------------------------------------
    r5 = ctx.rule("CENSUS.in_speech", "in_speech becomes TRUE only under `speech_count > start_frames` (not already in speech) together with speech_start = qstart_time; FALSE only under `speech_count < end_frames` after popping one frame with speech_end = qstart_time, or at end of stream", floor=3)
    pbase = proc.params[0][0]
    cnt = "ep_speech_count(%s)" % pbase
    for f in fns.values():
        for s in paths.field_stores(f, REC, "in_speech"):
            val = f.canon(s["rhs"]) if s["rhs"] is not None else s["op"]
            k = key(f, "in_speech=" + val)
            if f is proc and val in ("0", "1"):
                continue        # decided path by path below
            if f is proc and val == "1":
                def g_start(fn, c, pol):
                    return paths.rel(fn, c, pol) == ("%s->start_frames" % pbase, "<", cnt)
                def g_not(fn, c, pol):
                    return paths.cond_atoms(fn, c, pol) == ("%s->in_speech" % pbase, False)
                ok = paths.guarded(f, s["node"], g_start) and paths.guarded(f, s["node"], g_not)
                mates = [t for t in paths.field_stores(f, REC, "speech_start") if paths.same_block(f, t["node"], s["node"])]
                ok2 = len(mates) == 1 and f.canon(mates[0]["rhs"], subst=False) == "%s->qstart_time" % pbase
                ctx.check(r5, ok, k, f.where(s["node"]), "in_speech is set without the dominating strict test speech_count > start_frames while not in speech")
                ctx.check(r5, ok2, k + ":speech_start", f.where(s["node"]), "speech_start is not set to the stream position of the oldest queued frame (qstart_time) where the segment starts")
            elif f is proc and val == "0":
                def g_end(fn, c, pol):
                    return paths.rel(fn, c, pol) == (cnt, "<", "%s->end_frames" % pbase)
                def g_in(fn, c, pol):
                    return paths.cond_atoms(fn, c, pol) == ("%s->in_speech" % pbase, True)
                ok = paths.guarded(f, s["node"], g_end) and paths.guarded(f, s["node"], g_in)
                ctx.check(r5, ok, k, f.where(s["node"]), "in_speech is cleared without the dominating strict test speech_count < end_frames while in speech")
                # pop precedes, speech_end = qstart_time after the pop, return is the popped frame
                pops = [c for c in f.calls("ep_pop") if paths.same_block(f, c, s["node"])]
                ends = [t for t in paths.field_stores(f, REC, "speech_end") if paths.same_block(f, t["node"], s["node"])]
                ok3 = len(pops) == 1 and len(ends) == 1 and f.canon(ends[0]["rhs"], subst=False) == "%s->qstart_time" % pbase and paths.pos_of(f, pops[0])[1] < paths.pos_of(f, ends[0]["node"])[1]
                ctx.check(r5, ok3, k + ":speech_end", f.where(s["node"]), "segment end is not `qstart_time` taken after popping the last returned frame")
            elif f.name == "endpointer_end_stream" and val == "0":
                ctx.ok(r5, k, f.where(s["node"]), "end of stream")
            else:
                ctx.bad(r5, k, f.where(s["node"]), "unexpected writer of in_speech (`%s = %s`)" % (s["path"], val))
    # endpointer_process, path by path over values (symx.run_paths): when the state flips, what is recorded
    # with it, what is handed back
    from .. import symx, lin as _lin
    B = pbase
    bad5 = {}
    seen5 = {"start": 0, "end": 0, "stay-in": 0, "stay-out": 0}
    for pt in symx.run_paths(proc, P):
        if not any(c_[0] == "ep_push" for c_ in pt.calls):
            if pt.ret is None or _lin.p_str(pt.ret) != "0":
                bad5.setdefault("return", "endpointer_process returns `%s` without having queued the frame" % (_lin.p_str(pt.ret) if pt.ret is not None else None))
            continue
        IN = pt.atoms.get(("nz", "%s->in_speech" % B))
        pops = [i_ for i_, ev_ in enumerate(pt.events) if ev_[0] == "call" and ev_[1] == "ep_pop"]
        flips = [(i_, ev_) for i_, ev_ in enumerate(pt.events) if ev_[0] == "store" and ev_[1] == "%s->in_speech" % B]
        ret = _lin.p_str(pt.ret) if pt.ret is not None else None
        if len(pops) > 1:
            bad5["one-pop"] = "a path pops more than one frame per processed frame"
        if ret not in ("0", "ep_pop(%s, 0)" % B) or (ret != "0") != bool(pops):
            bad5.setdefault("return", "endpointer_process returns `%s` on a path with %d pop(s)" % (ret, len(pops)))
        gt = pt.atoms.get(("<", "%s->start_frames" % B, cnt))
        lt = pt.atoms.get(("<", cnt, "%s->end_frames" % B))
        if IN is None:
            bad5.setdefault("in_speech=1", "the decision does not depend on whether speech is in progress")
            continue
        if len(flips) > 1:
            bad5.setdefault("in_speech=1", "in_speech is written twice on one path")
            continue
        if flips and _lin.p_str(flips[0][1][2]) == "1":
            seen5["start"] += 1
            if IN is not False or gt is not True:
                bad5["in_speech=1"] = "in_speech is set without the strict test speech_count > start_frames while not in speech"
            ss_ = pt.stored("%s->speech_start" % B)
            if ss_ is None or _lin.p_str(ss_) != "%s->qstart_time" % B:
                bad5["in_speech=1:speech_start"] = "speech_start is not set to the stream position of the oldest queued frame (qstart_time) where the segment starts"
            if not pops:
                bad5.setdefault("return", "the first frame of a segment is not handed back")
        elif flips and _lin.p_str(flips[0][1][2]) == "0":
            seen5["end"] += 1
            if IN is not True or lt is not True:
                bad5["in_speech=0"] = "in_speech is cleared without the strict test speech_count < end_frames while in speech"
            ends = [i_ for i_, ev_ in enumerate(pt.events) if ev_[0] == "store" and ev_[1] == "%s->speech_end" % B]
            if len(ends) != 1 or not pops or not (pops[0] < ends[0]) or _lin.p_str(pt.events[ends[0]][2]) != "%s->qstart_time" % B:
                bad5["in_speech=0:speech_end"] = "segment end is not `qstart_time` taken after popping the last returned frame"
        elif flips:
            bad5["in_speech=1"] = "in_speech is set to %s" % _lin.p_str(flips[0][1][2])
        else:
            seen5["stay-in" if IN else "stay-out"] += 1
            if IN and lt is not False:
                bad5["in_speech=0"] = "speech_count < end_frames while in speech does not end the segment"
            if not IN and gt is not False:
                bad5["in_speech=1"] = "speech_count > start_frames while not in speech does not start a segment"
            if IN and not pops:
                bad5.setdefault("return", "while in speech a frame is queued without handing one back")
            if not IN and pops:
                bad5.setdefault("return", "a frame is handed back outside a segment")
    if not all(seen5.values()):
        bad5.setdefault("in_speech=1", "expected start, end, in-segment and out-of-segment paths (%s)" % seen5)
    for k_ in ("in_speech=1", "in_speech=1:speech_start", "in_speech=0", "in_speech=0:speech_end"):
        ctx.check(r5, k_ not in bad5, key(proc, k_), proc.where(proc.root), bad5.get(k_, ""))
    r5b = ctx.rule("PROV.process-return", "endpointer_process returns only NULL or the frame popped from the queue head; while in speech every frame pushed is matched by one pop", floor=2)
    for k_ in ("return", "one-pop"):
        ctx.check(r5b, k_ not in bad5, key(proc, k_), proc.where(proc.root), bad5.get(k_, ""))

    # ---- R7 speech counter index set -------------------------------------------------------
    cntf = fns["ep_speech_count"]
    r7 = ctx.rule("PROV.count-range", "ep_speech_count: full queue counts [0,maxlen); otherwise it starts at the head `pos` and stops at the tail (pos+n)%maxlen; every visited flag is added", floor=3)
    cb = cntf.params[0][0]
    tail = "((%s->n + %s->pos) %% %s->maxlen)" % (cb, cb, cb)
    # loop exit comparisons
    conds = [paths.rel(cntf, c, pol) for (s, d, c, pol) in cntf.cfg.cond_edges()]
    ctx.check(r7, any(r and r[1] in ("==", "!=") and tail in (r[0], r[2]) for r in conds), key(cntf, "stop-at-tail"), cntf.where(cntf.root), "partly-filled case does not stop at the tail index %s" % tail)
    ctx.check(r7, any(r and r[1] == "<" and r[2] == "%s->maxlen" % cb for r in conds), key(cntf, "full-range"), cntf.where(cntf.root), "full case does not range over [0, maxlen)")
    # start index of partial walk is pos: some Var/Assign of a local from ep->pos whose variable is a subscript index
    starts = [s for s in cntf.find("Var") if cntf.ch(s) and cntf.canon(cntf.ch(s)[0], subst=False) == "%s->pos" % cb]
    starts += [s["node"] for s in paths.stores(cntf) if s["kind"] == "DeclRef" and s["rhs"] is not None and cntf.canon(s["rhs"], subst=False) == "%s->pos" % cb]
    ctx.check(r7, len(starts) >= 1, key(cntf, "start-at-head"), cntf.where(cntf.root), "partly-filled case does not start at the head index pos")
    # every subscript read is accumulated into the returned counter
    for o in ring.analyse(cntf, SPEC):
        par = cntf.up(o["node"])
        while par is not None and cntf.k(par) in ("ICast", "Paren", "Cast"):
            par = cntf.up(par)
        acc = par is not None and cntf.k(par) in ("CompoundAssign", "Assign") and cntf.nodes[par]["op"] in ("+=", "=")
        ctx.check(r7, acc, key(cntf, "accumulate[%s]" % cntf.canon(o["index"], subst=False)), cntf.where(o["node"]), "a visited speech flag is not added to the count")

    # ---- R8 end of stream -------------------------------------------------------------------
    es = fns["endpointer_end_stream"]
    r8 = ctx.rule("PAIR.end_stream", "endpointer_end_stream: the queue is linearized before it is drained; the returned pointer is the start of buf; out_nsamp grows by frame_size per returned frame and by nsamp for the trailing partial frame; the queue is cleared", floor=4)
    eb = es.params[0][0]
    linz = es.calls("ep_linearize")
    popse = es.calls("ep_pop")
    ctx.check(r8, len(linz) == 1 and all(not paths.may_reach(es, p, lambda e: e == linz[0]) and paths.may_reach(es, linz[0], lambda e, p=p: e == p) for p in popse) and len(popse) >= 1, key(es, "linearize-first"), es.where(es.root), "queue is drained without (or before) ep_linearize")
    for rnode in es.find("Return"):
        rv = es.canon(es.ch(rnode)[0]) if es.ch(rnode) else ""
        if rv == "0":
            continue
        ctx.check(r8, rv == "%s->buf" % eb and not paths.may_reach(es, linz[0] if linz else es.root, "exit", barrier=lambda e: e in es.calls("ep_clear")) if linz else False, key(es, "return=" + rv), es.where(rnode), "end of stream returns `%s` or leaves the queue uncleared" % rv)
    incs = [s for s in paths.stores(es) if s["path"] == "*out_nsamp" and s["op"] == "+="]
    forms = sorted(es.canon(s["rhs"], subst=False) for s in incs)
    ctx.check(r8, forms == sorted(["%s->frame_size" % eb, es.params[2][0]]), key(es, "out_nsamp"), es.where(es.root), "out_nsamp accounting is %s, expected one frame_size per popped speech frame and nsamp for the trailing frame" % forms)
    # the per-frame increment is in the branch where the popped frame is speech
    for s in incs:
        if es.canon(s["rhs"], subst=False) == "%s->frame_size" % eb:
            flags = set(es.nodes[i]["name"] for i in es.walk() if es.k(i) == "DeclRef" and es.nodes[i].get("decl") in es.addr_taken)
            g = paths.guarded(es, s["node"], lambda f, c, pol: paths.cond_atoms(f, c, pol, subst=False)[1] is True and paths.cond_atoms(f, c, pol, subst=False)[0] in flags)
            ctx.check(r8, g, key(es, "count-speech-only"), es.where(s["node"]), "a popped non-speech frame is counted into the returned segment")
    # the trailing partial frame belongs to the segment only if every queued frame was returned: the queue
    # is empty *and* the last frame popped was speech (speech_end caught up with qstart_time); an empty
    # queue alone also arises when the last queued frame was the first non-speech one
    from .. import symx, lin as _lin8
    oktr, ntr = True, 0
    NS, FR = es.params[2][0], es.params[1][0]
    for pt in symx.run_paths(es, P):
        for i_, ev_ in enumerate(pt.events):
            trailing = (ev_[0] == "call" and ev_[1] == "memcpy" and len(ev_[2]) == 3 and ev_[2][1] == FR) or (ev_[0] == "store" and ev_[1] == "*out_nsamp" and (NS,) in ev_[2])
            if not trailing:
                continue
            ntr += 1
            before = [x for x in pt.events[:i_] if x[0] == "branch"]
            emp = any(symx.plain(x[1]) == ("nz", "ep_empty(%s)" % eb) and x[2] for x in before)
            allsp = any(symx.plain(x[1]) == ("==",) + tuple(sorted(("%s->qstart_time" % eb, "%s->speech_end" % eb))) and x[2] for x in before)
            oktr = oktr and emp and allsp
    ctx.check(r8, oktr and ntr >= 1, key(es, "trailing-after-all-speech"), es.where(es.root), "the trailing partial frame is appended without knowing that the queue is empty and its last frame was speech (speech_end == qstart_time): after a final non-speech frame the caller gets samples that are not part of the segment")
    # trailing frame guard nsamp <= frame_size dominates everything after
    guards = [r for r in es.find("Return") if paths.guarded(es, r, lambda f, c, pol: paths.rel(f, c, pol, subst=False) == ("%s->frame_size" % eb, "<", es.params[2][0]))]
    ctx.check(r8, len(guards) == 1, key(es, "nsamp-guard"), es.where(es.root), "no early return for a final frame longer than frame_size")

    # ---- R9 linearize twin -------------------------------------------------------------------
    lz = fns["ep_linearize"]
    r9 = ctx.rule("TWIN.linearize", "ep_linearize moves buf[] and is_speech[] by the same element offsets and counts (up to the frame_size factor), and resets pos only after all moves", floor=2)
    ops = ring.region_ops(lz, SPEC, {"buf": 2, "is_speech": 1}, cap)
    sig = {"buf": set(), "is_speech": set()}
    ok9 = True
    for op in ops:
        if "D" not in op:
            ok9 = False
            continue
        off, cntp = op["off"], op["count"]
        if op["field"] == "buf":
            off = lin.p_divide_atom(off, "ep->frame_size") if off else {}
            cntp = lin.p_divide_atom(cntp, "ep->frame_size")
            if off is None or cntp is None:
                ok9 = False
                continue
        sig[op["field"]].add((lz.nodes[op["call"]]["callee"], op["role"], lin.p_str(off), lin.p_str(cntp)))
    ctx.check(r9, ok9 and sig["buf"] == sig["is_speech"] and len(sig["buf"]) >= 4, key(lz, "moves"), lz.where(lz.root), "frame moves %s differ from flag moves %s" % (sorted(sig["buf"]), sorted(sig["is_speech"])), str(sorted(sig["buf"])))
    resets = [n for (n, fld, rhs, op) in ring.cursor_stores(lz, SPEC)]
    last = all(not paths.may_reach(lz, r, lambda e: e in [o["call"] for o in ops]) for r in resets)
    ctx.check(r9, len(resets) == 1 and last, key(lz, "reset-last"), lz.where(resets[0]) if resets else lz.where(lz.root), "pos is reset before the moves are complete")
    # temporaries are allocated as large as what is copied into them
    r9b = ctx.rule("ALLOCSZ.linearize", "temporaries in ep_linearize are allocated exactly the bytes later copied into them", floor=2)
    for c in lz.calls({"memcpy"}):
        a = lz.args(c)
        d = lz.strip(a[0])
        if lz.k(d) == "DeclRef" and lz.nodes[d]["ref"] == "local":
            v = lz.rd.unique_def_value(d)
            if v is not None and lz.k(lz.strip(v)) == "Call" and lz.nodes[lz.strip(v)].get("callee") == "__ckd_calloc__":
                aa = lz.args(lz.strip(v))
                alloc = lin.p_mul(lin.poly(lz, aa[0]), lin.poly(lz, aa[1]))
                ln = lin.poly(lz, a[2])
                ctx.check(r9b, alloc == ln, key(lz, "tmp:" + lz.nodes[d]["name"]), lz.where(c), "temporary `%s` holds %s bytes but %s are copied into it" % (lz.nodes[d]["name"], lin.p_str(alloc), lin.p_str(ln)))

    # ---- positive controls ---------------------------------------------------------------------
    fx = {f.name: f for f in P.functions("fixture:ring_fx.c")}
    sub = type(ctx)(ctx.prop, ctx.tier)
    sub._known = []
    rr = sub.rule("ctl", "control")
    n_bad = ring_index_rule(sub, rr, fx["fx_ring_bad"], FX_SPEC)
    n_good = ring_index_rule(sub, rr, fx["fx_ring_good"], FX_SPEC)
    ctx.control(r1, n_bad >= 1 and n_good == 0, "fixture fx_ring_bad (index used between ++ and %%) must be reported, fx_ring_good must not (got %d / %d)" % (n_bad, n_good))
    fcap = {"buf": lin.p_mul(lin.p_atom("#LEN"), lin.p_atom("r->frame_size")), "flags": lin.p_atom("#LEN")}
    n_bad = region_rule(sub, rr, fx["fx_region_bad"], FX_SPEC, {"buf": 2, "flags": 1}, fcap)
    n_good = region_rule(sub, rr, fx["fx_region_good"], FX_SPEC, {"buf": 2, "flags": 1}, fcap)
    ctx.control(r2, n_bad >= 1 and n_good == 0, "fixture fx_region_bad (copy at pos+1) must be reported, fx_region_good must not (got %d / %d)" % (n_bad, n_good))
