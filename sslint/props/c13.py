"""C13 — grammar transformations and FSG files preserve the grammar.

Decides W1/W2 writer/reader agreement of the FSG text format, W3 merge
direction, W4 scaling symmetry and number-format coverage, W5 the closure /
silence / alternate transformations only add the arcs they should and the
closure's fixpoint flag is raised on every change.  Not decided: that the
closure reaches the fixpoint for every graph, best-probability preservation.
"""
import re

from .. import paths
from ..prog import AnalysisIncomplete

U = "fsg_model.c"


def key(fn, what):
    return "%s:%s" % (fn.name, what)


def str_arg(fn, a):
    j = fn.strip(a)
    if fn.k(j) == "Str":
        return fn.nodes[j].get("v")
    return None


def conversions(fmt):
    return re.findall(r"%[-+ #0]*\d*(?:\.\d+)?(?:hh|h|ll|l|z|L)?([a-zA-Z])", fmt)


def conv_specs(fmt):
    return re.findall(r"%[-+ #0]*\d*(?:\.\d+)?(?:hh|h|ll|l|z|L)?[a-zA-Z]", fmt)


def bit_sets(fn):
    """bitvec_set(v, b) macro expansions: list of (node, vector, bit)"""
    out = []
    for i in fn.find("CompoundAssign"):
        nd = fn.nodes[i]
        if nd["op"] == "|=" and "bitvec_set" in fn.mac(i):
            lhs = fn.strip(nd["ch"][0])
            if fn.k(lhs) == "Subscript":
                vec = fn.canon(fn.ch(lhs)[0], subst=False)
                idx = fn.canon(fn.ch(lhs)[1], subst=False)
                m = re.match(r"^\((\w+) / \d+\)$", idx)
                out.append((i, vec, m.group(1) if m else idx))
    return out


def case_tables(ctx, P, rid):
    """every hash table of the grammar code (fsg_model.c) is created case-sensitive (shared with C05)"""
    for g_ in [x for x in P.functions(U) if x.file.endswith(U)]:
        for c_ in g_.calls("hash_table_new"):
            ctx.touch(g_)
            ctx.check(rid, g_.constval(g_.args(c_)[1]) == 0, key(g_, "case-sensitive-table@%d" % sum(1 for c2 in g_.calls("hash_table_new") if c2 <= c_)), g_.where(c_), "a table of the grammar code is created with case folding (`%s`): labels that differ only in letter case become one word" % g_.canon(g_.args(c_)[1], subst=False))


def run(ctx):
    P = ctx.P
    fns = {f.name: f for f in P.functions(U) if f.file.endswith(U)}
    for n in ("fsg_model_write", "fsg_model_read_s3file", "fsg_model_trans_add", "fsg_model_tag_trans_add", "fsg_model_null_trans_closure",
              "fsg_model_add_silence", "fsg_model_add_alt", "copy_header_value", "fsg_model_null_trans_add"):
        if n not in fns:
            raise AnalysisIncomplete("anchor vanished: %s" % n)
        ctx.touch(fns[n])
    wr, rd = fns["fsg_model_write"], fns["fsg_model_read_s3file"]

    # ---- W1 keywords -----------------------------------------------------------------
    w1 = ctx.rule("TABLE.W1-keywords", "every keyword the FSG writer prints is one the reader accepts at that position: header fields in the same order, the transition keyword, the end keyword", floor=4)
    prints = wr.calls("fprintf")
    wkeys = []
    for c in prints:
        a = wr.args(c)
        fmt = str_arg(wr, a[1])
        kw = str_arg(wr, a[2]) if len(a) > 2 else None
        wkeys.append((kw, fmt, c))
    hdr_w = [k for (k, f_, c) in wkeys if k and conversions(f_)[:1] == ["s"] and len(conversions(f_)) == 2]
    hdr_r = []
    for c in rd.calls("copy_header_value"):
        a = rd.args(c)
        hdr_r.append((str_arg(rd, a[2]), str_arg(rd, a[3])))
    ctx.check(w1, [k for k in hdr_w] == [k for (k, s_) in hdr_r] and len(hdr_w) == 4, key(wr, "header-order"), wr.where(wr.root), "writer emits header fields %s, reader consumes %s" % (hdr_w, [k for (k, s_) in hdr_r]))
    cmp_lits = []
    for c in rd.calls("strncmp"):
        lit = str_arg(rd, rd.args(c)[1])
        if lit:
            cmp_lits.append((lit, c))
    trans_w = [k for (k, f_, c) in wkeys if k and len(conversions(f_)) == 5]
    end_w = [k for (k, f_, c) in wkeys if k and conversions(f_) == ["s"]]
    # reader: which literals lead to the transition branch / to break
    trans_r, end_r = set(), set()
    for (lit, c) in cmp_lits:
        # the comparison `strncmp(...) == 0` true edge leads to break (end) or to parsing (transition)
        for b in rd.find("Break"):
            if paths.guarded(rd, b, lambda fn, cc, pol, c=c: pol and c in list(fn.walk(cc)) and (paths.rel(fn, cc, True, subst=False) or (0, 0, 0))[1] == "=="):
                if rd.enclosing(b, ("Switch",)) is None:
                    end_r.add(lit)
        if lit not in end_r:
            trans_r.add(lit)
    ctx.check(w1, len(trans_w) == 1 and trans_w[0] in trans_r, key(wr, "transition-keyword"), wr.where(wr.root), "writer's transition keyword %s is not accepted by the reader (%s)" % (trans_w, sorted(trans_r)))
    ctx.check(w1, len(end_w) == 1 and end_w[0] in end_r, key(wr, "end-keyword"), wr.where(wr.root), "writer's end keyword %s is not the reader's (%s)" % (end_w, sorted(end_r)))
    # header values printed are the fields the reader stores them into
    hv = {}
    for (k, f_, c) in wkeys:
        if k in hdr_w:
            hv[k] = wr.canon(wr.args(c)[3], subst=False)
    ctx.check(w1, hv.get("NUM_STATES") == "fsg->n_state" and hv.get("START_STATE") == "fsg->start_state" and hv.get("FINAL_STATE") == "fsg->final_state", key(wr, "header-values"), wr.where(wr.root), "header values printed: %s" % hv)
    rs = {}
    for s in paths.stores(rd):
        if s["path"] in ("fsg->start_state", "fsg->final_state", "n_state") and s["rhs"] is not None:
            # which header value precedes: the last copy_header_value call before this store
            prev = [c for c in rd.calls("copy_header_value") if paths.always_before(rd, s["node"], lambda e, c=c: e == c)]
            if prev:
                last = max(prev, key=lambda c: rd.line(c))
                rs[s["path"]] = str_arg(rd, rd.args(last)[2])
    ctx.check(w1, rs == {"n_state": "NUM_STATES", "fsg->start_state": "START_STATE", "fsg->final_state": "FINAL_STATE"}, key(rd, "header-targets"), rd.where(rd.root), "reader stores header values as %s" % rs)
    ini = rd.calls("fsg_model_init")
    ctx.check(w1, len(ini) == 1 and rd.canon(rd.args(ini[0])[3], subst=False) == "n_state" and rd.canon(rd.args(ini[0])[2], subst=False) == "lw", key(rd, "init"), rd.where(rd.root), "grammar is not created with the parsed state count and the caller's language weight")

    # ---- W2 transition line ------------------------------------------------------------------
    w2 = ctx.rule("TABLE.W2-transition-line", "the transition line's fields (from, to, prob, word) are written in the order the reader parses them and reach fsg_model_trans_add / null_trans_add in the parameter positions that are stored into from_state / to_state; an arc without word is a null arc on both sides", floor=6)
    tc = [c for (k, f_, c) in wkeys if k in trans_w]
    if tc:
        c = tc[0]
        a = wr.args(c)
        fmt = str_arg(wr, a[1])
        conv = conversions(fmt)
        args = [wr.canon(x) for x in a[3:]]      # hoisted temporaries read as what they hold
        TL = args[0][:-len("->from_state")] if args[0].endswith("->from_state") else None
        ok = conv[:3] == ["s", "d", "d"] and conv[4] == "s" and TL is not None and args[1] == TL + "->to_state" and (TL + "->logs2prob") in args[2]
        ctx.check(w2, ok, key(wr, "field-order"), wr.where(c), "transition written as format %r with (%s)" % (fmt, ", ".join(args)))
        ctx.check(w2, TL is not None and args[3].startswith('((%s->wid < 0) ? "" : ' % TL) and (TL + "->wid") in args[3][len(TL) + 20:], key(wr, "null-word"), wr.where(c), "word field is `%s`: a null arc must be written without a word, a word arc with its own word" % args[3])
    # reader side: i, j, p in order of nextword calls
    seq = []
    for s in paths.stores(rd):
        if s["kind"] == "DeclRef" and s["rhs"] is not None:
            v = rd.canon(s["rhs"], subst=False)
            m = re.match(r"^(strtol|strtod|atof)\((\w+)", v)
            if m:
                # the converted text is the next word of the line: its last definition before the conversion
                # is the result of s3file_nextword / s3file_copy_nextword (in place or as a copy)
                src = [d for d in paths.stores(rd) if d["path"] == m.group(2) and d["rhs"] is not None and re.search(r"s3file_(copy_)?nextword\(", rd.canon(d["rhs"], subst=False)) and rd.line(d["node"]) <= rd.line(s["node"])]
                if src and s["path"] in ("i", "j", "p"):
                    seq.append((rd.line(s["node"]), s["path"], m.group(1)))
    seq.sort()
    ctx.check(w2, [(x[1], x[2]) for x in seq if x[1] in ("i", "j", "p")] == [("i", "strtol"), ("j", "strtol"), ("p", "atof")], key(rd, "parse-order"), rd.where(rd.root), "reader parses transition fields as %s" % seq)
    for cal, nargs in (("fsg_model_trans_add", 5), ("fsg_model_null_trans_add", 4)):
        cs = rd.calls(cal)
        ctx.check(w2, len(cs) == 1 and [rd.canon(x, subst=False) for x in rd.args(cs[0])][:4] == ["fsg", "i", "j", "tprob"], key(rd, cal), rd.where(cs[0]) if cs else rd.where(rd.root), "%s is called with (%s)" % (cal, ", ".join(rd.canon(x, subst=False) for x in rd.args(cs[0])) if cs else "?"))
        if cs:
            wantpol = cal == "fsg_model_trans_add"
            g = paths.guarded(rd, cs[0], lambda fn, cc, pol: paths.cond_atoms(fn, cc, pol, subst=False) == ("val", wantpol))
            ctx.check(w2, g, key(rd, cal + ":word-present"), rd.where(cs[0]), "%s is not under `word %s`" % (cal, "present" if wantpol else "absent"))
    for name in ("fsg_model_trans_add", "fsg_model_tag_trans_add"):
        g = fns[name]
        st = {s["path"]: g.canon(s["rhs"], subst=False) for s in paths.stores(g) if s["path"].startswith("link->") and not paths.guarded(g, s["node"], lambda fn, cc, pol: pol and "logs2prob <" in fn.canon(cc, subst=False))}
        want = {"link->from_state": "from", "link->to_state": "to", "link->logs2prob": "logp", "link->wid": "wid" if name == "fsg_model_trans_add" else "-1"}
        ctx.check(w2, st == want and [p_[0] for p_ in g.params[:5]] == ["fsg", "from", "to", "logp", "wid"], key(g, "fields"), g.where(g.root), "new arc is stored as %s" % st)
    # word labels are compared byte for byte, as fsg_model_word_id / word_add do: every table the grammar code
    # keys by word text or by state is created case-sensitive (words that differ in letter case are different
    # labels; a folding table gives them one id and the grammar read back is not the grammar written)
    case_tables(ctx, P, w2)
    # range checks on parsed numbers (two-sided), before use
    for var in ("i", "j"):
        uses = [c for c in rd.calls({"fsg_model_trans_add", "fsg_model_null_trans_add"})]
        for u in uses:
            lo = paths.guarded(rd, u, lambda fn, cc, pol, var=var: paths.rel(fn, cc, pol, subst=False) == ("0", "<=", var))
            hi = paths.guarded(rd, u, lambda fn, cc, pol, var=var: paths.rel(fn, cc, pol, subst=False) == (var, "<", "fsg->n_state"))
            if not (lo and hi):
                from .. import symx
                ai_ = [i_ for i_, a_ in enumerate(rd.args(u)) if rd.canon(a_, subst=False) == var]
                if ai_:
                    _l, _h, _n, facts = symx.arg_bounds(rd, P, u, ai_[0])
                    lo = lo or ("0", "<=", "v") in facts or ("-1", "<", "v") in facts
                    hi = hi or ("v", "<", "fsg->n_state") in facts
            ctx.check(w2, lo and hi, key(rd, "range:%s@%s" % (var, rd.nodes[u]["callee"])), rd.where(u), "state number `%s` reaches %s without 0 <= %s < n_state" % (var, rd.nodes[u]["callee"], var))
    pu = [s for s in paths.stores(rd) if s["path"] == "tprob"]
    for s in pu:
        lo = paths.guarded(rd, s["node"], lambda fn, cc, pol: paths.rel(fn, cc, pol, subst=False) == ("0", "<", "p"))
        hi = paths.guarded(rd, s["node"], lambda fn, cc, pol: paths.rel(fn, cc, pol, subst=False) == ("p", "<=", "1"))
        ctx.check(w2, lo and hi, key(rd, "range:p"), rd.where(s["node"]), "probability is used without the dominating 0 < p <= 1 test")

    # ---- W3 merges ---------------------------------------------------------------------------------
    w3 = ctx.rule("ORDER.W3-merge", "duplicate word arcs and duplicate null arcs keep the higher probability; the null-arc adder reports 1 (new), 0 (raised), -1 (unchanged or self-loop)", floor=5)
    for name in ("fsg_model_trans_add", "fsg_model_tag_trans_add"):
        g = fns[name]
        ms = [s for s in paths.stores(g) if s["path"] == "link->logs2prob" and g.canon(s["rhs"], subst=False) == "logp" and paths.guarded(g, s["node"], lambda fn, cc, pol: paths.rel(fn, cc, pol, subst=False) == ("link->logs2prob", "<", "logp"))]
        ctx.check(w3, len(ms) == 1, key(g, "max-merge"), g.where(g.root), "duplicate arc does not keep the higher probability (`if (old < new) old = new`)")
    g = fns["fsg_model_trans_add"]
    dup = [r for r in g.find("Return") if paths.guarded(g, r, lambda fn, cc, pol: paths.rel(fn, cc, pol, subst=False) == ("link->wid", "==", "wid"))]
    ctx.check(w3, len(dup) == 1, key(g, "dup-test"), g.where(g.root), "duplicate word arc is not identified by (from,to,wid)")
    g = fns["fsg_model_tag_trans_add"]
    rets = {}
    for r in g.find("Return"):
        v = g.canon(g.ch(r)[0], subst=False)
        conds = []
        if paths.guarded(g, r, lambda fn, cc, pol: paths.rel(fn, cc, pol, subst=False) == ("from", "==", "to")):
            conds.append("self-loop")
        if paths.guarded(g, r, lambda fn, cc, pol: paths.rel(fn, cc, pol, subst=False) == ("link->logs2prob", "<", "logp")):
            conds.append("raised")
        if paths.guarded(g, r, lambda fn, cc, pol: paths.rel(fn, cc, pol, subst=False) == ("logp", "<=", "link->logs2prob")):
            conds.append("not-raised")
        rets.setdefault(v, []).append(tuple(conds))
    want = {"-1": [("self-loop",), ("not-raised",)], "0": [("raised",)], "1": [()]}
    ctx.check(w3, {k_: sorted(v) for k_, v in rets.items()} == {k_: sorted(v) for k_, v in want.items()}, key(g, "return-codes"), g.where(g.root), "return codes %s, expected %s" % (rets, want))
    nta = fns["fsg_model_null_trans_add"]
    rv = [nta.canon(nta.ch(r)[0], subst=False) for r in nta.find("Return")]
    ctx.check(w3, rv == ["fsg_model_tag_trans_add(fsg, from, to, logp, -1)"], key(nta, "forward"), nta.where(nta.root), "null_trans_add is %s" % rv)

    # ---- W4 scaling and number format -------------------------------------------------------------------
    w4 = ctx.rule("TABLE.W4-scaling", "the reader multiplies the log-probability by the language weight, the writer divides the same field by the same weight in floating point before converting back; the writer's number format can represent every probability the reader accepts", floor=3)
    ts = [s for s in paths.stores(rd) if s["path"] == "tprob"]
    ctx.check(w4, len(ts) == 1 and rd.canon(ts[0]["rhs"], subst=False) == "(fsg->lw * logmath_log(lmath, p))", key(rd, "scale"), rd.where(rd.root), "reader computes %s" % [rd.canon(s["rhs"], subst=False) for s in ts])
    if tc:
        c = tc[0]
        a = wr.args(c)
        def deep(n_):
            """the expression a printed value stands for: through casts and through locals with one definition"""
            seen_ = 0
            n_ = wr.strip(n_)
            while wr.k(n_) == "DeclRef" and wr.nodes[n_].get("ref") == "local" and seen_ < 6:
                v_ = wr.rd.unique_def_value(n_)
                if v_ is None:
                    break
                n_ = wr.strip(v_)
                seen_ += 1
            return n_
        pe = a[5]
        call = deep(pe)
        ok = wr.k(call) == "Call" and wr.nodes[call].get("callee") == "logmath_exp"
        if ok:
            arg = deep(wr.args(call)[1])
            form = wr.canon(arg, subst=False, casts=True)
            # division must be floating: (int)( (float)logs2prob / lw )
            divs = [i for i in wr.walk(arg) if wr.k(i) == "Bin" and wr.nodes[i]["op"] == "/"]
            ok = len(divs) == 1 and wr.nodes[divs[0]].get("ct", wr.nodes[divs[0]]["t"]) in ("float", "double") and wr.canon(divs[0], subst=False) == "(tl->logs2prob / fsg->lw)"
            ctx.check(w4, ok, key(wr, "unscale"), wr.where(c), "writer converts `%s`: the language weight must be divided out of logs2prob in floating point, by the same fsg->lw the reader multiplies with" % form, form)
        else:
            ctx.bad(w4, key(wr, "unscale"), wr.where(c), "probability is not logmath_exp(lmath, logs2prob / lw)")
        spec = conv_specs(str_arg(wr, a[1]))[3]
        m = re.match(r"%[-+ #0]*\d*(?:\.(\d+))?([a-zA-Z])", spec)
        okf = m is not None and m.group(2) in ("g", "e", "G", "E", "a")
        ctx.check(w4, okf, key(wr, "prob-format"), wr.where(c), "probability is written with `%s`: a fixed-point format prints every probability below 1e-6 as 0, which the reader rejects (p <= 0)" % spec, spec)

    # ---- W5 transformations ---------------------------------------------------------------------------------
    w5 = ctx.rule("PROV.W5-transforms", "the closure composes a null arc with the null arcs leaving its destination and raises its fixpoint flag on every change; silence adds self-loops with the filler word; alternates copy from/to/prob of base-word arcs", floor=10)
    cl = fns["fsg_model_null_trans_closure"]
    adds = cl.calls("fsg_model_null_trans_add")
    ctx.check(w5, len(adds) == 1, key(cl, "one-add"), cl.where(cl.root), "expected one composition site")
    if adds:
        c = adds[0]
        a = [cl.canon(x, subst=False) for x in cl.args(c)]
        ctx.check(w5, a == ["fsg", "tl1->from_state", "tl2->to_state", "(tl1->logs2prob + tl2->logs2prob)"], key(cl, "compose"), cl.where(c), "closure adds (%s), expected (from(tl1), to(tl2), p1+p2)" % ", ".join(a))
        t2 = [s for s in paths.stores(cl) if s["path"] == "tl2"]
        its = [s for s in paths.stores(cl) if s["path"] == "itor" and "null_trans" in cl.canon(s["rhs"], subst=False)]
        ok = len(t2) == 1 and cl.canon(t2[0]["rhs"], subst=False) == "itor->ent->val" and any(cl.canon(s["rhs"], subst=False) == "hash_table_iter(fsg->trans[tl1->to_state].null_trans)" for s in its)
        ctx.check(w5, ok, key(cl, "second-arc"), cl.where(c), "the second arc is not drawn from the null arcs leaving to_state(tl1)")
        t1 = [s for s in paths.stores(cl) if s["path"] == "tl1"]
        ctx.check(w5, len(t1) == 1 and cl.canon(t1[0]["rhs"], subst=False) in ("gn1->data.ptr",), key(cl, "first-arc"), cl.where(c), "the first arc is not drawn from the work list")
        # fixpoint flag
        kvar = None
        par = cl.up(c)
        if par is not None and cl.k(par) == "Assign":
            kvar = cl.canon(cl.nodes[par]["ch"][0], subst=False)
        ups = [s for s in paths.stores(cl) if s["path"] == "updated" and paths.is_const(cl, s["rhs"], 1)]
        rst = [s for s in paths.stores(cl) if s["path"] == "updated" and paths.is_const(cl, s["rhs"], 0)]
        ok = kvar is not None and len(ups) == 1 and len(rst) == 1
        if ok:
            # every path from the `k >= 0` true edge back to the loop passes the flag store
            ge = paths.guard_edges(cl, lambda fn, cc, pol: paths.rel(fn, cc, pol, subst=False) == ("0", "<=", kvar))
            ok = len(ge) == 1
            if ok:
                dst = ge[0][1]
                first = cl.cfg.blocks[dst]["elems"]
                ok = not cl.cfg.path_exists((dst, -1), lambda e: e == c, is_barrier=lambda e: e == ups[0]["node"]) and not cl.cfg.path_exists((dst, -1), "exit", is_barrier=lambda e: e == ups[0]["node"])
            # and the flag is not raised needlessly under another condition only
        ctx.check(w5, ok, key(cl, "fixpoint-flag"), cl.where(c), "a change reported by the adder (k >= 0: new arc or raised probability) does not always set `updated`: the closure can stop before probabilities have converged")
        dw = [d for d in cl.find("Do")]
        okl = len(dw) == 1 and cl.canon(cl.ch(dw[0])[1], subst=False) == "updated" and rst and cl.enclosing(rst[0]["node"], ("Do",)) == dw[0] and cl.enclosing(rst[0]["node"], ("For", "While")) is None
        ctx.check(w5, okl, key(cl, "loop"), cl.where(cl.root), "closure does not repeat `do { updated = FALSE; ... } while (updated)`")
        na = [x for x in cl.calls("glist_add_ptr") if "fsg_model_null_trans(" in cl.canon(cl.args(x)[1], subst=False)]
        okn = len(na) == 1 and cl.canon(cl.args(na[0])[1], subst=False) == "fsg_model_null_trans(fsg, tl1->from_state, tl2->to_state)" and paths.guarded(cl, na[0], lambda fn, cc, pol: paths.rel(fn, cc, pol, subst=False) == ("0", "<", kvar))
        ctx.check(w5, okn, key(cl, "worklist"), cl.where(cl.root), "a newly created arc is not appended to the work list (under k > 0)")
    sil = fns["fsg_model_add_silence"]
    tas = sil.calls("fsg_model_trans_add")
    forms = sorted(tuple(sil.canon(x, subst=False) for x in sil.args(c)) for c in tas)
    wantp = "(fsg->lw * logmath_log(fsg->lmath, silprob))"
    ctx.check(w5, forms == [("fsg", "src", "src", wantp, "fsg_model_word_add(fsg, silword)"), ("fsg", "state", "state", wantp, "fsg_model_word_add(fsg, silword)")] or forms == sorted([("fsg", "src", "src", "logsilp", "silwid"), ("fsg", "state", "state", "logsilp", "silwid")]), key(sil, "self-loops"), sil.where(sil.root), "silence arcs are %s" % forms)
    ls = [s for s in paths.stores(sil) if s["path"] == "logsilp"]
    ctx.check(w5, len(ls) == 1 and sil.canon(ls[0]["rhs"], subst=False) == wantp, key(sil, "penalty"), sil.where(sil.root), "silence penalty is %s" % [sil.canon(s["rhs"], subst=False) for s in ls])
    conds = [paths.rel(sil, cc, pol, subst=False) for (s0, d0, cc, pol) in sil.cfg.cond_edges() if pol]
    ctx.check(w5, ("src", "<", "fsg->n_state") in conds, key(sil, "all-states"), sil.where(sil.root), "silence is not added to every state [0, n_state)")
    bs = bit_sets(sil)
    sw = [s for s in paths.stores(sil) if s["path"] == "silwid"]
    ctx.check(w5, len(sw) == 1 and sil.canon(sw[0]["rhs"], subst=False) == "fsg_model_word_add(fsg, silword)", key(sil, "word"), sil.where(sil.root), "silence word id is not that of the given filler word")
    ctx.check(w5, len(bs) == 1 and bs[0][1:] == ("fsg->silwords", "silwid"), key(sil, "mark-filler"), sil.where(sil.root), "the silence word is not marked as filler")
    alt = fns["fsg_model_add_alt"]
    st = {s["path"]: alt.canon(s["rhs"], subst=False) for s in paths.stores(alt) if s["path"].startswith("link->")}
    want = {"link->from_state": "fl->from_state", "link->to_state": "fl->to_state", "link->logs2prob": "fl->logs2prob", "link->wid": "altwid"}
    ctx.check(w5, st == want, key(alt, "copy"), alt.where(alt.root), "alternate arc is built as %s" % st)
    for s in paths.stores(alt):
        if s["path"] == "link->wid":
            ctx.check(w5, paths.guarded(alt, s["node"], lambda fn, cc, pol: paths.rel(fn, cc, pol, subst=False) == ("basewid", "==", "fl->wid")), key(alt, "base-arcs-only"), alt.where(s["node"]), "alternate arcs are copied from arcs that do not carry the base word")
    bm = bit_sets(alt)
    marks = sorted(x[1:] for x in bm)
    ctx.check(w5, marks == [("fsg->altwords", "altwid"), ("fsg->silwords", "altwid")], key(alt, "marks"), alt.where(alt.root), "alternate is marked as %s" % marks)
    for (c, vec, bit) in bm:
        if vec == "fsg->silwords":
            ctx.check(w5, paths.guarded(alt, c, lambda fn, cc, pol: pol and "silwords" in fn.canon(cc, subst=False) and "basewid" in fn.canon(cc, subst=False)), key(alt, "filler-inherit"), alt.where(c), "alternate is marked filler although its base word is not")
    wb = [s for s in paths.stores(alt) if s["path"] == "itor->ent->val"]
    ctx.check(w5, len(wb) == 1 and alt.canon(wb[0]["rhs"], subst=False) == "trans", key(alt, "write-back"), alt.where(alt.root), "extended arc list is not stored back into the table")
