"""C16 — dictionary additions take effect and never disturb existing entries.

Decides D1 (failure paths of an addition are effect-free on existing
entries), D2 (empty word / empty pronunciation are refused before use), D3
(growth happens before the slot pointer is taken; capacity bookkeeping; the
alternate chain is inserted by the store pair new.alt <- base.alt, base.alt <-
new with new.basewid <- base), D4 (allocation sizes), D5 (lazy context-table
fill uses the table roles and tests the cell family it fills), D6 (the API
propagates the refusal, frees its temporaries on every path and updates
dict2pid and the search).  Not decided: that lookups return the
pronunciation (map semantics, C20).
"""
import re

from .. import allocsz, lin, paths
from ..prog import AnalysisIncomplete
from . import c02


FIXTURES = ["hash_fx.c"]


def key(fn, what):
    return "%s:%s" % (fn.name, what)


def run(ctx):
    P = ctx.P
    da = P.fn("dict_add_word", "dict.c")
    wb = P.fn("dict_word2basestr", "dict.c")
    ap = P.fn("decoder_add_word", "decoder.c")
    for f in (da, wb, ap):
        ctx.touch(f)

    # ---- D1 effect-free failure --------------------------------------------------------------
    d1 = ctx.rule("EFFECT.D1-failure-paths", "no path of dict_add_word that reports failure has written to an existing entry, the word count or the alternate chain (only the new slot and the capacity growth may be touched)", floor=3)
    fails = [r for r in da.find("Return") if paths.is_const(da, da.ch(r)[0], -1)]
    ctx.check(d1, len(fails) >= 2, key(da, "failure-returns"), da.where(da.root), "expected failure returns for a missing base word and a duplicate (found %d)" % len(fails))
    for s in paths.stores(da):
        p = s["path"]
        existing = re.match(r"^d->word\[.*\]\.", p) is not None or p in ("d->n_word",)
        if not existing:
            continue
        for r in fails:
            reach = paths.may_reach(da, s["node"], lambda e, r=r: e == r)
            ctx.check(d1, not reach, key(da, "write-before-fail:%s@%s" % (p[:40], "dup" if "hash_table_enter" in " ".join(da.canon(c, subst=False) for (s0, d0, c, pol) in da.cfg.cond_edges() if pol and paths.guarded(da, r, lambda fn, cc, pl, c=c: cc == c and pl)) else "nobase")), da.where(s["node"]),
                      "`%s` is written on a path that later reports failure (line %d): a rejected addition leaves the dictionary changed" % (p, da.line(r)))
    # the new slot's string is released on failure
    for r in fails:
        # only failures after the slot string was allocated
        alloc = [s for s in paths.stores(da) if s["path"] == "wordp->word" and s["rhs"] is not None and "salloc" in da.canon(s["rhs"], subst=False)]
        if alloc and paths.may_reach(da, alloc[0]["node"], lambda e, r=r: e == r):
            fr = [c for c in da.calls("ckd_free") if da.canon(da.args(c)[0], subst=False) == "wordp->word"]
            ctx.check(d1, any(paths.always_before(da, r, lambda e, c=c: e == c) for c in fr), key(da, "release-slot@%d" % da.line(r)), da.where(r), "the new slot's word string is not released on this failure path")

    # ---- D2 input validation -------------------------------------------------------------------
    d2 = ctx.rule("GUARD.D2-empty-input", "an empty word is refused before its last character is inspected; an empty pronunciation is refused at the API before the dictionary and dict2pid are touched", floor=4)
    for i in wb.find("Subscript"):
        idx = wb.canon(wb.ch(i)[1], subst=False)
        if idx == "(len - 1)":
            g = paths.guarded(wb, i, lambda fn, cc, pol: paths.rel(fn, cc, pol, subst=False) in (("0", "<", "len"), ("1", "<=", "len")))
            ctx.check(d2, g, key(wb, "last-char"), wb.where(i), "word[len - 1] is read without a dominating len > 0 test (an empty word reads word[-1])")
    lend = [s for s in paths.stores(wb) if s["path"] == "len"]
    ctx.check(d2, len(lend) >= 1 and wb.canon(lend[0]["rhs"], subst=False) == "strlen(word)", key(wb, "len"), wb.where(wb.root), "len is not strlen(word)")
    # dict_add_word refuses an empty word before any write
    def empty_word(fn, cc, pol):
        a = paths.cond_atoms(fn, cc, pol, subst=False)
        return a in (("word[0]", False), ("*word", False)) or paths.rel(fn, cc, pol, subst=False) in (("0", "==", "word[0]"), ("0", "==", "*word"), ("0", "==", "strlen(word)"))
    er = [r for r in fails if paths.guarded(da, r, lambda fn, cc, pol: empty_word(fn, cc, pol) or paths.cond_atoms(fn, cc, pol, subst=False) == ("word", False))]
    first_store = [s["node"] for s in paths.stores(da) if s["kind"] != "DeclRef"]
    ok = len(er) >= 1 and all(not paths.may_reach(da, s, lambda e: e in er) for s in first_store)
    ctx.check(d2, ok, key(da, "empty-word"), da.where(da.root), "an empty word is not refused before the dictionary is written")
    dc = ap.calls("dict_add_word")
    d2c = ap.calls("dict2pid_add_word")
    ctx.check(d2, len(dc) == 1 and len(d2c) == 1, key(ap, "sites"), ap.where(ap.root), "expected one dict_add_word and one dict2pid_add_word call")
    for c in dc + d2c:
        g = paths.guarded(ap, c, lambda fn, cc, pol: paths.rel(fn, cc, pol, subst=False) in (("0", "!=", "np"), ("0", "<", "np"), ("1", "<=", "np")))
        ctx.check(d2, g, key(ap, "np>0@" + ap.nodes[c]["callee"]), ap.where(c), "%s is reached with an empty pronunciation (np == 0): the word is accepted and dict2pid_add_word then dereferences a NULL phone array" % ap.nodes[c]["callee"])
    # unknown phone refused
    un = [r for r in ap.find("Return") if paths.is_const(ap, ap.ch(r)[0], -1) and paths.guarded(ap, r, lambda fn, cc, pol: paths.rel(fn, cc, pol, subst=False) in (("-1", "==", "pron[np]"),) or (pol and fn.k(fn.strip(cc)) == "Bin" and fn.nodes[fn.strip(cc)]["op"] == "==" and "-1 == bin_mdef_ciphone_id(" in fn.canon(cc, calls=True)))]
    ctx.check(d2, len(un) == 1, key(ap, "unknown-phone"), ap.where(ap.root), "an unknown phone is not refused")

    # ---- D3 growth / chain ---------------------------------------------------------------------------
    d3 = ctx.rule("PAIR.D3-slot-and-chain", "the slot pointer is taken after the table may have moved; capacity grows by the amount reallocated; a new alternate takes over the base word's chain (new.alt <- base.alt) before the base points to it (base.alt <- new) and records its base; the word is registered under its own id and the count grows exactly once on success", floor=7)
    re_ = [s for s in paths.stores(da) if s["path"] == "d->word"]
    wp = [s for s in paths.stores(da) if s["path"] == "wordp"]
    ok = len(re_) == 1 and len(wp) == 1 and da.canon(wp[0]["rhs"], subst=False) == "(d->n_word + d->word)" and not paths.may_reach(da, wp[0]["node"], lambda e: e == re_[0]["node"])
    ctx.check(d3, ok, key(da, "slot-after-growth"), da.where(da.root), "the new slot pointer is not `d->word + d->n_word` taken after the reallocation")
    if re_:
        call = da.strip(re_[0]["rhs"])
        cnt = lin.poly(da, da.args(call)[1], subst=False) if da.k(call) == "Call" else {}
        mw = [s for s in paths.stores(da) if s["path"] == "d->max_words"]
        es = P.records["dictword_s"]["size"] if "dictword_s" in P.records else None
        ok = len(mw) == 1 and es is not None and cnt == lin.p_mul(lin.new_value(da, mw[0]), lin.p_const(es)) and paths.same_block(da, mw[0]["node"], re_[0]["node"])
        ctx.check(d3, ok, key(da, "capacity"), da.where(re_[0]["node"]), "max_words (%s) does not match the reallocated size (%s bytes, %s per entry)" % (lin.p_str(lin.new_value(da, mw[0])) if mw else "?", lin.p_str(cnt), es))
        g = paths.guarded(da, re_[0]["node"], lambda fn, cc, pol: paths.rel(fn, cc, pol, subst=False) == ("d->max_words", "<=", "d->n_word"))
        ctx.check(d3, g, key(da, "grow-when-full"), da.where(re_[0]["node"]), "table is not grown exactly when n_word >= max_words")
    st = {}
    for s in paths.stores(da):
        st.setdefault(s["path"], []).append(s)
    def forms(p):
        return [da.canon(s["rhs"], subst=False) if s["rhs"] is not None else s["op"] for s in st.get(p, [])]
    bvar = None
    for s in st.get("wordp->alt", []):
        m = re.match(r"^d->word\[(\w+)\]\.alt$", da.canon(s["rhs"], subst=False))
        if m:
            bvar = m.group(1)
    ok = bvar is not None
    if ok:
        inherit = [s for s in st.get("wordp->alt", []) if da.canon(s["rhs"], subst=False) == "d->word[%s].alt" % bvar]
        point = [s for s in st.get("d->word[%s].alt" % bvar, []) if da.canon(s["rhs"], subst=False) == "d->n_word"]
        base = [s for s in st.get("wordp->basewid", []) if da.canon(s["rhs"], subst=False) == bvar]
        ok = len(inherit) == 1 and len(point) == 1 and len(base) == 1 and paths.same_block(da, inherit[0]["node"], point[0]["node"]) and paths.pos_of(da, inherit[0]["node"])[1] < paths.pos_of(da, point[0]["node"])[1] and paths.same_block(da, base[0]["node"], point[0]["node"])
    ctx.check(d3, ok, key(da, "chain-insert"), da.where(da.root), "alternate is not linked by `new.alt = base.alt; base.alt = new; new.basewid = base` (alt stores: %s / base alt stores: %s): earlier alternates would be unlinked or the chain corrupted" % (forms("wordp->alt"), [p for p in st if re.match(r"^d->word\[\w+\]\.alt$", p)]))
    own = [s for s in st.get("wordp->alt", []) if da.canon(s["rhs"], subst=False) == "-1"]
    ownb = [s for s in st.get("wordp->basewid", []) if da.canon(s["rhs"], subst=False) == "d->n_word"]
    ctx.check(d3, len(own) == 1 and len(ownb) == 1 and paths.same_block(da, own[0]["node"], ownb[0]["node"]), key(da, "base-word"), da.where(da.root), "a base word does not get an empty chain and itself as base")
    # the base is found by the truncated spelling
    lk = da.calls("hash_table_lookup_int32")
    ok = len(lk) == 1 and [da.canon(x, subst=False) for x in da.args(lk[0])][:2] == ["d->ht", "wword"] and paths.guarded(da, lk[0], lambda fn, cc, pol: pol and "dict_word2basestr(wword)" in fn.canon(cc, subst=False))
    ctx.check(d3, ok, key(da, "base-lookup"), da.where(da.root), "base word is not looked up under the spelling with the (n) marker removed")
    en = da.calls("hash_table_enter")
    encond = [c for (s0, d0, c, pol) in da.cfg.cond_edges() if "hash_table_enter" in da.canon(c, subst=False)]
    ok = len(en) == 1 and [da.canon(x, subst=False) for x in da.args(en[0])][:2] == ["d->ht", "wordp->word"] and len(encond) >= 1 and paths.rel(da, encond[0], True, subst=False) is not None and "d->n_word" in paths.rel(da, encond[0], True, subst=False)
    ctx.check(d3, ok, key(da, "register"), da.where(da.root), "the word is not registered under its own spelling with its own id, or a duplicate is not detected by comparing the returned id")
    # over the paths of the function (symx.run_paths): the count moves once exactly when an id is handed out,
    # and the id is the count before the move
    from .. import symx
    okcount, nsucc = True, 0
    for pt in symx.run_paths(da, P):
        wr = [ev_ for ev_ in pt.events if ev_[0] == "store" and ev_[1] == "d->n_word"]
        ret = lin.p_str(pt.ret) if pt.ret is not None else None
        if ret == "-1":
            okcount = okcount and not wr
        else:
            nsucc += 1
            okcount = okcount and len(wr) == 1 and wr[0][2] == lin.p_add(lin.p_atom("d->n_word"), lin.p_const(1)) and ret == "d->n_word"
    ctx.check(d3, okcount and nsucc >= 1, key(da, "count"), da.where(da.root), "the word count does not grow exactly once, on success, returning the new id")
    # pronunciation copy
    cp = da.calls("memcpy")
    al = [s for s in st.get("wordp->ciphone", []) if "malloc" in da.canon(s["rhs"], subst=False)]
    ok = len(cp) == 1 and len(al) == 1 and [da.canon(x, subst=False) for x in da.args(cp[0])] == ["wordp->ciphone", "p", "(2 * np)"] and re.match(r"^__ckd_malloc__\(\(2 \* np\),", da.canon(al[0]["rhs"], subst=False)) is not None and forms("wordp->pronlen")[:1] == ["np"]
    ctx.check(d3, ok, key(da, "pronunciation"), da.where(da.root), "the pronunciation is not copied whole into a buffer of np phone ids with pronlen = np")

    # ---- D4 allocation sizes ---------------------------------------------------------------------------------
    d4 = ctx.rule("ALLOCSZ.D4", "every allocation assigned to a pointer to elements wider than one byte is sized in units of that element", floor=6)
    EXEMPT = {("listelem_add_block", "list->freelist"): "byte pool of elemsize-sized cells handed out as char **"}
    n = 0
    for f in [ap, da] + [g for g in P.functions("dict.c") if g.file.endswith("dict.c")] + [g for g in P.functions("dict2pid.c") if g.file.endswith("dict2pid.c")]:
        for (c, lhs, es, size, ok) in allocsz.check(P, f):
            if (f.name, lhs) in EXEMPT:
                continue
            n += 1
            ctx.check(d4, ok, key(f, "alloc:" + lhs), f.where(c), "`%s` points to %d-byte elements but is allocated %s bytes: no term of the size is a multiple of the element size" % (lhs, es, lin.p_str(size)), lin.p_str(size))
    # the phone array must have room for every phone that can be parsed: one per non-space run <= (strlen+1)/2, conservatively strlen
    for (c, lhs, es, size, ok) in allocsz.check(P, ap):
        if lhs == "pron":
            cnt = {m: co // es for m, co in size.items()} if all(co % es == 0 for co in size.values()) else None
            ctx.check(d4, cnt is not None and cnt.get(("strlen(phones)",), 0) >= 1, key(ap, "pron-capacity"), ap.where(c), "phone-id array has room for %s ids; up to strlen(phones) phones can be parsed" % (lin.p_str(cnt) if cnt else lin.p_str(size) + " bytes"))

    # ---- D5 lazy fill roles (shared with C02) ------------------------------------------------------------------
    c02.role_rule(ctx, P)

    # ---- D6 API plumbing ----------------------------------------------------------------------------------------
    d6 = ctx.rule("ERRD.D6-api", "decoder_add_word propagates a refusal as -1, releases the phone array and the scratch copy on every path, updates dict2pid with the new id and re-initialises the search when asked", floor=5)
    if dc:
        c = dc[0]
        a = [ap.canon(x, subst=False) for x in ap.args(c)]
        ctx.check(d6, a == ["d->dict", "word", "pron", "np"], key(ap, "args"), ap.where(c), "dict_add_word(%s)" % ", ".join(a))
        fr = [r for r in ap.find("Return") if paths.is_const(ap, ap.ch(r)[0], -1) and paths.guarded(ap, r, lambda fn, cc, pol: pol and ("dict_add_word(" in fn.canon(cc, subst=False) or "-1 == dict_add_word(" in fn.canon(cc, calls=True)))]
        ctx.check(d6, len(fr) == 1, key(ap, "propagate"), ap.where(c), "a refused addition is not reported as -1")
    for var in ("pron", "phonestr"):
        frees = [c for c in ap.calls("ckd_free") if ap.canon(ap.args(c)[0], subst=False) == var]
        allocs = [s for s in paths.stores(ap) if s["path"] == var and s["rhs"] is not None]
        ok = len(allocs) >= 1 and all(paths.must_pass(ap, allocs[0]["node"], lambda e: e in frees) for _ in [0])
        dbl = any(paths.may_reach(ap, a_, lambda e, b_=b_: e == b_) for a_ in frees for b_ in frees if a_ != b_)
        ctx.check(d6, ok and not dbl, key(ap, "release:" + var), ap.where(ap.root), "`%s` is not released exactly once on every path" % var)
    if d2c:
        ctx.check(d6, [ap.canon(x, subst=False) for x in ap.args(d2c[0])] == ["d->d2p", "wid"], key(ap, "dict2pid"), ap.where(d2c[0]), "dict2pid is not updated with the new word id")
    ri = [c for c in ap.find("Call") if ap.nodes[c].get("slot") == ["searchfuncs_s", "reinit"] or ap.nodes[c].get("callee") == "search_module_reinit"]
    ok = len(ri) == 1 and paths.guarded(ap, ri[0], lambda fn, cc, pol: paths.cond_atoms(fn, cc, pol, subst=False) == ("update", True)) and paths.guarded(ap, ri[0], lambda fn, cc, pol: paths.cond_atoms(fn, cc, pol, subst=False) == ("d->search", True))
    ctx.check(d6, ok, key(ap, "reinit"), ap.where(ap.root), "the search is not re-initialised under (search present && update requested)")
    rets = [ap.canon(ap.ch(r)[0], subst=False) for r in ap.find("Return") if not paths.is_const(ap, ap.ch(r)[0], -1)]
    ctx.check(d6, rets == ["wid"], key(ap, "returns-id"), ap.where(ap.root), "the new word id is not returned")
    fr_ = P.fn("fsg_search_reinit", "fsg_search.c")
    ctx.touch(fr_)
    lt = [s for s in paths.field_stores(fr_, "fsg_search_s", "lextree")]
    frl = fr_.calls("fsg_lextree_free")
    nul = paths.guard_edges(fr_, lambda fn, cc, pol: (not pol) and paths.cond_atoms(fn, cc, True, subst=False)[0].endswith("->lextree"))
    ok = len(lt) >= 1 and len(frl) >= 1 and any("fsg_lextree_init(" in fr_.canon(s["rhs"], subst=False) for s in lt) and all(not fr_.cfg.path_exists((fr_.cfg.entry, -1), lambda e, s=s: e == s["node"], is_barrier=lambda e: e in frl, removed_edges=nul) for s in lt if "fsg_lextree_init(" in fr_.canon(s["rhs"], subst=False))
    ctx.check(d6, ok, key(fr_, "rebuild"), fr_.where(fr_.root), "the lexical tree is not released and rebuilt from the updated dictionary")

    # a word is known, refused as duplicate or given its pronunciation through the dictionary's hash table: a
    # comparator that accepts a stored key of another length confuses words that extend one another (seed C16-9)
    from . import c20
    from ..report import Only
    c20.run(Only(ctx, ("GUARD.len-first",)))
