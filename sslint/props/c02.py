"""C02 — with pruning off the search returns the Viterbi optimum.

Decides: VIT (the per-frame recurrence of the specialised evaluators is a
max-plus step with coherent back-pointers and clamps; generic evaluator and
dispatcher), CTX (a lextree node carries a context bit only if it is
initialised with the model looked up for that context), ONCE (insertion
penalties and arc probability enter a root..leaf chain exactly once and a
transition adds exactly the target's log-prob), ROLE (context tables are
written and read with the same index roles; fill guards test the cell family
they fill), ORDER (best-of and history-insertion directions, the context-set
subtraction touches word i with word i).  Not decided: equality of the
reported score with an independently computed optimum, dominance pruning in
the history table as such, the claim about default beams.
"""
import re

from .. import flow, lin, paths, vit
from ..prog import AnalysisIncomplete

FIXTURES = ["vit_fx.c"]


def key(fn, what):
    return "%s:%s" % (fn.name, what)


def split_indices(path):
    """'a->t[x[1]][y].f' -> ('a->t', ['x[1]', 'y'], '.f') (top-level index groups of the last array)"""
    # find the first '[' at depth 0
    i = path.find("[")
    if i < 0:
        return path, [], ""
    head = path[:i]
    idx = []
    j = i
    n = len(path)
    while j < n and path[j] == "[":
        d = 0
        k = j
        while k < n:
            if path[k] == "[":
                d += 1
            elif path[k] == "]":
                d -= 1
                if d == 0:
                    break
            k += 1
        idx.append(path[j + 1:k])
        j = k + 1
    return head, idx, path[j:]


# ---------------------------------------------------------------------------------- VIT
def vit_rule(ctx, P):
    r = {c: ctx.rule("VIT." + c, d, floor=fl) for c, d, fl in (
        ("A", "every value compared for state k is OLD[j]+TP(j,k) with the same j in both factors and the same k as the slot stored, over exactly the left-to-right predecessors (absent only under the WORST / BAD_SSID guard forms)", 20),
        ("B", "on every path of a comparison tree the value stored is >= every compared candidate, by transitivity of the comparisons taken", 30),
        ("C", "candidates are built from scores not yet updated in this frame", 1),
        ("H", "the history slot (and in multiplex HMMs the senone-sequence id) of state k is taken from the winning candidate's state iff that state differs from k", 30),
        ("W", "every stored score passes the WORST_SCORE clamp, is merged into the HMM's best score, and the best score is what is recorded and returned", 40))}
    total = 0
    for name, n, mpx in (("hmm_vit_eval_5st_lr", 5, False), ("hmm_vit_eval_5st_lr_mpx", 5, True), ("hmm_vit_eval_3st_lr", 3, False), ("hmm_vit_eval_3st_lr_mpx", 3, True)):
        f = P.fn(name, "hmm.c")
        ctx.touch(f)
        v = vit.analyse(f, n, mpx)
        bad = set()
        for (c, k, node, text) in v.findings:
            ctx.bad(r[c], key(f, k), f.where(node), text)
            bad.add((c, k))
        for (c, k, node, text) in v.oks:
            if (c, k) not in bad:
                ctx.ok(r[c], key(f, k), f.where(node), text)
                total += 1
        if not any(c == "C" for (c, k, n_, t) in v.findings):
            ctx.ok(r["C"], key(f, "old-values"), f.where(f.root), "all candidates use pre-update scores")
    # positive control
    fx = {f.name: f for f in P.functions("fixture:vit_fx.c")}
    vb = vit.analyse(fx["fx_vit_bad"], 3, False)
    vg = vit.analyse(fx["fx_vit_good"], 3, False)
    kinds = set(c for (c, k, n_, t) in vb.findings)
    ctx.control(r["A"], {"A", "B", "H"} <= kinds and not vg.findings, "fixture fx_vit_bad (stale candidate, wrong comparison, history from the loser) must be reported under A, B and H, fx_vit_good must be clean (got %s / %d)" % (sorted(kinds), len(vg.findings)))
    return total


def generic_evaluator(ctx, P):
    g = ctx.rule("VIT.G", "the generic evaluator tests the same (from,to) transition it adds, co-updates the best predecessor with the score, copies history/ssid from it only when one was chosen, and merges every state into the best score; the dispatcher selects the evaluator matching (mpx, number of states)", floor=8)
    f = P.fn("hmm_vit_eval_anytopo", "hmm.c")
    ctx.touch(f)
    # every comparison `tp(a,b) > TMAT_WORST` guards a sum that adds tp(a,b) of the same (a,b)
    sums = []
    for i in f.find("Bin"):
        nd = f.nodes[i]
        if nd["op"] == "+":
            s = f.canon(i, subst=False)
            m = re.match(r"^\(-hmm->ctx->tp\[hmm->tmatid\]\[(\w+)\]\[(\w+)\] \+ ctx->st_sen_scr\[(\w+)\]\)$", s)
            if m:
                sums.append((i, m.group(1), m.group(2), m.group(3)))
    ctx.check(g, len(sums) >= 3, key(f, "sums"), f.where(f.root), "expected the self-transition and predecessor sums (found %d)" % len(sums))
    for (i, a, b, c) in sums:
        ctx.check(g, a == c, key(f, "same-from:%s->%s" % (a, b)), f.where(i), "score of state `%s` is added to the transition %s->%s" % (c, a, b))
        gd = paths.guarded(f, i, lambda fn, cc, pol, a=a, b=b: paths.rel(fn, cc, pol, subst=False) == ("255", "<", "-hmm->ctx->tp[hmm->tmatid][%s][%s]" % (a, b)) or paths.rel(fn, cc, pol, subst=False) == ("-hmm->ctx->tp[hmm->tmatid][%s][%s]" % (a, b), "<", "255") and False)
        # TMAT_WORST_SCORE is 255 and BETTER_THAN is '>' on negated values
        if not gd:
            def same_tp(fn, cc, pol, a=a, b=b):
                r_ = paths.rel(fn, cc, pol, subst=False)
                return r_ is not None and r_[1] == "<" and r_[2] == "-hmm->ctx->tp[hmm->tmatid][%s][%s]" % (a, b) and re.match(r"^-?\d+$", r_[0]) is not None
            gd = paths.guarded(f, i, same_tp)
        if not gd:
            gd = paths.guarded(f, i, lambda fn, cc, pol, a=a, b=b: pol and "tp[hmm->tmatid][%s][%s]" % (a, b) in fn.canon(cc, subst=False) and fn.canon(cc, subst=False).count("tp[") == 1)
        ctx.check(g, gd, key(f, "same-test:%s->%s" % (a, b)), f.where(i), "transition %s->%s is added without testing that same transition against TMAT_WORST_SCORE" % (a, b))
    co = [s for s in paths.stores(f) if s["path"] == "bestfrom" and s["rhs"] is not None and f.canon(s["rhs"], subst=False) == "from"]
    for s in co:
        mates = [t for t in paths.stores(f) if t["path"] == "scr" and f.canon(t["rhs"], subst=False) == "newscr" and paths.same_block(f, t["node"], s["node"])]
        ctx.check(g, len(mates) == 1, key(f, "co-update@%d" % f.line(s["node"])), f.where(s["node"]), "best predecessor is recorded without taking its score (or vice versa)")
    ctx.check(g, len(co) == 2, key(f, "co-updates"), f.where(f.root), "expected two best-predecessor updates (exit state, emitting states)")
    for s in paths.stores(f):
        if (s["kind"] == "Subscript" and re.search(r"->history\[", s["path"])) or s["field"] == "out_history":
            ok = f.canon(s["rhs"], subst=False) == "hmm->history[bestfrom]" and paths.guarded(f, s["node"], lambda fn, cc, pol: paths.rel(fn, cc, pol, subst=False) == ("0", "<=", "bestfrom"))
            ctx.check(g, ok, key(f, "history:" + s["path"][-14:]), f.where(s["node"]), "history is copied from `%s` / without the `bestfrom >= 0` test" % f.canon(s["rhs"], subst=False))
    bm = [s for s in paths.stores(f) if s["path"] == "bestscr" and f.canon(s["rhs"], subst=False) == "scr"]
    ctx.check(g, len(bm) == 2 and any(paths.guarded(f, s["node"], lambda fn, cc, pol: paths.rel(fn, cc, pol, subst=False) == ("bestscr", "<", "scr")) for s in bm), key(f, "best-merge"), f.where(f.root), "best score is not the max over all states")
    d = P.fn("hmm_vit_eval", "hmm.c")
    ctx.touch(d)
    table = {}
    for r in d.find("Return"):
        cal = d.canon(d.ch(r)[0], subst=False).split("(")[0]
        mp = None
        for pol in (True, False):
            if paths.guarded(d, r, lambda fn, cc, p, pol=pol: paths.cond_atoms(fn, cc, p, subst=False) == ("hmm->mpx", pol)):
                mp = pol
        ns = None
        for n in (5, 3):
            if paths.guarded(d, r, lambda fn, cc, p, n=n: paths.rel(fn, cc, p, subst=False) in ((str(n), "==", "hmm->n_emit_state"),)):
                ns = n
        table[(mp, ns)] = cal
    want = {(True, 5): "hmm_vit_eval_5st_lr_mpx", (True, 3): "hmm_vit_eval_3st_lr_mpx", (True, None): "hmm_vit_eval_anytopo",
            (False, 5): "hmm_vit_eval_5st_lr", (False, 3): "hmm_vit_eval_3st_lr", (False, None): "hmm_vit_eval_anytopo"}
    ctx.check(g, table == want, key(d, "dispatch"), d.where(d.root), "dispatcher table is %s" % table)


# ---------------------------------------------------------------------------------- CTX
def ctxt_sites(f):
    """fsg_pnode_add_ctxt(p, c) macro expansions: (node, p, c)"""
    out = []
    for i in f.find("CompoundAssign"):
        nd = f.nodes[i]
        if nd["op"] == "|=" and "fsg_pnode_add_ctxt" in f.mac(i):
            lhs = f.strip(nd["ch"][0])
            if f.k(lhs) == "Subscript":
                base = f.canon(f.ch(lhs)[0], subst=False)
                m = re.match(r"^(.+)->ctxt\.bv$", base)
                idx = f.canon(f.ch(lhs)[1], subst=False)
                m2 = re.match(r"^\((\w+) >> 5\)$", idx)
                if m and m2:
                    out.append((i, m.group(1), m2.group(1)))
    return out


def model_facts(f, keyed=None):
    """must-facts ('model', X, S): node X is initialised with / was compared
    equal to the senone-sequence id held in S; ('null', X)."""
    def mentions(expr, v):
        return re.search(r"(?<![\w>.])%s(?![\w(])" % re.escape(v), expr) is not None

    def kill(st, v):
        return frozenset(x for x in st if not any(mentions(str(p), v) for p in x[1:]))

    def transfer(st, e):
        nd = f.nodes[e]
        k = nd["k"]
        if k == "Call" and nd.get("callee") == "hmm_init":
            a = f.args(e)
            tgt = f.canon(a[1], subst=False)
            m = re.match(r"^&(.+)->hmm$", tgt)
            if m:
                st = st | {("model", m.group(1), f.canon(a[3], subst=False))}
            return st
        if k == "Assign":
            lhs = f.strip(nd["ch"][0])
            lp = f.canon(lhs, subst=False)
            rp = f.canon(nd["ch"][1], subst=False)
            if f.k(lhs) == "DeclRef":
                st = kill(st, lp)
                new = set()
                for x in st:
                    if x[0] in ("model", "nn") and x[1] == rp:
                        new.add((x[0], lp, x[2]))
                if paths.is_const(f, nd["ch"][1], 0):
                    new.add(("null", lp))
                if keyed and keyed.get("load") == e:
                    new.add(("model", lp, keyed["ssid"]))
                return frozenset(st | new)
            # store into a map cell
            st2 = frozenset(x for x in st if x[1] != lp)
            new = set()
            for x in st:
                if x[0] == "model" and x[1] == rp:
                    new.add(("model", lp, x[2]))
            return frozenset(st2 | new)
        if k == "CompoundAssign" or (k == "Un" and nd.get("op") in ("post++", "pre++", "post--", "pre--")):
            lhs = f.strip(nd["ch"][0])
            if f.k(lhs) == "DeclRef":
                return kill(st, f.nodes[lhs]["name"])
        if k == "Var":
            return kill(st, nd["name"])
        return st

    def edge(st, cond, pol):
        atom = paths.cond_atoms(f, cond, pol, subst=False)
        if ("null", atom[0]) in st and atom[1] is True:
            return None
        r = paths.rel(f, cond, pol, subst=False)
        if r and r[1] == "==":
            for (a, b) in ((r[0], r[2]), (r[2], r[0])):
                m = re.match(r"^(.+)->hmm\.ssid$", a)
                if m and re.match(r"^\w+$", b):
                    st = st | {("model", m.group(1), b)}
        if atom[1] is False and re.match(r"^[\w\[\]]+$", atom[0]):
            st = st | {("null", atom[0])}
        if atom[1] is True:
            st = frozenset(x for x in st if not (x[0] == "null" and x[1] == atom[0]))
            # "non-null implies model" facts fire on the non-null edge
            st = st | frozenset(("model", x[1], x[2]) for x in st if x[0] == "nn" and x[1] == atom[0])
        return frozenset(st)

    def meet(a, b):
        r = set(a & b)
        for (x, y) in ((a, b), (b, a)):
            nulls = set(t[1] for t in y if t[0] == "null")
            for t in x:
                if t[0] in ("model", "nn") and t[1] in nulls:
                    r.add(("nn", t[1], t[2]))
            for t in x:
                if t[0] == "nn" and (("model", t[1], t[2]) in y or t in y):
                    r.add(t)
        return frozenset(r)

    return flow.must_forward(f, frozenset(), transfer, edge, meet=meet)


def ctx_rule(ctx, P):
    c1 = ctx.rule("CTX.model", "a lextree node receives the bit of context c only where it is known to carry the model looked up for c: initialised with that ssid (before, or straight after in the same block) or compared equal to it", floor=4)
    f = P.fn("psubtree_add_trans", "fsg_lextree.c")
    ctx.touch(f)
    sites = ctxt_sites(f)
    if len(sites) != 4:
        raise AnalysisIncomplete("psubtree_add_trans: expected 4 fsg_pnode_add_ctxt sites, found %d" % len(sites))
    # keyed-map invariant for the leaf site: pnode = map[j]; ssid = rssid->ssid[j]
    keyed = None
    for s in paths.stores(f):
        if s["kind"] == "DeclRef" and s["rhs"] is not None:
            rp = f.canon(s["rhs"], subst=False)
            m = re.match(r"^ssid_pnode_map\[(\w+)\]$", rp)
            if m and m.group(1) != "0":
                j = m.group(1)
                # ssid assigned from rssid->ssid[j] in the same block, j not redefined in between
                b = paths.pos_of(f, s["node"])[0]
                sd = [t for t in paths.stores(f) if t["path"] == "ssid" and t["rhs"] is not None and f.canon(t["rhs"], subst=False) == "rssid->ssid[%s]" % j and paths.pos_of(f, t["node"])[0] == b]
                # every store into the map after the leaf's memset keeps the invariant: map[j] = pnode in a block where pnode was just initialised with ssid
                ms = f.calls("memset")
                mstores = [t for t in paths.stores(f) if t["kind"] == "Subscript" and t["path"].startswith("ssid_pnode_map[") and ms and paths.may_reach(f, ms[0], lambda e, t=t: e == t["node"])]
                okst = len(mstores) >= 1
                for t in mstores:
                    tb, ti = paths.pos_of(f, t["node"])
                    inits = [c for c in f.calls("hmm_init") if paths.pos_of(f, c)[0] == tb and paths.pos_of(f, c)[1] < ti and f.canon(f.args(c)[1], subst=False) == "&%s->hmm" % f.canon(t["rhs"], subst=False) and f.canon(f.args(c)[3], subst=False) == "ssid"]
                    if not (t["path"] == "ssid_pnode_map[%s]" % j and len(inits) == 1):
                        okst = False
                if sd and okst and ms and paths.always_before(f, s["node"], lambda e: e == ms[0]):
                    keyed = {"load": s["node"], "ssid": "ssid", "j": j}
    IN, at = model_facts(f, keyed)
    labels = {}
    ordn = {}
    for (node, pn, c) in sorted(sites, key=lambda x: f.line(x[0])):
        ordn[(pn, c)] = ordn.get((pn, c), 0) + 1
        labels[node] = "ctxt(%s,%s)#%d" % (pn, c, ordn[(pn, c)])
    for (node, pn, c) in sites:
        st = at(node)
        ok = st is not None and ("model", pn, "ssid") in st
        how = "dominating fact"
        if not ok:
            # initialised straight after in the same block, pnode / ssid untouched in between
            b, idx = paths.pos_of(f, node)
            els = f.cfg.blocks[b]["elems"]
            for e in els[idx + 1:]:
                if e < 0:
                    continue
                nd = f.nodes[e]
                if nd["k"] == "Assign" and f.canon(nd["ch"][0], subst=False) in (pn, "ssid"):
                    break
                if nd["k"] == "Call" and nd.get("callee") == "hmm_init" and f.canon(f.args(e)[1], subst=False) == "&%s->hmm" % pn and f.canon(f.args(e)[3], subst=False) == "ssid":
                    ok = True
                    how = "initialised in the same block"
                    break
        # which region?
        ssid_form = f.canon([i for i in f.walk(node)][0], subst=False)
        region = "leaf" if keyed and paths.may_reach(f, keyed["load"], lambda e: e == node) else None
        ctx.check(c1, ok, key(f, labels[node]), f.where(node),
                  "node `%s` gets the bit of context `%s` on a path where nothing establishes that it carries the model looked up for that context (ssid): contexts with different senone sequences would share one HMM" % (pn, c), how)
    if keyed is None:
        ctx.bad(c1, key(f, "leaf-map"), f.where(f.root), "the leaf node map is not keyed consistently (load, ssid lookup and store must use the same compressed context index after the memset)")
    # the ssid in force at each site is the one looked up for the same context variable
    c2 = ctx.rule("CTX.lookup", "the ssid attached at a context site is looked up with that same context variable in the role the table defines, and the context variable ranges over the list passed in; the lists passed are lc[from_state] and rc[to_state] of the same arc", floor=6)
    for (node, pn, c) in sites:
        # reaching definitions of ssid at the site
        uses = [i for i in f.walk() if f.k(i) == "DeclRef" and f.nodes[i]["name"] == "ssid" and paths.pos_of(f, i)[0] == paths.pos_of(f, node)[0]]
        forms = set()
        b = paths.pos_of(f, node)[0]
        # ssid definitions that can reach this block
        for t in paths.stores(f):
            if t["path"] == "ssid" and t["rhs"] is not None and (paths.may_reach(f, t["node"], lambda e: e == node)):
                # not overwritten by another ssid def on the way on all paths: take those with a def-free path
                others = [u["node"] for u in paths.stores(f) if u["path"] == "ssid" and u["node"] != t["node"]]
                if f.cfg.path_exists(paths.pos_of(f, t["node"]), lambda e: e == node, is_barrier=lambda e: e in others):
                    forms.add(f.canon(t["rhs"], subst=False))
        want = {
            "lc": ["lextree->d2p->lrdiph_rc[ci][lc][silcipid]", "lextree->d2p->ldiph_lc[ci][rc][lc]"],
            "rc": ["rssid->ssid[j]"],
        }.get(c, [])
        ok = len(forms) == 1 and list(forms)[0] in want
        ctx.check(c2, ok, key(f, "lookup:" + labels[node]), f.where(node), "context `%s` is attached to the model looked up as %s; expected one of %s" % (c, sorted(forms), want))
    # context variables range over the lists
    cd = {}
    for t in paths.stores(f):
        if t["path"] in ("lc", "rc", "j") and t["rhs"] is not None:
            cd.setdefault(t["path"], set()).add(f.canon(t["rhs"], subst=False))
    ctx.check(c2, "lclist[i]" in cd.get("lc", ()) and "rclist[i]" in cd.get("rc", ()) and "rssid->cimap[rc]" in cd.get("j", ()), key(f, "ranges"), f.where(f.root), "context variables are drawn from %s" % {k_: sorted(v) for k_, v in cd.items()})
    rs = [t for t in paths.stores(f) if t["path"] == "rssid"]
    ctx.check(c2, len(rs) == 1 and f.canon(rs[0]["rhs"]) == "&lextree->d2p->rssid[lextree->dict->word[dictwid].ciphone[p]][lextree->dict->word[dictwid].ciphone[(p - 1)]]", key(f, "rssid"), f.where(f.root), "right-context table is selected as %s" % [f.canon(t["rhs"]) for t in rs])
    g = P.fn("fsg_psubtree_init", "fsg_lextree.c")
    ctx.touch(g)
    cs = g.calls("psubtree_add_trans")
    ok = len(cs) == 1
    if ok:
        a = [g.canon(x) for x in g.args(cs[0])]
        ok = a[3] == "fsg_arciter_get(itor)" and a[4] == "lextree->lc[from_state]" and a[5] == "lextree->rc[fsg_arciter_get(itor)->to_state]"
        name, roots, steps = None, [], []
        it = [i for i in g.walk() if g.k(i) == "DeclRef" and g.nodes[i]["name"] == "itor"][0]
        defs = [d_ for (n_, d_) in g.local_defs(g.nodes[it]["decl"]) if d_ not in ("uninit",)]
        ok = ok and defs == ["fsg_model_arcs(fsg, from_state)", "fsg_arciter_next(itor)"]
    ctx.check(c2, ok, key(g, "lists"), g.where(cs[0]) if cs else g.where(g.root), "psubtree_add_trans is not called with the arc's own lc[from_state] / rc[to_state] lists for arcs leaving from_state")
    li = P.fn("fsg_lextree_init", "fsg_lextree.c")
    ctx.touch(li)
    rt = [t for t in paths.stores(li) if t["path"] == "lextree->root[s]"]
    ctx.check(c2, len(rt) == 1 and li.canon(rt[0]["rhs"], subst=False).startswith("fsg_psubtree_init(lextree, fsg, s, "), key(li, "root[s]"), li.where(li.root), "root[s] does not receive the subtree built for state s")


# ---------------------------------------------------------------------------------- ONCE
def once_rule(ctx, P):
    o = ctx.rule("ONCE.penalties", "over a root..leaf chain the phone insertion penalty is added once per phone, the word insertion penalty once and the arc probability once; entering a node adds exactly that node's log-prob to the source score", floor=8)
    f = P.fn("psubtree_add_trans", "fsg_lextree.c")
    allocs = []
    for s in paths.stores(f):
        if s["path"] == "pnode->logs2prob":
            b = paths.pos_of(f, s["node"])[0]
            sib = {t["path"]: f.canon(t["rhs"], subst=False) for t in paths.stores(f) if paths.pos_of(f, t["node"])[0] == b and t["path"] in ("pnode->ppos", "pnode->leaf")}
            p = lin.poly(f, s["rhs"], subst=False)
            allocs.append((s, sib, p))
    classes = {}
    for (s, sib, p) in allocs:
        ppos, leaf = sib.get("pnode->ppos"), sib.get("pnode->leaf")
        if ppos == "0" and leaf == "1":
            cl = "single"
        elif ppos == "0" and leaf == "0":
            cl = "root-multi"
        elif ppos == "p" and leaf == "0":
            cl = "internal"
        elif ppos == "p" and leaf == "1":
            cl = "leaf"
        else:
            cl = "?"
        classes.setdefault(cl, []).append((s, p))
    W, PIP, LNK = "lextree->wip", "lextree->pip", "(fsglink->logs2prob >> 10)"
    def cnt(p, atom):
        return p.get((atom,), 0)
    for cl, lst in classes.items():
        for (s, p) in lst:
            extra = {m: c for m, c in p.items() if m not in ((W,), (PIP,), (LNK,))}
            if cl == "single":
                ok = cnt(p, PIP) == 1 and cnt(p, W) == 1 and cnt(p, LNK) == 1 and not extra
            elif cl == "internal":
                ok = cnt(p, PIP) == 1 and cnt(p, W) == 0 and cnt(p, LNK) == 0 and not extra
            elif cl in ("root-multi", "leaf"):
                ok = cnt(p, PIP) == 1 and not extra
            else:
                ok = False
            ctx.check(o, ok, key(f, "%s@%d" % (cl, f.line(s["node"]))), f.where(s["node"]), "%s node gets log-prob %s" % (cl, lin.p_str(p)), lin.p_str(p))
    rm = [p for (s, p) in classes.get("root-multi", [])]
    lf = [p for (s, p) in classes.get("leaf", [])]
    ok = len(rm) == 1 and len(lf) == 1
    if ok:
        tot = lin.p_add(rm[0], lf[0])
        ok = cnt(tot, W) == 1 and cnt(tot, LNK) == 1 and cnt(tot, PIP) == 2
    ctx.check(o, ok, key(f, "root+leaf"), f.where(f.root), "root and leaf of a multi-phone word together must carry the word penalty once and the arc probability once")
    ctx.check(o, sorted((k_, len(v)) for k_, v in classes.items()) == [("internal", 1), ("leaf", 1), ("root-multi", 1), ("single", 2)], key(f, "classes"), f.where(f.root), "node allocation sites: %s" % sorted((k_, len(v)) for k_, v in classes.items()))
    # leaf nodes carry the arc; roots chain to the previous root
    for s in paths.stores(f):
        if s["path"] == "pnode->next.fsglink":
            ctx.check(o, f.canon(s["rhs"], subst=False) == "fsglink", key(f, "leaf-link@%d" % f.line(s["node"])), f.where(s["node"]), "leaf records `%s`, not the arc being added" % f.canon(s["rhs"], subst=False))
    # transitions add the target's log-prob exactly once
    fs = {g.name: g for g in P.functions("fsg_search.c")}
    for name, form in (("fsg_search_pnode_trans", r"^\((\w+)->logs2prob \+ (\w+)->hmm\.out_score\)$"), ("fsg_search_word_trans", r"^\(fsg_history_entry_get\(fsgs->history, \w+\)->score \+ (\w+)->logs2prob\)$")):
        g = fs[name]
        ctx.touch(g)
        for c in g.calls("hmm_enter"):
            a = g.args(c)
            sc = g.canon(a[1])
            tgt = re.match(r"^&(\w+)->hmm$", g.canon(a[0], subst=False))
            m = re.match(form, sc)
            ctx.check(o, m is not None and tgt is not None and tgt.group(1) == m.group(1), key(g, "enter-score"), g.where(c), "entering `%s` with score `%s`: it must be the source score plus the entered node's own log-prob, once" % (g.canon(a[0], subst=False), sc))
    g = fs["fsg_search_null_prop"]
    for c in g.calls("fsg_history_entry_add"):
        sc = g.canon(g.args(c)[3])
        ctx.check(o, re.match(r"^\(\(fsg_arciter_get\(itor\)->logs2prob >> 10\) \+ fsg_history_entry_get\(fsgs->history, \w+\)->score\)$", sc) is not None, key(g, "null-score"), g.where(c), "null transition score is `%s`" % sc)
    # penalties configured once into the lextree
    li = P.fn("fsg_lextree_init", "fsg_lextree.c")
    st = {t["path"]: li.canon(t["rhs"], subst=False) for t in paths.stores(li) if t["path"] in ("lextree->wip", "lextree->pip")}
    ctx.check(o, st == {"lextree->wip": "wip", "lextree->pip": "pip"}, key(li, "penalties"), li.where(li.root), "penalties stored as %s" % st)


# ---------------------------------------------------------------------------------- ROLE
def role_rule(ctx, P):
    r = ctx.rule("ROLE.context-tables", "every write T[x][y][z] = ssid(nearest(base,left,right,pos)) places (base,left,right) in the index roles the table's accessor defines with the word position of that table; every fill guard tests a cell of the family it fills", floor=8)
    d2 = {f.name: f for f in P.functions("dict2pid.c") if f.file.endswith("dict2pid.c")}
    POS = {"WORD_POSN_BEGIN": "ldiph_lc", "WORD_POSN_END": "rdiph", "WORD_POSN_SINGLE": "lrdiph_rc", "WORD_POSN_INTERNAL": "internal"}
    nw = 0
    enums = P.enums
    EN = {n: enums[n][0] for n in ("WORD_POSN_INTERNAL", "WORD_POSN_BEGIN", "WORD_POSN_END", "WORD_POSN_SINGLE") if n in enums}
    if len(EN) != 4:
        raise AnalysisIncomplete("word position enum changed")
    for f in d2.values():
        for c in f.calls("bin_mdef_phone_id_nearest"):
            ctx.touch(f)
            a = [f.canon(x, subst=False) for x in f.args(c)]
            base, left, right = a[1], a[2], a[3]
            posv = f.constval(f.args(c)[4])
            par = f.up(c)
            pv = None
            if par is not None and f.k(par) in ("Var", "Assign"):
                pv = f.nodes[par]["name"] if f.k(par) == "Var" else f.canon(f.nodes[par]["ch"][0], subst=False)
            if f.name == "dict2pid_internal":
                nw += 1
                ctx.check(r, posv == EN["WORD_POSN_INTERNAL"], key(f, "internal"), f.where(c), "word-internal triphone is looked up with position %s" % posv)
                defs = {s["path"]: f.canon(s["rhs"], subst=False) for s in paths.stores(f) if s["path"] in ("b", "l", "r")}
                want = {"b": "dict->word[wid].ciphone[pos]", "l": "dict->word[wid].ciphone[(pos - 1)]", "r": "dict->word[wid].ciphone[(1 + pos)]"}
                ctx.check(r, defs == want and (base, left, right) == ("b", "l", "r"), key(f, "internal-roles"), f.where(c), "word-internal context is (%s,%s,%s) with %s" % (base, left, right, defs))
                continue
            if pv is None:
                continue
            otherdefs = [s["node"] for s in paths.stores(f) if s["path"] == pv and s["node"] != par]
            for v_ in f.find("Var"):
                if f.nodes[v_]["name"] == pv and v_ != par:
                    otherdefs.append(v_)
                    if f.parent[v_] is not None:
                        otherdefs.append(f.parent[v_])
            tgts = []
            for s in paths.stores(f):
                if s["rhs"] is not None and re.search(r"->phone\[%s\]\.ssid|bin_mdef_pid2ssid\([^,]+, %s\)" % (re.escape(pv), re.escape(pv)), f.canon(s["rhs"], subst=False)):
                    if f.cfg.path_exists(paths.pos_of(f, c), lambda e, s=s: e == s["node"], is_barrier=lambda e: e in otherdefs):
                        tgts.append(s)
            ctx.check(r, len(tgts) >= 1, key(f, "target@%d" % f.line(c)), f.where(c), "the triphone looked up here is not stored into a context table")
            for tgt in tgts:
                nw += 1
                head, idx, tail = split_indices(tgt["path"])
                table = head.split("->")[-1]
                sil_r = paths.guarded(f, tgt["node"], lambda fn, cc, pol: pol and re.match(r"^\(%s == .*sil\)$|^\(.*sil == %s\)$" % (re.escape(right), re.escape(right)), fn.canon(cc, subst=False)) is not None)
                sil_l = paths.guarded(f, tgt["node"], lambda fn, cc, pol: pol and re.match(r"^\(%s == .*sil\)$|^\(.*sil == %s\)$" % (re.escape(left), re.escape(left)), fn.canon(cc, subst=False)) is not None)
                if table == "ldiph_lc":
                    ok = idx == [base, right, left]
                    okpos = posv == EN["WORD_POSN_BEGIN"] or (posv == EN["WORD_POSN_SINGLE"] and sil_r)
                elif table == "lrdiph_rc":
                    ok = idx == [base, left, right]
                    okpos = posv == EN["WORD_POSN_SINGLE"]
                elif table == "rdiph_rc":
                    ok = idx == [base, left, right]
                    okpos = posv == EN["WORD_POSN_END"] or (posv == EN["WORD_POSN_SINGLE"] and sil_l)
                elif table == "rmap":
                    ok = idx == [right]
                    okpos = posv == EN["WORD_POSN_END"]
                else:
                    ok, okpos = False, False
                ctx.check(r, ok, key(f, "write:%s@%d" % (table, f.line(tgt["node"]))), f.where(tgt["node"]), "`%s` is filled from nearest(base=%s, left=%s, right=%s): index roles do not match the table's accessor" % (tgt["path"], base, left, right), "%s <- (%s,%s,%s)" % (tgt["path"], base, left, right))
                ctx.check(r, okpos, key(f, "pos:%s@%d" % (table, f.line(tgt["node"]))), f.where(c), "table `%s` is filled with word position %s" % (table, posv))
    ctx.check(r, nw >= 5, "dict2pid:writers", "src/dict2pid.c", "expected >= 5 context-table writers (found %d)" % nw)
    # fill guards in dict2pid_add_word
    f = d2.get("dict2pid_add_word")
    if f is None:
        raise AnalysisIncomplete("anchor vanished: dict2pid_add_word")
    ctx.touch(f)
    nguard = 0
    for s in paths.stores(f):
        head, idx, tail = split_indices(s["path"])
        sub = False
        if head not in ("d2p->ldiph_lc", "d2p->rssid"):
            # through a local pointer to the cell: compare the resolved forms
            sp = re.sub(r"^\(&(.*)\)->", r"\1.", s["spath"])
            head, idx, tail = split_indices(sp)
            sub = True
        if head not in ("d2p->ldiph_lc", "d2p->rssid"):
            continue
        table = head.split("->")[-1]
        fam = idx[:2]
        def guard(fn, cc, pol, head=head, fam=fam, sub=sub):
            txt = fn.canon(cc, subst=sub)
            k0 = txt.find(head + "[")
            if k0 < 0 or not pol:
                return False
            h2, i2, t2 = split_indices(txt[k0:])
            return i2[:2] == fam
        others = [f.canon(cc, subst=False) for (s0, d0, cc, pol) in f.cfg.cond_edges() if pol and (head + "[") in f.canon(cc, subst=False)]
        nguard += 1
        ctx.check(r, paths.guarded(f, s["node"], guard), key(f, "guard:%s%s" % (table, tail)), f.where(s["node"]), "`%s` is filled under a test of a different cell (%s): an empty entry would never be filled, or a filled one refilled" % (s["path"], others[:2]))
    ctx.check(r, nguard >= 4, key(f, "guards"), f.where(f.root), "expected >= 4 guarded fills in dict2pid_add_word (found %d)" % nguard)
    # readers in the lextree (roles checked in CTX.lookup) and the aligner (C04)


# ---------------------------------------------------------------------------------- ORDER
def order_rule(ctx, P):
    o = ctx.rule("ORDER.best-of", "score-carrying updates keep the better value: best HMM score per frame, sorted insertion of history entries (descending score) with right-context subtraction word-by-word, pruning only of entries whose context set became empty", floor=8)
    fs = {g.name: g for g in P.functions("fsg_search.c")}
    g = fs["fsg_search_hmm_eval"]
    ctx.touch(g)
    bs = [s for s in paths.stores(g) if s["path"] == "bestscore" and s["rhs"] is not None and not paths.is_const(g, s["rhs"])]
    ok = len(bs) == 1 and paths.guarded(g, bs[0]["node"], lambda fn, cc, pol: paths.rel(fn, cc, pol, subst=False) == ("bestscore", "<", g.canon(bs[0]["rhs"], subst=False)))
    ctx.check(o, ok, key(g, "bestscore"), g.where(g.root), "per-frame best score is not a max-merge over the evaluated HMMs")
    ev = g.calls("hmm_vit_eval")
    ctx.check(o, len(ev) == 1 and bs and g.canon(bs[0]["rhs"], calls=True).startswith("hmm_vit_eval("), key(g, "source"), g.where(g.root), "best score is not merged from the evaluator's return value")
    h = P.fn("fsg_history_entry_add", "fsg_history.c")
    ctx.touch(h)
    brk = h.find("Break")
    ctx.check(o, len(brk) == 1 and paths.guarded(h, brk[0], lambda fn, cc, pol: paths.rel(fn, cc, pol, subst=False) == ("entry->score", "<", "score")), key(h, "insert-position"), h.where(h.root), "the scan does not stop at the first entry with a worse score (list not kept in descending score order)")
    # context subtraction sites: (&rc) -= entry->rc before, entry->rc -= rc after
    subs = []
    for i in h.find("Assign"):
        if "FSG_PNODE_CTXT_SUB" in h.mac(i):
            lhs = h.canon(h.nodes[i]["ch"][0], subst=False)
            rhs = h.canon(h.nodes[i]["ch"][1], subst=False)
            subs.append((i, lhs, rhs))
    ctx.check(o, len(subs) == 8, key(h, "ctxt-sub-words"), h.where(h.root), "expected 2 context subtractions over 4 words each (found %d word operations)" % len(subs))
    for (i, lhs, rhs) in subs:
        m = re.match(r"^(.*)\.bv\[(\d)\]$", lhs) or re.match(r"^(.*)->bv\[(\d)\]$", lhs)
        w = m.group(2) if m else "?"
        idxs = re.findall(r"bv\[(\d)\]", rhs)
        ok = m is not None and idxs == [w, w] and "~" in rhs
        ctx.check(o, ok, key(h, "sub:%s" % lhs), h.where(i), "context word %s is computed as `%s`: each word must be masked with the same word of the other set" % (lhs, rhs))
        # the set that shrinks is the function's own copy of the new entry's set, or the set of an entry of the
        # frame list being scanned - never memory of the caller (for a null transition that is the permanent
        # entry being propagated, which then loses contexts its own state's words still need)
        base = m.group(1) if m else ""
        prm = [pr for pr in h.params if pr[0] == base]
        own = (prm and "*" not in prm[0][3]) or re.match(r"^\w+->rc$", base) is not None and not [pr for pr in h.params if pr[0] == base.split("->")[0]]
        ctx.check(o, bool(own), key(h, "sub-target:%s" % lhs), h.where(i), "the context subtraction writes `%s`, which is the caller's memory (a set passed by reference): the set of the entry a null transition propagates is edited in place" % lhs)
    rets = [r for r in h.find("Return") if not h.ch(r)]
    dom = [r for r in rets if paths.guarded(h, r, lambda fn, cc, pol: pol and "FSG_PNODE_CTXT_SUB" in " ".join(fn.mac(fn.strip(cc))) or (pol and "rc.bv" in fn.canon(cc, subst=False)))]
    ctx.check(o, len(dom) == 1 and paths.guarded(h, dom[0], lambda fn, cc, pol: paths.rel(fn, cc, pol, subst=False) == ("score", "<=", "entry->score")), key(h, "dominated-drop"), h.where(h.root), "a new entry is dropped without (existing entry not worse && context set exhausted)")
    fr = h.calls("ckd_free")
    for c in fr:
        ctx.check(o, paths.guarded(h, c, lambda fn, cc, pol: pol and "entry->rc" in fn.canon(cc, subst=False) and "== 0" in fn.canon(cc, subst=False).replace("(0 == ", "== 0 ").replace(" == 0)", " == 0")) or paths.guarded(h, c, lambda fn, cc, pol: pol and "bv" in fn.canon(cc, subst=False)), key(h, "prune"), h.where(c), "an existing entry is pruned although its context set is not empty")


def backoff_rule(ctx, P):
    """which model a triphone missing from the model definition gets is part of the acoustic model: the word
    positions are tried in a fixed order"""
    r = ctx.rule("ORDER.backoff", "bin_mdef_phone_id_nearest looks a triphone up in the requested word position first and then, in a loop from position 0 upwards over all positions but the requested one, in the others - with the given contexts, then with the silence contexts; the position handed to the lookup is the requested one resp. the loop counter itself", floor=4)
    f = P.fn("bin_mdef_phone_id_nearest", "bin_mdef.c")
    ctx.touch(f)
    pos = f.params[4][0]
    cs = f.calls("bin_mdef_phone_id")
    if len(cs) < 2:
        raise AnalysisIncomplete("bin_mdef_phone_id_nearest: lookups not found (%d)" % len(cs))
    exact, looped = [], []
    for c in cs:
        lp = f.enclosing(c, ("For", "While", "Do"))
        a4 = f.canon(f.strip(f.args(c)[4]), subst=False)
        if lp is None:
            exact.append(c)
            ctx.check(r, a4 == pos, key(f, "exact-position@%d" % len(exact)), f.where(c), "the first lookup uses position `%s`, not the requested one" % a4)
            continue
        looped.append(c)
        n_ = len(looped)
        # the loop counts a position from 0 to the number of positions; the lookup gets the counter, skipping the requested position
        cond = f.ch(lp)[{"While": 0, "For": 1, "Do": 1}[f.k(lp)]]
        rr = paths.rel(f, cond, True, subst=False)
        v = rr[0] if rr and rr[1] == "<" else None
        okv = v is not None and rr[2] in ("4", "N_WORD_POSN") and a4 == v
        if okv:
            sts = [s_ for s_ in paths.stores(f) if s_["path"] == v and (s_["node"] in set(f.walk(lp)))]
            starts = [s_ for s_ in sts if s_["op"] == "=" and s_["rhs"] is not None]
            steps = [s_ for s_ in sts if s_["op"] in ("++", "+=")]
            okv = len(steps) == 1 and (steps[0]["op"] == "++" or paths.is_const(f, steps[0]["rhs"], 1))
            if f.k(lp) == "For":
                okv = okv and len(starts) == 1 and paths.is_const(f, starts[0]["rhs"], 0)
        ctx.check(r, bool(okv), key(f, "ascending@%d" % n_), f.where(c), "the back-off lookup is handed `%s`: the other positions are not tried in ascending order by the loop counter (%s)" % (a4, rr))
        ctx.check(r, v is not None and paths.guarded(f, c, lambda fn, cc, pol, v=v: (lambda q: q is not None and q[1] == "==" and {q[0], q[2]} == {v, pos})(paths.rel(fn, cc, not pol, subst=False))), key(f, "skips-requested@%d" % n_), f.where(c), "the back-off loop does not skip the requested position")
        ctx.check(r, any(f.canon(a_, subst=False) == f.canon(b_, subst=False) for e_ in exact for a_, b_ in [(f.args(e_)[2], f.args(c)[2])]) and any(paths.always_before(f, c, lambda e, e_=e_: e == e_) for e_ in exact if [f.canon(x, subst=False) for x in f.args(e_)[1:4]] == [f.canon(x, subst=False) for x in f.args(c)[1:4]]), key(f, "exact-first@%d" % n_), f.where(c), "the back-off loop is not preceded by the lookup in the requested position with the same contexts")
    ctx.check(r, len(exact) >= 1 and len(looped) >= 1, key(f, "shape"), f.where(f.root), "expected exact lookups followed by back-off loops (found %d / %d)" % (len(exact), len(looped)))


# ---------------------------------------------------------------------------------- ID SPACES
FSG_ID = re.compile(r"fsglink->wid\b|fsg_link_s|->wid\b|fsg_model_word_id\(|fsg_model_word_add\(")


def idspace_rule(ctx, P):
    r = ctx.rule("ROLE.id-space", "the dictionary is indexed with dictionary word ids only: an index into dict->word[] (dict_pron, dict_pronlen, dict_is_single_phone, dict_first_phone ... expand to one) never derives from a grammar word id (the wid of a grammar link, fsg_model_word_id / word_add) except through dict_wordid(); both are int32 and in range, so nothing else notices", floor=10)
    n = 0
    for u in ("fsg_search.c", "fsg_lextree.c", "decoder.c", "state_align_search.c", "ps_alignment.c"):
        for f in P.functions(u):
            if not f.file.endswith(u):
                continue
            for i in f.find("Subscript"):
                b = f.strip(f.ch(i)[0])
                nd = f.nodes[b]
                if nd["k"] != "Member" or nd.get("rec") != "dict_s" or nd.get("field") != "word":
                    continue
                ctx.touch(f)
                idx = f.ch(i)[1]
                c = f.canon(idx, calls=True)
                n += 1
                # follow the index through the locals it is computed from; what is inside dict_wordid( ... )
                # is a spelling, not an id
                bad = False
                st = [(idx, 0)]
                seen = set()
                while st:
                    x, dp = st.pop()
                    if x in seen or dp > 6:
                        continue
                    seen.add(x)
                    nx = f.nodes[x]
                    if nx["k"] == "Call" and nx.get("callee") in ("dict_wordid", "dict_basewid"):
                        continue
                    if nx["k"] == "Call" and nx.get("callee") in ("fsg_model_word_id", "fsg_model_word_add"):
                        bad = True
                    if nx["k"] == "Member" and nx.get("field") == "wid" and nx.get("rec") == "fsg_link_s":
                        bad = True
                    if nx["k"] == "DeclRef" and nx.get("ref") in ("local", "param"):
                        for (dn, val) in f.rd.def_values(x):
                            if val not in (None, "uninit", "param") and dn != "param":
                                st.append((val, dp + 1))
                    st.extend((y, dp) for y in nx["ch"])
                ctx.check(r, not bad, key(f, "dict-index@%d:%s" % (f.line(i), c[:40])), f.where(i), "the dictionary is indexed with `%s`, a grammar word id: the two id spaces only coincide by accident, so the wrong word's pronunciation decides (context sets, single-phone treatment)" % c)
    if n < 10:
        raise AnalysisIncomplete("dictionary subscripts not found (%d)" % n)


def ciext_rule(ctx, P):
    r = ctx.rule("CTX.external-phone", "the phone a lextree node presents to its neighbours (ci_ext, the key of the cross-word context tests) is the silence phone for a filler word - the only phone the context sets of fillers contain - and the word's own phone at that position otherwise", floor=4)
    f = P.fn("psubtree_add_trans", "fsg_lextree.c")
    ctx.touch(f)
    n = 0
    for s_ in paths.stores(f):
        if not s_["path"].endswith("->ci_ext") or s_["rhs"] is None:
            continue
        n += 1
        v = f.canon(s_["rhs"])
        filler = paths.guarded(f, s_["node"], lambda fn, cc, pol: "filler" in fn.canon(cc, subst=False) and paths.cond_atoms(fn, cc, pol, subst=False)[1] is True) or \
            paths.guarded(f, s_["node"], lambda fn, cc, pol: "filler" in fn.canon(cc, subst=False) and fn.canon(cc, subst=False).lstrip("(").startswith("!") and not pol)
        notfiller = paths.guarded(f, s_["node"], lambda fn, cc, pol: "filler" in fn.canon(cc, subst=False) and paths.cond_atoms(fn, cc, pol, subst=False)[1] is False)
        if filler and not notfiller:
            ctx.check(r, v in ("silcipid", "lextree->mdef->sil", "bin_mdef_silphone(lextree->mdef)"), key(f, "filler@%d" % f.line(s_["node"])), f.where(s_["node"]), "a filler node presents `%s` to its neighbours instead of the silence phone: the context sets of fillers contain only silence, so the filler can no longer follow or precede a word directly" % v)
        else:
            ctx.check(r, re.match(r"^lextree->dict->word\[dictwid\]\.ciphone\[(0|p)\]$", v) is not None, key(f, "word@%d" % f.line(s_["node"])), f.where(s_["node"]), "a word node presents `%s` to its neighbours, not its own phone" % v)
    if n < 4:
        raise AnalysisIncomplete("ci_ext stores not found (%d)" % n)


def liveness_rule(ctx, P):
    """The unrolled evaluators skip the candidates of a destination state when a source state is dead.  States of
    a left-to-right model come alive from the lowest index upwards, so the only sound test is on the *lowest*
    source among the candidates it guards: testing a higher one drops the candidates of the lower sources while
    they are alive (a phone can then no longer be crossed in the minimum number of frames)."""
    r = ctx.rule("VIT.L-liveness", "in the unrolled Viterbi evaluators a liveness test `sK better than WORST_SCORE` guards only candidates whose lowest source state is K (states come alive from the lowest index upwards: a test on a higher source would drop live candidates)", floor=6)
    for name in ("hmm_vit_eval_3st_lr", "hmm_vit_eval_3st_lr_mpx", "hmm_vit_eval_5st_lr", "hmm_vit_eval_5st_lr_mpx"):
        f = P.fn(name, "hmm.c")
        ctx.touch(f)
        for i in f.find("If"):
            rr = paths.rel(f, f.ch(i)[0], True, subst=False)
            if rr is None or rr[1] not in ("<", ">", "!=", "<=", ">="):
                continue
            m = [x for x in (rr[0], rr[2]) if re.match(r"^s\d$", x)]
            other = [x for x in (rr[0], rr[2]) if not re.match(r"^s\d$", x)]
            if len(m) != 1 or len(other) != 1 or not re.match(r"^-?\d+$", other[0]):
                continue
            srcs = set()
            for st in paths.stores(f, f.ch(i)[1]):
                if re.match(r"^t\d$", st["path"]) and st["rhs"] is not None:
                    srcs |= set(int(x) for x in re.findall(r"\bs(\d)\b", f.canon(st["rhs"], subst=False)))
            if not srcs:
                continue
            k = int(m[0][1:])
            ctx.check(r, k == min(srcs), key(f, "guard:s%d:sources=%s" % (k, ",".join(str(x) for x in sorted(srcs)))), f.where(i), "the candidates from states %s are computed only when state %d is alive, but state %d comes alive first: while it is alive and state %d is not, its transition is dropped and the best path through this phone is lost" % (sorted(srcs), k, min(srcs), k))


def run(ctx):
    P = ctx.P
    vit_rule(ctx, P)
    liveness_rule(ctx, P)
    generic_evaluator(ctx, P)
    ctx_rule(ctx, P)
    backoff_rule(ctx, P)
    once_rule(ctx, P)
    role_rule(ctx, P)
    idspace_rule(ctx, P)
    ciext_rule(ctx, P)
    order_rule(ctx, P)
    # the optimum that is reported is the score of the path that is returned (shared with C03)
    from . import c03
    c03.score_of_exit_rule(ctx, P)
    # the search takes one null step per exit because the closure has composed all chains with their best
    # probability: a closure that stops before probabilities have converged loses the optimum (seed C02-10)
    from . import c13
    from ..report import Only
    c13.run(Only(ctx, ("PROV.W5-transforms",)))
