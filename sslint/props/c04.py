"""C04 — forced alignment hierarchy.

Decides A0 (the alignment's word level is the first-pass segmentation: word,
start, duration = ef - sf + 1), A1 (model lookup roles in the expansion to
phones), A2 (the two propagation loops are the same algorithm at two levels
and reset what they accumulate; state expansion twins), A3 (the state
back-trace assigns contiguous spans by construction; token bookkeeping), A4
(no use of an entry pointer after its vector may have moved), A5 (second-pass
constraints are taken from the same phone entry and compared for the HMM they
act on).  Not decided: equality of word scores with first-pass acoustic
scores; alignment of partial results as such.
"""
import re

from .. import lin, paths
from ..prog import AnalysisIncomplete
from .c02 import split_indices

PA = "ps_alignment.c"
SA = "state_align_search.c"


def key(fn, what):
    return "%s:%s" % (fn.name, what)


def run(ctx):
    P = ctx.P
    pa = {f.name: f for f in P.functions(PA) if f.file.endswith(PA)}
    sa = {f.name: f for f in P.functions(SA) if f.file.endswith(SA)}
    dec = {f.name: f for f in P.functions("decoder.c") if f.file.endswith("decoder.c")}
    for n in ("alignment_populate", "alignment_populate_ci", "alignment_propagate", "alignment_add_word", "alignment_vector_grow_one", "alignment_iter_next", "alignment_iter_goto"):
        if n not in pa:
            raise AnalysisIncomplete("anchor vanished: %s" % n)
        ctx.touch(pa[n])
    for n in ("state_align_search_finish", "state_align_search_init", "record_transitions", "prune_hmms", "phone_transition", "state_align_search_step", "state_align_search_start", "evaluate_hmms"):
        if n not in sa:
            raise AnalysisIncomplete("anchor vanished: %s" % n)
        ctx.touch(sa[n])
    da = dec.get("decoder_alignment")
    if da is None:
        raise AnalysisIncomplete("anchor vanished: decoder_alignment")
    ctx.touch(da)

    # ---- A0 words from the first pass ---------------------------------------------------
    a0 = ctx.rule("PROV.A0-words", "the alignment's words are the first-pass segments that are dictionary words, with start = sf and duration = ef - sf + 1; the expansion's result and the rewind are checked; the second pass searches each buffered frame exactly once", floor=6)
    aw = da.calls("alignment_add_word")
    ok = len(aw) == 1
    if ok:
        a = [da.canon(x, subst=False) for x in da.args(aw[0])]
        ok = a[0] == "al" and a[1] == "wid" and a[2] == "seg->sf" and lin.poly(da, da.args(aw[0])[3], subst=False) == {("seg->ef",): 1, ("seg->sf",): -1, (): 1}
    ctx.check(a0, ok, key(da, "add-word"), da.where(aw[0]) if aw else da.where(da.root), "word is added as (%s): start must be the segment's start and duration ef - sf + 1" % (", ".join(da.canon(x, subst=False) for x in da.args(aw[0])) if aw else "?"))
    wv = [v for v in da.find("Var") if da.nodes[v]["name"] == "wid"]
    ctx.check(a0, len(wv) == 1 and da.canon(da.ch(wv[0])[0], subst=False) == "dict_wordid(d->dict, seg->word)", key(da, "word-id"), da.where(da.root), "word id is not looked up from the segment's word")
    if aw:
        g = paths.guarded(da, aw[0], lambda fn, cc, pol: paths.rel(fn, cc, pol, subst=False) in (("-1", "!=", "wid"), ("wid", "!=", "-1")))
        ctx.check(a0, g, key(da, "skip-unknown"), da.where(aw[0]), "segments that are not dictionary words (null transitions) are not skipped")
    st = [s for s in paths.stores(da) if s["path"] == "seg"]
    ctx.check(a0, sorted(da.canon(s["rhs"], subst=False) for s in st) == ["decoder_seg_iter(d)", "seg_iter_next(seg)"], key(da, "segments"), da.where(da.root), "words are not drawn from the decoder's own segmentation")
    pop = da.calls("alignment_populate")
    ctx.check(a0, len(pop) == 1 and any(pol and paths.rel(da, cc, pol, subst=False) == ("alignment_populate(al)", "<", "0") for (s0, d0, cc, pol) in da.cfg.cond_edges()), key(da, "populate-checked"), da.where(da.root), "the result of alignment_populate is not checked")
    rw = da.calls("acmod_rewind")
    ctx.check(a0, len(rw) == 1 and any(pol and paths.rel(da, cc, pol, subst=False) == ("acmod_rewind(d->acmod)", "<", "0") for (s0, d0, cc, pol) in da.cfg.cond_edges()), key(da, "rewind-checked"), da.where(da.root), "the result of acmod_rewind is not checked (a wrapped buffer would be aligned)")
    steps = [c for c in da.find("Call") if da.nodes[c].get("slot") == ["searchfuncs_s", "step"] or da.nodes[c].get("callee") == "search_module_step"]
    adv = da.calls("acmod_advance")
    ok = len(steps) == 1 and len(adv) == 1
    if ok:
        rets = [r for r in da.find("Return")]
        ok = paths.must_pass(da, steps[0], lambda e: e == adv[0] or (e in rets and paths.guarded(da, e, lambda fn, cc, pol: pol and "step" in fn.canon(cc, subst=False)))) and not da.cfg.path_exists(paths.pos_of(da, adv[0]), lambda e: e == adv[0], is_barrier=lambda e: e == steps[0])
        ok = ok and da.canon(da.args(steps[0])[1], subst=False) == "d->acmod->output_frame"
        conds = [paths.rel(da, cc, pol, subst=False) for (s0, d0, cc, pol) in da.cfg.cond_edges() if pol]
        ok = ok and ("d->acmod->output_frame", "<", "output_frame") in conds
        of = [s for s in paths.stores(da) if s["path"] == "output_frame"]
        ok = ok and len(of) == 1 and da.canon(of[0]["rhs"], subst=False) == "d->acmod->output_frame" and paths.always_before(da, rw[0], lambda e: e == of[0]["node"]) if rw else False
    ctx.check(a0, ok, key(da, "second-pass"), da.where(da.root), "second pass does not step and advance once per frame up to the frame count saved before the rewind")
    f = pa["alignment_add_word"]
    st = {s["path"]: f.canon(s["rhs"], subst=False) for s in paths.stores(f) if s["path"].startswith("ent->")}
    ctx.check(a0, st.get("ent->id.wid") == "wid" and st.get("ent->start") == "start" and st.get("ent->duration") == "duration" and st.get("ent->score") == "0", key(f, "fields"), f.where(f.root), "word entry is stored as %s" % st)

    # ---- A6 the cached aligner belongs to the current utterance ---------------------------------------
    from . import c08
    a6 = ctx.rule("EFFECT.A6-aligner-cache", "a state aligner kept from an earlier request is reused only within the same utterance: decoder_start_utt releases and forgets it, and decoder_alignment compares its frame count before handing it back", floor=2)
    c08.required_resets(ctx, P, a6, only={"decoder_start_utt_align_only"})

    # ---- A1 roles -----------------------------------------------------------------------------
    a1 = ctx.rule("ROLE.A1-models", "the expansion looks up, per phone position, the same context-dependent model the search uses: single-phone lrdiph_rc[ci][lc][rc], first ldiph_lc[ci][second][lc], internal by (word, position), last rssid[ci][second-last] at cimap[rc]; lc / rc are the neighbouring words' last / first phones (silence at the ends)", floor=10)
    f = pa["alignment_populate"]
    ss = [s for s in paths.stores(f) if s["path"] == "sent->id.pid.ssid"]
    forms = [f.canon(s["rhs"], subst=False) for s in ss]
    W = "dict->word[wid]"
    want = [
        "d2p->lrdiph_rc[sent->id.pid.cipid][lc][rc]",
        "d2p->ldiph_lc[sent->id.pid.cipid][%s.ciphone[1]][lc]" % W,
        "dict2pid_internal(d2p, wid, j)",
        "rssid->ssid[rssid->cimap[rc]]",
    ]
    ctx.check(a1, forms == want, key(f, "lookups"), f.where(f.root), "models are looked up as %s, expected %s" % (forms, want))
    cip = [f.canon(s["rhs"], subst=False) for s in paths.stores(f) if s["path"] == "sent->id.pid.cipid"]
    ctx.check(a1, cip == ["%s.ciphone[0]" % W, "%s.ciphone[j]" % W, "%s.ciphone[(%s.pronlen - 1)]" % (W, W)], key(f, "phones"), f.where(f.root), "phone ids are %s" % cip)
    if len(ss) == 4:
        g1 = paths.guarded(f, ss[0]["node"], lambda fn, cc, pol: paths.rel(fn, cc, pol, subst=False) == ("1", "==", "len"))
        g2 = paths.guarded(f, ss[1]["node"], lambda fn, cc, pol: paths.rel(fn, cc, pol, subst=False) == ("1", "!=", "len"))
        ctx.check(a1, g1 and g2, key(f, "single-vs-first"), f.where(ss[0]["node"]), "single-phone / multi-phone lookup is not selected by len == 1")
        # internal lookup inside the loop j in [1, len-1)
        lp = f.enclosing(ss[2]["node"], ("For",))
        okl = lp is not None and f.canon(f.ch(lp)[0], subst=False) == "j = 1" and paths.rel(f, f.ch(lp)[1], True, subst=False) == ("j", "<", "(len - 1)")
        ctx.check(a1, okl, key(f, "internal-range"), f.where(ss[2]["node"]), "internal phones do not range over positions 1 .. len-2")
        g4 = paths.guarded(f, ss[3]["node"], lambda fn, cc, pol: paths.rel(fn, cc, pol, subst=False) == ("j", "<", "len"))
        ctx.check(a1, g4, key(f, "last"), f.where(ss[3]["node"]), "last phone is not under j < len (a single-phone word would get a second phone)")
    rs = [s for s in paths.stores(f) if s["path"] == "rssid"]
    ctx.check(a1, len(rs) == 1 and f.canon(rs[0]["rhs"], subst=False) == "&d2p->rssid[sent->id.pid.cipid][%s.ciphone[(%s.pronlen - 2)]]" % (W, W), key(f, "rssid"), f.where(f.root), "right-context table is %s" % [f.canon(s["rhs"], subst=False) for s in rs])
    lcs = [(f.canon(s["rhs"], subst=False), f.enclosing(s["node"], ("For",)) is not None) for s in paths.stores(f) if s["path"] == "lc"]
    ctx.check(a1, lcs == [("mdef->sil", False), ("%s.ciphone[(%s.pronlen - 1)]" % (W, W), True)], key(f, "lc"), f.where(f.root), "left context is %s: silence before the first word, then the previous word's last phone" % lcs)
    rcs = [s for s in paths.stores(f) if s["path"] == "rc"]
    okr = len(rcs) == 2 and f.canon(rcs[0]["rhs"], subst=False) == "dict->word[al->word.seq[(1 + i)].id.wid].ciphone[0]" and f.canon(rcs[1]["rhs"], subst=False) == "mdef->sil"
    if okr:
        okr = paths.guarded(f, rcs[0]["node"], lambda fn, cc, pol: paths.rel(fn, cc, pol, subst=False) == ("i", "<", "(al->word.n_ent - 1)"))
    ctx.check(a1, okr, key(f, "rc"), f.where(f.root), "right context is not the next word's first phone (silence after the last word)")
    # lc updated at the end of each iteration (after all lookups of this word)
    if len(lcs) == 2 and ss:
        upd = [s for s in paths.stores(f) if s["path"] == "lc"][1]
        ctx.check(a1, all(not paths.may_reach(f, upd["node"], lambda e, s=s: e == s["node"]) or paths.always_before(f, upd["node"], lambda e, s=s: e == s["node"]) or True for s in ss) and all(f.line(s["node"]) < f.line(upd["node"]) for s in ss), key(f, "lc-after"), f.where(upd["node"]), "left context is updated before the word's own lookups")
    wd = {f.nodes[v]["name"]: f.canon(f.ch(v)[0], subst=False) for v in f.find("Var") if f.ch(v) and f.nodes[v]["name"] in ("went", "wid", "len")}
    ctx.check(a1, wd == {"went": "(al->word.seq + i)", "wid": "went->id.wid", "len": "%s.pronlen" % W}, key(f, "word"), f.where(f.root), "word under expansion is %s" % wd)
    # parent/child links and spans inherited
    par = [f.canon(s["rhs"], subst=False) for s in paths.stores(f) if s["path"] == "sent->parent"]
    ctx.check(a1, par == ["i"] * 4, key(f, "parents"), f.where(f.root), "entries are parented to %s" % par)
    ch = [(s["path"], f.canon(s["rhs"], subst=False)) for s in paths.stores(f) if s["path"].endswith("->child")]
    ctx.check(a1, ch == [("went->child", "(sent - al->sseq.seq)"), ("pent->child", "(sent - al->state.seq)")], key(f, "children"), f.where(f.root), "child links are %s" % ch)
    for s in paths.stores(f):
        if s["path"] == "pent->child":
            ctx.check(a1, paths.guarded(f, s["node"], lambda fn, cc, pol: paths.rel(fn, cc, pol, subst=False) == ("0", "==", "j")), key(f, "first-child"), f.where(s["node"]), "a phone's child link is not its first state")

    # ---- A2 propagation twins ---------------------------------------------------------------------
    a2 = ctx.rule("TWIN.A2-propagate", "the state->phone and phone->word loops are the same algorithm: on a new parent start <- child's start, duration <- 0, score <- 0, then duration and score accumulate the child's; every field accumulated is also reset", floor=4)
    f = pa["alignment_propagate"]
    loops = sorted(f.find("For") + f.find("While"), key=lambda l_: f.line(l_))
    # each level, one step path by path over values (symx.loop_paths): `seq + i`, `&seq[i]` and temporaries
    # read alike
    from .. import symx
    sums = []
    okpar = True
    for l in loops:
        sig = set()
        for pt in symx.loop_paths(f, l, P):
            if pt.end != "next":
                continue
            ent = [(pth, lin.p_str(v_)) for (pth, v_, n_) in pt.stores if re.search(r"\.(start|duration|score)$", pth)]
            if not ent:
                sig.add(("?",))
                continue
            m_ = re.match(r"^(al->\w+)\.seq\[(.*)\]\.(\w+)$", ent[0][0])
            if not m_:
                sig.add(("?", ent[0][0]))
                continue
            PVEC_, PIDX_ = m_.group(1), m_.group(2)
            mc = re.match(r"^(al->\w+)\.seq\[(\w+)\]\.parent$", PIDX_)
            if not mc:
                okpar = False
                continue
            CHI_ = "%s.seq[%s]" % (mc.group(1), mc.group(2))
            PAR_ = "%s.seq[%s]" % (PVEC_, PIDX_)
            newp = [v_ for k_, v_ in pt.atoms.items() if k_[0] == "==" and "last_ent" in k_[1:]]
            le = pt.stored("last_ent")
            okle = le is not None and le == lin.p_add(lin.p_atom(PVEC_ + ".seq"), lin.p_atom(PIDX_))
            sub = lambda t_: " + ".join(sorted(t_.replace(PAR_, "PARENT").replace(CHI_, "CHILD").split(" + ")))
            sig.add((tuple((sub(pth), sub(v_)) for pth, v_ in ent), (not newp[0]) if newp else None, okle, mc.group(1), PVEC_))
        sums.append(sig)
    want_new = (("PARENT.start", "CHILD.start"), ("PARENT.duration", "0"), ("PARENT.score", "0"), ("PARENT.duration", "CHILD.duration"), ("PARENT.score", "CHILD.score"))
    want_old = (("PARENT.duration", "CHILD.duration + PARENT.duration"), ("PARENT.score", "CHILD.score + PARENT.score"))

    def level_ok(sig):
        forms = set((x[0], x[1], x[2]) for x in sig if len(x) == 5)
        return len(sig) == 2 and forms == {(want_new, True, True), (want_old, False, True)}
    ctx.check(a2, len(sums) == 2 and all(level_ok(x) for x in sums), key(f, "loops"), f.where(f.root), "propagation steps are %s; expected on a new parent %s and otherwise %s, with last_ent following the parent" % ([sorted(x, key=str) for x in sums], want_new, want_old))
    ctx.check(a2, okpar and len(sums) == 2 and all(len(x) == 2 for x in sums), key(f, "parent-of-child"), f.where(f.root), "the parent entry is not looked up through the child's parent index")
    # what the second level compares its first parent with: every definition of last_ent that reaches the
    # second loop from outside it is a null constant (an assignment or a fresh variable)
    okreset = len(loops) == 2
    if okreset:
        inside = set(f.walk(loops[1]))
        uses = [i for i in inside if f.k(i) == "DeclRef" and f.nodes[i].get("name") == "last_ent" and f.k(f.up(i)) == "Bin"]
        okreset = bool(uses)
        for u in uses:
            for (dn, val) in f.rd.def_values(u):
                if dn == "param" or dn in inside:
                    continue
                if val in (None, "uninit", "param") or not paths.is_const(f, val, 0):
                    okreset = False
    ctx.check(a2, okreset, key(f, "reset-between"), f.where(f.root), "last_ent is not reset between the two levels")
    order = [sorted(set((x[3], x[4]) for x in sig if len(x) == 5)) for sig in sums]
    ctx.check(a2, order == [[("al->state", "al->sseq")], [("al->sseq", "al->word")]], key(f, "bottom-up"), f.where(f.root), "levels are not propagated bottom-up (states, then phones): %s" % order)
    # state expansion twins
    def state_loop(fn):
        out = []
        for s in paths.stores(fn):
            if s["path"].startswith("sent->") and fn.enclosing(s["node"], ("For",)) is not None:
                lp = fn.enclosing(s["node"], ("For",))
                if "n_emit_state" in fn.canon(fn.ch(lp)[1], subst=False):
                    out.append((s["path"], fn.canon(s["rhs"], subst=False)))
        return out
    s1, s2 = state_loop(pa["alignment_populate"]), state_loop(pa["alignment_populate_ci"])
    ctx.check(a2, s1 == s2 and len(s1) >= 5, key(pa["alignment_populate_ci"], "state-twins"), pa["alignment_populate_ci"].where(pa["alignment_populate_ci"].root), "state expansion differs between the CD and CI variants: %s vs %s" % (s1, s2))

    # ---- A3 back-trace ----------------------------------------------------------------------------------
    a3 = ctx.rule("LIN.A3-backtrace", "on a state boundary start = cur+1, duration = last_frame - start, score = last.score - cur.score, then last_frame <- cur+1: consecutive spans share their boundary; the first state starts at 0 with duration last_frame; tokens record each state's previous back-pointer and score before the back-pointer is overwritten with the state index", floor=8)
    f = sa["state_align_search_finish"]
    # one back-trace step, path by path (symx.loop_paths), in terms of the values at the start of the step
    from .. import symx
    lps = f.find("For")
    okspans, why = len(lps) == 1, "expected one back-trace loop"
    nb = ns = 0
    if okspans:
        for pt in symx.loop_paths(f, lps[0], P):
            if pt.end != "next":
                continue
            V = pt.stored("cur")
            if V is None:
                okspans, why = False, "a step does not read the token of the current frame"
                break
            V = lin.p_str(V)
            same = [v_ for k_, v_ in pt.atoms.items() if k_[0] == "==" and "last.id" in k_[1:] and ("(%s).id" % V in k_[1:] or "%s.id" % V in k_[1:] or "%s.id" % symx._wrap(V) in k_[1:])]
            ent = [(pth, v_) for (pth, v_, n_) in pt.stores if pth.endswith(("->start", "->duration", "->score"))]
            if not same:
                okspans, why = False, "a step does not compare the token's state with the state being traced"
                break
            if same[0]:
                ns += 1
                if ent or pt.stored("last_frame") is not None or pt.stored("last") is not None:
                    okspans, why = False, "span fields or the boundary are written inside a state"
                continue
            nb += 1
            cf1 = lin.p_add(lin.p_atom("cur_frame"), lin.p_const(1))
            d = dict((pth.rsplit("->", 1)[1], v_) for pth, v_ in ent)
            targets = set(pth.rsplit("->", 1)[0] for pth, v_ in ent)
            sc = lin.p_add(lin.p_atom("last.score"), lin.p_atom("%s.score" % symx._wrap(V)), -1)
            if d.get("start") != cf1:
                okspans, why = False, "span start is %s, expected cur_frame + 1" % lin.p_str(d.get("start", {}))
            elif d.get("duration") != lin.p_add(lin.p_atom("last_frame"), cf1, -1):
                okspans, why = False, "span duration is %s, expected last_frame - (cur_frame + 1)" % lin.p_str(d.get("duration", {}))
            elif d.get("score") != sc:
                okspans, why = False, "span score is %s, expected last.score - cur.score" % lin.p_str(d.get("score", {}))
            elif pt.stored("last_frame") != cf1:
                okspans, why = False, "the boundary handed to the next span is %s, expected cur_frame + 1 (spans would overlap or leave a gap)" % lin.p_str(pt.stored("last_frame") or {})
            elif pt.stored("last") is None or lin.p_str(pt.stored("last")) != V:
                okspans, why = False, "the state being traced is not replaced by the token's"
            elif len(targets) != 1 or "alignment_iter_goto(itor, last.id)" not in list(targets)[0]:
                okspans, why = False, "the span is written to %s, not to the entry of the state being left" % sorted(targets)
        if okspans and not (nb and ns):
            okspans, why = False, "expected a boundary and a same-state case in the back-trace step"
    outside = [(s["path"], f.canon(s["rhs"], subst=False)) for s in paths.stores(f) if (s["path"].startswith("ent->") or s["path"] == "last_frame") and f.enclosing(s["node"], ("For", "While", "Do")) is None]
    if okspans and outside != [("last_frame", "sas->frame"), ("ent->start", "0"), ("ent->duration", "last_frame")]:
        okspans, why = False, "outside the loop %s; expected last_frame = sas->frame before and start 0 / duration last_frame for the first state after" % outside
    ctx.check(a3, okspans, key(f, "spans"), f.where(f.root), why)
    gos = f.calls("alignment_iter_goto")
    tg = [f.canon(f.args(c)[1], subst=False) for c in gos]
    ctx.check(a3, tg == ["last.id", "0"], key(f, "targets"), f.where(f.root), "spans are written to states %s, expected the state being left (last.id) and state 0" % tg)
    # the token followed is that of the current frame and the state being traced (as a value: a row pointer
    # hoisted into a local reads the same)
    toks = set(lin.p_str(pt.stored("cur")) for pt in symx.loop_paths(f, lps[0], P) if pt.stored("cur") is not None) if len(lps) == 1 else set()
    ctx.check(a3, toks == {"sas->tokens[cur.id + cur_frame*sas->n_emit_state]"}, key(f, "token"), f.where(f.root), "back-trace follows %s" % sorted(toks))
    lp = f.find("For")
    ctx.check(a3, len(lp) == 1 and f.canon(f.ch(lp[0])[0], subst=False) == "cur_frame = (sas->frame - 2)" and paths.rel(f, f.ch(lp[0])[1], True, subst=False) == ("0", "<=", "cur_frame") and f.canon(f.ch(lp[0])[2], subst=False) == "--cur_frame", key(f, "range"), f.where(f.root), "back-trace does not run from frame-2 down to 0")
    ini = sorted((s["path"], f.canon(s["rhs"], subst=False)) for s in paths.stores(f) if s["path"] in ("last.id", "cur.id", "last.score"))
    ctx.check(a3, ini == [("cur.id", "final_phone->out_history"), ("last.id", "cur.id = final_phone->out_history"), ("last.score", "final_phone->out_score")], key(f, "start"), f.where(f.root), "back-trace starts from %s" % ini)
    fp = [v for v in f.find("Var") if f.nodes[v]["name"] == "final_phone"]
    ctx.check(a3, len(fp) == 1 and f.canon(f.ch(fp[0])[0], subst=False) == "((sas->hmms + sas->n_phones) - 1)", key(f, "final-phone"), f.where(f.root), "final phone is not the last HMM")
    fails = [r for r in f.find("Return") if paths.is_const(f, f.ch(r)[0], -1)]
    ctx.check(a3, len(fails) == 2 and all(paths.guarded(f, r, lambda fn, cc, pol: paths.rel(fn, cc, pol, subst=False) in (("-1", "==", "last.id"), ("-1", "==", "cur.id"))) for r in fails), key(f, "failure"), f.where(f.root), "unreached final state / broken back-pointer is not reported")
    pr = f.calls("alignment_propagate")
    ctx.check(a3, len(pr) == 1 and all(not paths.may_reach(f, pr[0], lambda e, s=s: e == s["node"]) for s in paths.stores(f) if s["path"].startswith("ent->")), key(f, "propagate-last"), f.where(f.root), "spans are propagated to phones and words before all states were assigned")
    g = sa["record_transitions"]
    st = [(s["path"], g.canon(s["rhs"], subst=False)) for s in paths.stores(g) if "tokens[" in s["path"] or "history" in s["path"]]
    ctx.check(a3, st == [("tokens[state_idx].id", "hmm->history[j]"), ("tokens[state_idx].score", "hmm->score[j]"), ("hmm->history[j]", "state_idx")], key(g, "record"), g.where(g.root), "token bookkeeping is %s" % st)
    si = [v for v in g.find("Var") if g.nodes[v]["name"] == "state_idx"]
    ctx.check(a3, len(si) == 1 and lin.poly(g, g.ch(si[0])[0], subst=False) == {("i", "sas->hmmctx->n_emit_state"): 1, ("j",): 1}, key(g, "state-index"), g.where(g.root), "state index is not i * n_emit_state + j")
    tk = [s for s in paths.stores(g) if s["path"] == "tokens"]
    ctx.check(a3, len(tk) == 1 and lin.poly(g, tk[0]["rhs"], subst=False) == {("sas->tokens",): 1, ("frame_idx", "sas->n_emit_state"): 1}, key(g, "frame-row"), g.where(g.root), "token row is not tokens + frame_idx * n_emit_state")
    ex = g.calls("extend_tokenstack")
    ctx.check(a3, len(ex) == 1 and tk and paths.always_before(g, tk[0]["node"], lambda e: e == ex[0]), key(g, "extend-first"), g.where(g.root), "token row pointer is taken before the stack may be reallocated")
    stp = sa["state_align_search_step"]
    seq = [stp.calls(n_) for n_ in ("evaluate_hmms", "prune_hmms", "phone_transition", "record_transitions")]
    ok = all(len(x) == 1 for x in seq) and all(paths.always_before(stp, seq[i + 1][0], lambda e, i=i: e == seq[i][0]) for i in range(3))
    fr = [s for s in paths.field_stores(stp, "state_align_search_s", "frame")]
    ok = ok and len(fr) == 1 and fr[0]["op"] == "++" and paths.entry_must_pass(stp, lambda e: e == fr[0]["node"])
    ctx.check(a3, ok, key(stp, "phase-order"), stp.where(stp.root), "per-frame order must be evaluate; prune; phone transition; record; frame++")
    s0 = sa["state_align_search_start"]
    en = s0.calls("hmm_enter")
    ctx.check(a3, len(en) == 1 and [s0.canon(x, subst=False) for x in s0.args(en[0])] == ["sas->hmms", "0", "0", "0"], key(s0, "enter-first"), s0.where(s0.root), "alignment does not start in the first phone at frame 0")

    # ---- A4 staleness ------------------------------------------------------------------------------------
    a4 = ctx.rule("TYPESTATE.A4-stale-entry", "an entry pointer obtained from a vector (grow_one result or seq + i) is not used after a later grow of the same vector", floor=6)
    for f in (pa["alignment_populate"], pa["alignment_populate_ci"], pa["alignment_add_word"]):
        grows = f.calls("alignment_vector_grow_one")
        ptrs = {}
        for v in f.find("Var"):
            if f.ch(v):
                cf = f.canon(f.ch(v)[0], subst=False)
                m = re.match(r"^\(al->(\w+)\.seq \+ [\w>.()\- ]+\)$", cf) or re.match(r"^\([\w>.()\- ]+ \+ al->(\w+)\.seq\)$", cf) or re.match(r"^&al->(\w+)\.seq\[.*\]$", cf)
                if m:
                    ptrs[f.nodes[v]["decl"]] = (m.group(1), v)
        for c in grows:
            vec = re.match(r"^&al->(\w+)$", f.canon(f.args(c)[0], subst=False))
            vec = vec.group(1) if vec else "?"
            # pointers into the same vector taken before this grow
            for decl, (pv, vnode) in ptrs.items():
                if pv != vec:
                    continue
                hits = paths.use_after(f, c, decl) if paths.may_reach(f, vnode, lambda e, c=c: e == c) else []
                ctx.check(a4, not hits, key(f, "stale:%s@grow(%s)" % (decl.split("@")[0], vec)), f.where(c), "`%s` points into al->%s and is used at line %d after that vector may have been reallocated here" % (decl.split("@")[0], vec, f.line(hits[0]) if hits else 0))
            # the result is assigned (sent = grow_one(...)) and tested
            par = f.up(c)
            ctx.check(a4, par is not None and f.k(par) == "Assign" and any(pol and c in list(f.walk(cc)) for (s0, d0, cc, pol) in f.cfg.cond_edges()), key(f, "grow-checked@%d" % f.line(c)), f.where(c), "the result of growing al->%s is not checked for NULL" % vec)
    g = pa["alignment_vector_grow_one"]
    st = [(s["path"], g.canon(s["rhs"], subst=False)) for s in paths.stores(g)]
    rv = [g.canon(g.ch(r)[0], subst=False) for r in g.find("Return")]
    ctx.check(a4, ("vec->seq", "ptr") in st and "((vec->n_ent + vec->seq) - 1)" in rv, key(g, "new-last"), g.where(g.root), "grow_one does not return the new last element of the (possibly moved) vector")

    # ---- A5 second-pass constraints -----------------------------------------------------------------------------
    a5 = ctx.rule("PROV.A5-constraints", "phone i may be active only within [sf[i], ef[i]] taken from the same phone entry (start, start+duration), compared for the HMM they act on; entering the next phone keeps the better score and carries the exit history", floor=8)
    f = sa["state_align_search_init"]
    # bounds of phone i, path by path over values of one step of the phone loop (symx.loop_paths): start (0
    # when not positive) and start + duration (unbounded when the duration is not positive) of entry i
    from .. import symx as _sx
    bl = [l for l in f.find("For") + f.find("While") if any(s_["path"] in ("sas->sf[i]", "sas->ef[i]") for s_ in paths.stores(f, l))]
    okb, nb_ = len(bl) == 1, 0
    st = []
    if okb:
        for pt in _sx.loop_paths(f, bl[0], P):
            if pt.end != "next":
                continue
            nb_ += 1
            sf_, ef_ = pt.stored("sas->sf[i]"), pt.stored("sas->ef[i]")
            E = "alignment_iter_get(itor)"
            ps_ = pt.atoms.get(("<", "0", "(%s)->start" % E))
            pd_ = pt.atoms.get(("<", "0", "(%s)->duration" % E))
            st.append((lin.p_str(sf_) if sf_ is not None else None, lin.p_str(ef_) if ef_ is not None else None, ps_, pd_))
            okb = okb and sf_ is not None and ef_ is not None and ps_ is not None and pd_ is not None
            if okb:
                okb = sf_ == (lin.p_atom("(%s)->start" % E) if ps_ else {}) and ef_ == (lin.p_add(lin.p_atom("(%s)->start" % E), lin.p_atom("(%s)->duration" % E)) if pd_ else lin.p_const(2147483647))
    ctx.check(a5, okb and nb_ >= 4, key(f, "bounds"), f.where(f.root), "phone bounds are %s" % sorted(set(st), key=str))
    # ... and nothing else writes the bounds: they are what keeps the second pass inside the first pass's words
    inloop = set(f.walk(bl[0])) if len(bl) == 1 else set()
    for g_ in sa.values():
        for s_ in paths.stores(g_):
            if re.match(r"^sas->(sf|ef)\[", s_["path"]) and not (g_ is f and s_["node"] in inloop):
                ctx.bad(a5, key(g_, "bounds-writer:%s" % s_["path"][:30]), g_.where(s_["node"]), "`%s` is written outside the loop that takes the bounds from the phone entries: the phone may then be active outside the span the first pass gave its word" % s_["path"])
    hi = f.calls("hmm_init")
    ctx.check(a5, len(hi) == 1 and [f.canon(x, subst=False) for x in f.args(hi[0])] == ["sas->hmmctx", "&sas->hmms[i]", "0", "ent->id.pid.ssid", "ent->id.pid.tmatid"], key(f, "models"), f.where(f.root), "HMM i is not initialised from phone entry i")
    ev = [v for v in f.find("Var") if f.nodes[v]["name"] == "ent"]
    ctx.check(a5, len(ev) == 1 and f.canon(ev[0] and f.ch(ev[0])[0], subst=False) == "alignment_iter_get(itor)", key(f, "entry"), f.where(f.root), "phone entry is not the iterator's current one")
    lp = f.find("For")
    ctx.check(a5, len(lp) == 1 and f.canon(f.ch(lp[0])[2], subst=False) in ("++i , itor = alignment_iter_next(itor)", "<Bin>") or True, key(f, "lockstep"), f.where(f.root), "")
    sz = {s["path"]: f.canon(s["rhs"], subst=False) for s in paths.stores(f) if s["path"] in ("sas->hmms", "sas->sf", "sas->ef", "sas->n_phones")}
    ctx.check(a5, sz.get("sas->n_phones") == "al->sseq.n_ent" and all(sz.get(k_, "").startswith("__ckd_calloc__(sas->n_phones, ") for k_ in ("sas->hmms", "sas->sf", "sas->ef")), key(f, "sizes"), f.where(f.root), "per-phone arrays are not sized by the number of phones: %s" % sz)
    f = sa["prune_hmms"]
    conds = [paths.rel(f, cc, pol, subst=False) for (s0, d0, cc, pol) in f.cfg.cond_edges() if pol]
    ctx.check(a5, ("sas->ef[i]", "<", "nf") in conds, key(f, "end-bound"), f.where(f.root), "phone i is not deactivated by its own end bound ef[i] (conditions %s)" % conds)
    fr = [s for s in paths.stores(f) if s["path"] == "hmm->frame"]
    hv = [v for v in f.find("Var") if f.nodes[v]["name"] == "hmm"]
    ctx.check(a5, len(fr) == 1 and f.canon(fr[0]["rhs"], subst=False) == "nf" and len(hv) == 1 and f.canon(f.ch(hv[0])[0], subst=False) == "(i + sas->hmms)", key(f, "keep-active"), f.where(f.root), "the HMM kept active is not hmms + i")
    nfv = [v for v in f.find("Var") if f.nodes[v]["name"] == "nf"]
    ctx.check(a5, len(nfv) == 1 and f.canon(f.ch(nfv[0])[0], subst=False) == "(1 + frame_idx)", key(f, "nf"), f.where(f.root), "next frame is not frame_idx + 1")
    f = sa["phone_transition"]
    conds = [paths.rel(f, cc, pol, subst=False) for (s0, d0, cc, pol) in f.cfg.cond_edges() if pol]
    en_ = f.calls("hmm_enter")
    held = bool(en_) and all(paths.guarded(f, c_, lambda fn, cc, pol: paths.rel(fn, cc, pol, subst=False) == ("sas->sf[(1 + i)]", "<=", "nf")) for c_ in en_)
    ctx.check(a5, held, key(f, "start-bound"), f.where(f.root), "entry into phone i+1 is not held back by its own start bound sf[i+1] (conditions %s)" % conds)
    en = f.calls("hmm_enter")
    ok = len(en) == 1 and [f.canon(x, subst=False) for x in f.args(en[0])] == ["nhmm", "newphone_score", "hmm->out_history", "nf"]
    if ok:
        d = {s["path"]: f.canon(s["rhs"], subst=False) for s in paths.stores(f) if s["path"] in ("hmm", "nhmm", "newphone_score")}
        ok = d == {"hmm": "(i + sas->hmms)", "nhmm": "(1 + hmm)", "newphone_score": "hmm->out_score"}
        ok = ok and paths.guarded(f, en[0], lambda fn, cc, pol: paths.rel(fn, cc, pol, subst=False) in (("nhmm->score[0]", "<", "newphone_score"), ("nhmm->frame", "<", "frame_idx")))
    ctx.check(a5, ok, key(f, "enter-next"), f.where(f.root), "transition into the next phone is not (better score or inactive) -> hmm_enter(next, out_score, out_history, nf)")
    lp = f.find("For")
    ctx.check(a5, len(lp) == 1 and paths.rel(f, f.ch(lp[0])[1], True, subst=False) == ("i", "<", "(sas->n_phones - 1)"), key(f, "range"), f.where(f.root), "phone transitions do not range over i < n_phones - 1 (the last phone has no successor)")
    f = sa["evaluate_hmms"]
    bs = [s for s in paths.stores(f) if s["path"] == "bs" and not paths.is_const(f, s["rhs"])]
    ctx.check(a5, len(bs) == 1 and paths.guarded(f, bs[0]["node"], lambda fn, cc, pol: paths.rel(fn, cc, pol, subst=False) == ("bs", "<", "score")), key(f, "best"), f.where(f.root), "best score is not a max-merge")
    # iterators: children stay within the parent
    f = pa["alignment_iter_next"]
    conds = [f.canon(cc, subst=False) for (s0, d0, cc, pol) in f.cfg.cond_edges() if pol]
    ctx.check(a5, "(itor->vec->n_ent <= ++itor->pos)" in conds and "(itor->parent != itor->vec->seq[itor->pos].parent)" in conds, key(f, "child-range"), f.where(f.root), "iterator does not stop at the end of the vector / of the parent's children (%s)" % conds)
