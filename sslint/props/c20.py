"""C20 — the hash table behaves as a map.

Decides the bookkeeping and link-surgery clauses of the chained table
(DESIGN.md §4 C20).  Not decided: map semantics over operation histories.
"""
import re

from .. import paths
from ..prog import AnalysisIncomplete

FIXTURES = ["hash_fx.c"]
UNIT = "hash_table.c"
ENT = "hash_entry_s"
TAB = "hash_table_s"
FREES = {"ckd_free", "free"}


def key(fn, what):
    return "%s:%s" % (fn.name, what)


def uaf_rule(ctx, rid, fn):
    """no read of a local after it was passed to a releasing call"""
    nviol = 0
    for c in fn.calls(FREES):
        a = fn.args(c)
        d = paths.local_of(fn, a[0])
        if d is None:
            continue
        hits = paths.use_after(fn, c, d)
        name = d.split("@")[0]
        if hits:
            nviol += 1
            ctx.bad(rid, key(fn, "free(%s)" % name), fn.where(c), "`%s` is read at line %d after it was released here" % (name, fn.line(hits[0])))
        else:
            ctx.ok(rid, key(fn, "free(%s)" % name), fn.where(c), "no read of %s after release before redefinition" % name)
    return nviol


def run(ctx):
    P = ctx.P
    fns = {f.name: f for f in P.functions(UNIT) if f.file.endswith(UNIT)}
    for f in fns.values():
        ctx.touch(f)
    for n in ("enter", "delete", "lookup", "key2hash", "keycmp_case", "keycmp_nocase", "hash_table_empty", "hash_table_free",
              "hash_table_tolist", "hash_table_iter_next", "hash_table_new", "makekey"):
        if n not in fns:
            raise AnalysisIncomplete("anchor vanished: %s in %s" % (n, UNIT))
    if ENT not in P.records:
        raise AnalysisIncomplete("anchor vanished: struct %s" % ENT)
    ent_fields = [f[0] for f in P.records[ENT]["fields"]]
    enter, delete, lookup = fns["enter"], fns["delete"], fns["lookup"]

    # ---- R1 inuse pairing ---------------------------------------------------------------
    r1 = ctx.rule("PAIR.inuse", "enter: every path that stores a new key increments inuse exactly once and the existing-key path does not; delete: every path returning the found value decrements exactly once, the not-found returns do not; empty zeroes it", floor=6)
    # enter(), path by path over values (symx.run_paths): what each case stores and how the count moves
    from .. import symx, lin
    found_edge = lambda f, c, pol: pol and "lookup(" in f.canon(c, calls=True)
    notfound_edge = lambda f, c, pol: (not pol) and "lookup(" in f.canon(c, calls=True)
    LK = "lookup(h, hash, key, len)"
    HEAD = "h->table[hash]"
    ebad = {}
    ecases = {"found-replace": 0, "found-keep": 0, "head": 0, "chain": 0}
    for pt in symx.run_paths(enter, P):
        lk = [c_ for c_ in pt.calls if c_[0] == "lookup"]
        if len(lk) != 1 or lk[0][1] != ["h", "hash", "key", "len"] or any(ev_[0] == "store" and ("->" in ev_[1] or "." in ev_[1]) for ev_ in pt.events[:pt.events.index(("call", "lookup", lk[0][1], lk[0][2]))]):
            ebad["lookup-first"] = "enter does not look up (h, hash, key, len) first"
            continue
        found = pt.atoms.get(("nz", LK))
        incs = [ev_ for ev_ in pt.events if ev_[0] == "store" and ev_[1] == "h->inuse"]
        names = {}

        def ren(t):
            return re.sub(r'__ckd_calloc__\(1, \d+, "[^"]*", \d+\)(#\d+)?', lambda m: names.setdefault(m.group(0), "NEW%d" % (len(names) + 1)), t)
        st_ = [(ren(ev_[1]), ren(lin.p_str(ev_[2]))) for ev_ in pt.events if ev_[0] == "store" and ("->" in ev_[1] or "." in ev_[1]) and ev_[1] != "h->inuse"]
        ret = lin.p_str(pt.ret) if pt.ret is not None else None
        if found is None:
            ebad["always-insert"] = "a path does not depend on whether the key exists"
        elif found:
            rep = pt.atoms.get(("nz", "replace"))
            ecases["found-replace" if rep else "found-keep"] += 1
            if incs:
                ebad["no-inc-when-found"] = "inuse is incremented on the path where the key already exists"
            if rep is None and st_:
                ebad["replace-flag"] = "an existing entry is modified without the replace flag being tested"
            elif rep and sorted(st_) != sorted([("(%s)->key" % LK, "key"), ("(%s)->val" % LK, "val")]):
                ebad["replace-flag"] = "replacing stores %s" % st_
            elif rep is False and st_:
                ebad["replace-flag"] = "an existing entry is modified although replacement was not asked for"
        else:
            empty = pt.atoms.get(("nz", HEAD + ".key"))
            if len(incs) != 1 or incs[0][2] != lin.p_add(lin.p_atom("h->inuse"), lin.p_const(1)):
                ebad["inc-after"] = "a new key is stored on a path that does not increment inuse exactly once"
            if ret != "val":
                ebad["always-insert"] = "an insertion returns %s" % ret
            if empty is None:
                ebad["head-only-if-empty"] = "head slot used without the dominating `key == NULL` test"
            elif empty is False:
                ecases["head"] += 1
                d_ = dict(st_)
                if not (d_.get(HEAD + ".key") == "key" and d_.get(HEAD + ".len") == "len" and d_.get(HEAD + ".val") == "val" and d_.get(HEAD + ".next", "0") == "0" and len(st_) <= 4):
                    ebad["head-fields"] = "head-slot insertion stores %s" % st_
            else:
                ecases["chain"] += 1
                d_ = dict(st_)
                order = [x[0] for x in st_]
                if not (d_.get("(NEW1)->key") == "key" and d_.get("(NEW1)->len") == "len" and d_.get("(NEW1)->val") == "val" and d_.get("(NEW1)->next") == HEAD + ".next" and d_.get(HEAD + ".next") == "NEW1"):
                    ebad["chain-fields"] = "chain insertion stores %s" % st_
                elif order.index("(NEW1)->next") > order.index(HEAD + ".next"):
                    ebad["link-order"] = "chain head is redirected to the new node before the new node took over the old chain (entries are lost)"
    if not all(ecases.values()):
        ebad.setdefault("always-insert", "expected replace / keep / head-slot / chain cases in enter (%s)" % ecases)
    for k_ in ("no-inc-when-found", "inc-after", "always-insert"):
        ctx.check(r1, k_ not in ebad, key(enter, k_), enter.where(enter.root), ebad.get(k_, ""))
    dec = paths.field_stores(delete, TAB, "inuse")
    ok = len(dec) == 1 and dec[0]["op"] == "--"
    ctx.check(r1, ok, key(delete, "one-dec"), delete.where(delete.root), "delete() must contain exactly one --inuse (found %s)" % [s["op"] for s in dec])
    if ok:
        decn = dec[0]["node"]
        for r in delete.find("Return"):
            rv = delete.canon(delete.ch(r)[0]) if delete.ch(r) else ""
            if rv == "0":
                ctx.check(r1, not paths.may_reach(delete, decn, lambda e, r=r: e == r), key(delete, "notfound-return"), delete.where(r), "inuse is decremented on a path that reports the key as absent")
            else:
                ctx.check(r1, paths.always_before(delete, r, lambda e: e == decn) and not paths.may_reach(delete, decn, lambda e: e == decn), key(delete, "found-return"), delete.where(r), "a path returns the deleted value without decrementing inuse exactly once")
    emp = fns["hash_table_empty"]
    z = [s for s in paths.field_stores(emp, TAB, "inuse") if s["rhs"] is not None and paths.is_const(emp, s["rhs"], 0)]
    ctx.check(r1, len(z) == 1 and paths.entry_must_pass(emp, lambda e: e == z[0]["node"]), key(emp, "zero"), emp.where(emp.root), "hash_table_empty does not reset inuse to 0 on every path")
    # no other writer of inuse
    for f in fns.values():
        if f.name in ("enter", "delete", "hash_table_empty"):
            continue
        for s in paths.field_stores(f, TAB, "inuse"):
            ctx.bad(r1, key(f, "inuse-writer"), f.where(s["node"]), "unexpected writer of inuse")

    # ---- R2 head copy completeness ----------------------------------------------------------
    r2 = ctx.rule("TABLE.headcopy", "delete: when the head slot is refilled from its successor every field of hash_entry_t is copied (or the struct assigned whole) before the successor is released", floor=1)
    frees = delete.calls(FREES)
    head_frees = [c for c in frees if paths.guarded(delete, c, lambda f, cc, pol: paths.cond_atoms(f, cc, pol) == ("prev", False))]
    ctx.check(r2, len(head_frees) == 1, key(delete, "head-free"), delete.where(delete.root), "expected one release under `prev == NULL` (found %d)" % len(head_frees))
    for c in head_frees:
        victim = delete.canon(delete.args(c)[0], subst=False)
        b, idx = paths.pos_of(delete, c)
        copied = set()
        whole = False
        for s in paths.stores(delete):
            sb, si = paths.pos_of(delete, s["node"])
            if sb == b and si < idx and s["rhs"] is not None:
                rhs = delete.canon(s["rhs"], subst=False)
                if s["rec"] == ENT and rhs == "%s->%s" % (victim, s["field"]):
                    copied.add(s["field"])
                if s["path"].startswith("*") and rhs == "*" + victim:
                    whole = True
        missing = [f for f in ent_fields if f not in copied]
        ctx.check(r2, whole or not missing, key(delete, "copy-fields"), delete.where(c), "head slot refilled from its successor without copying field(s) %s before the successor is released" % missing, "copied %s" % sorted(copied))

    # ---- R3 release discipline ----------------------------------------------------------------
    r3 = ctx.rule("TYPESTATE.release", "a chain node is never read after it was released; in delete every release is preceded in its block by the bypass `P->next = node->next`", floor=5)
    for f in fns.values():
        uaf_rule(ctx, r3, f)
    for c in frees:
        victim = delete.canon(delete.args(c)[0], subst=False)
        b, idx = paths.pos_of(delete, c)
        byp = [s for s in paths.stores(delete) if s["rec"] == ENT and s["field"] == "next" and s["rhs"] is not None
               and delete.canon(s["rhs"], subst=False) == victim + "->next" and not s["path"].startswith(victim + "->")
               and paths.pos_of(delete, s["node"])[0] == b and paths.pos_of(delete, s["node"])[1] < idx]
        ctx.check(r3, len(byp) == 1, key(delete, "bypass-before-free(%s)" % victim), delete.where(c), "node `%s` is released without first being unlinked (`P->next = %s->next`) in the same block" % (victim, victim))
    # the value returned was read before the node was released
    vs = [s for s in paths.stores(delete) if s["kind"] == "DeclRef" and s["rhs"] is not None and delete.canon(s["rhs"], subst=False).endswith("->val")]
    ctx.check(r3, len(vs) == 1 and all(not paths.may_reach(delete, c, lambda e: e == vs[0]["node"]) for c in frees), key(delete, "val-before-free"), delete.where(delete.root), "the deleted value is not saved before the node is released")

    # ---- R4 head-empty invariant ----------------------------------------------------------------
    r4 = ctx.rule("GUARD.head-null", "a head slot's key is set to NULL only where its chain is known empty (delete: under `entry->next == NULL`; empty: after the chain was released); lookup/delete rely on key == NULL meaning an empty bucket", floor=2)
    for f in fns.values():
        for s in paths.stores(f):
            if s["rec"] == ENT and s["field"] == "key" and s["rhs"] is not None and paths.is_const(f, s["rhs"], 0):
                base = s["path"][:-len("->key")]
                g = paths.guarded(f, s["node"], lambda fn, c, pol, base=base: paths.cond_atoms(fn, c, pol) in ((base + "->next", False), (fn.canon(fn.strip(s["lhs"]) and fn.nodes[fn.strip(s["lhs"])]["ch"][0]) + "->next", False)))
                ctx.check(r4, g, key(f, "key=NULL"), f.where(s["node"]), "head key is cleared (`%s = NULL`) without a dominating test that the chain `%s->next` is empty: the chained entries become unreachable" % (s["path"], base))
    for f in (emp,):
        ms = f.calls("memset")
        chain = [s for s in paths.stores(f) if s["kind"] == "DeclRef" and s["rhs"] is not None and re.match(r"^h->table\[\w+\]\.next$", f.canon(s["rhs"], subst=False))]
        okm = len(ms) == 1 and len(chain) == 1 and paths.always_before(f, ms[0], lambda e: e == chain[0]["node"])
        # the chain loop must run to the end (its exit edge is `e == NULL`) before the memset
        ctx.check(r4, okm, key(f, "memset-after-chain"), f.where(ms[0]) if ms else f.where(f.root), "hash_table_empty clears a head slot before releasing its chain")

    # ---- R5 traversals ---------------------------------------------------------------------------
    r5 = ctx.rule("TWIN.traversal", "every traversal visits the head slot iff its key is non-NULL and then follows the `next` chain to its end; the iterator advances idx exactly once per head it hands out and bounds-checks before reading the table", floor=8)
    tl = fns["hash_table_tolist"]
    # one bucket of hash_table_tolist, path by path over values (symx.loop_paths): the head is exported iff
    # its key is set, then every chain element up to the NULL end, each counted once
    from .. import symx
    tloops = [l for l in tl.find("For") + tl.find("While")]
    touter = [l for l in tloops if not any(l in set(tl.walk(o)) and o != l for o in tloops)]
    bad5 = {}
    nvis = 0
    if len(touter) != 1:
        bad5["two-visits"] = "expected one loop over the buckets"
    else:
        for pt in symx.loop_paths(tl, touter[0], P):
            if pt.end != "next":
                continue
            hk = [ev_ for ev_ in pt.events if ev_[0] == "branch" and ev_[1][0] == "nz" and re.match(r"^h->table\[\w+\]\.key$", symx.plain(ev_[1][1]))]
            adds_ = [(i_, ev_) for i_, ev_ in enumerate(pt.events) if ev_[0] == "call" and ev_[1] == "glist_add_ptr"]
            if not hk:
                bad5["visit-guard"] = "a bucket is exported without testing its head key"
                continue
            if not hk[0][2]:
                if adds_:
                    bad5["visit-guard"] = "an empty bucket (key == NULL) is exported"
                continue
            nvis += len(adds_)
            if not adds_ or not re.match(r"^(&h->table\[\w+\]|h->table \+ \w+)$", adds_[0][1][2][1]) or pt.events.index(hk[0]) > adds_[0][0]:
                bad5["two-visits"] = "a bucket with a key does not export its head slot first"
                continue
            for n_, (i_, ev_) in enumerate(adds_):
                E = ev_[2][1]
                if n_ > 0 and not any(x[0] == "branch" and x[1] == ("nz", E) and x[2] for x in pt.events[:i_]):
                    bad5["visit-guard"] = "a chain element is exported without knowing it exists"
                nxt_ = adds_[n_ + 1][0] if n_ + 1 < len(adds_) else len(pt.events)
                incs_ = [x for x in pt.events[i_:nxt_] if x[0] == "store" and x[1] == "j"]
                if len(incs_) != 1:
                    bad5["count"] = "an exported entry is not counted exactly once"
                stepped = [x for x in pt.events[i_:nxt_] if x[0] == "store" and symx.plain(lin.p_str(x[2])) == symx.plain(symx.field_of(E, "next"))]
                if not stepped:
                    bad5["chain-loop"] = "after exporting an entry the walk does not continue with its `next`"
            last = [x for x in pt.events if x[0] == "branch" and x[1][0] == "nz" and ("@L" in x[1][1] or x[1][1].endswith(".next"))]
            if not last or last[-1][2]:
                bad5["chain-loop"] = "a bucket is left before the end of its chain"
    if nvis < 3 and not bad5:
        bad5["two-visits"] = "tolist must visit head and chain entries"
    for k_ in ("two-visits", "visit-guard", "count", "chain-loop"):
        ctx.check(r5, k_ not in bad5, key(tl, k_), tl.where(tl.root), bad5.get(k_, ""))
    # chain loops in all traversals: variable stepping by ->next until NULL
    for name in ("hash_table_display", "hash_table_empty", "hash_table_free"):      # tolist: decided over paths above
        f = fns.get(name)
        if f is None:
            raise AnalysisIncomplete("anchor vanished: %s" % name)
        loops = f.find("For")
        chain_loops = []
        for l in loops:
            init, cond, incr, body = f.ch(l)
            ci = f.canon(init, subst=False) if f.k(init) != "Absent" else ""
            if "->next" in ci or ".next" in ci:
                chain_loops.append(l)
        ctx.check(r5, len(chain_loops) == 1, key(f, "chain-loop"), f.where(f.root), "no loop over the collision chain found")
        for l in chain_loops:
            init, cond, incr, body = f.ch(l)
            v = paths.local_of(f, f.nodes[f.strip(init)]["ch"][0]) if f.k(f.strip(init)) == "Assign" else None
            okc = v is not None and paths.local_of(f, cond) == v
            inc_s = f.canon(incr, subst=False) if f.k(incr) != "Absent" else ""
            vn = v.split("@")[0] if v else "?"
            okstep = inc_s in ("%s = %s->next" % (vn, vn), "%s = e2" % vn)
            if inc_s == "%s = e2" % vn:
                # saved successor: e2 = e->next must be in the body before the release
                sv = [s for s in paths.stores(f, body) if s["path"] == "e2" and s["rhs"] is not None and f.canon(s["rhs"], subst=False) == "%s->next" % vn]
                okstep = len(sv) == 1
            ctx.check(r5, okc and okstep, key(f, "chain-step"), f.where(l), "chain loop does not run `%s` along ->next until NULL (cond `%s`, step `%s`)" % (vn, f.canon(cond, subst=False), inc_s))
        # bucket loop covers [0, size)
        bl = [l for l in loops if l not in chain_loops]
        okb = False
        for l in bl:
            init, cond, incr, body = f.ch(l)
            r = paths.rel(f, cond, True, subst=False)
            if r and r[1] == "<" and r[2] == "h->size" and f.canon(init, subst=False).endswith("= 0"):
                okb = True
        ctx.check(r5, okb, key(f, "bucket-range"), f.where(f.root), "bucket loop does not range over [0, h->size)")
    it = fns["hash_table_iter_next"]
    # skip condition is key == NULL, bounded first
    conds = [(paths.cond_atoms(it, c, pol), s, d) for (s, d, c, pol) in it.cfg.cond_edges()]
    skip = [c for c in conds if c[0] == ("itor->ht->table[itor->idx].key", False)]
    ctx.check(r5, len(skip) == 1, key(it, "skip-empty"), it.where(it.root), "iterator does not skip exactly the buckets whose key is NULL")
    rd = [n for n in paths.field_reads(it, ENT, "key")]
    for n in rd:
        g = paths.guarded(it, n, lambda f, c, pol: paths.rel(f, c, pol, subst=False) == ("itor->idx", "<", "itor->ht->size"))
        ctx.check(r5, g, key(it, "bounds"), it.where(n), "iterator reads table[idx] without the dominating idx < size test")
    ents = [s for s in paths.field_stores(it, "hash_iter_s", "ent")]
    forms = sorted(it.canon(s["rhs"], subst=False) for s in ents)
    ctx.check(r5, forms == ["(itor->ht->table + itor->idx)", "itor->ent->next"] or forms == ["&itor->ht->table[itor->idx]", "itor->ent->next"], key(it, "ent-sources"), it.where(it.root), "iterator entry is taken from %s" % forms)
    for s in ents:
        if "table" in it.canon(s["rhs"], subst=False):
            incs = [t for t in paths.field_stores(it, "hash_iter_s", "idx") if paths.same_block(it, t["node"], s["node"]) and paths.pos_of(it, t["node"])[1] > paths.pos_of(it, s["node"])[1]]
            ctx.check(r5, len(incs) == 1 and incs[0]["op"] == "++", key(it, "advance-after-pick"), it.where(s["node"]), "idx is not advanced exactly once after handing out a head slot (an entry would be repeated or skipped)")
            g = paths.guarded(it, s["node"], lambda f, c, pol: (not pol) and paths.rel(f, c, True, subst=False) in (("itor->ht->size", "==", "itor->idx"), ("itor->idx", "==", "itor->ht->size")))
            ctx.check(r5, g, key(it, "end-test"), it.where(s["node"]), "a head slot is handed out without the dominating idx != size test")

    # ---- R6 comparison discipline -------------------------------------------------------------------
    r6 = ctx.rule("GUARD.len-first", "lookup and delete compare the stored length before the bytes, in both case modes, with the comparator of the table's mode; comparators cover exactly entry->len bytes and fold case on both sides in no-case mode", floor=8)
    for f in (lookup, delete):
        # the bucket walk, path by path over values (symx.run_paths; each loop taken zero or one time):
        # while / for / break, one loop per mode or a comparator chosen once all read the same
        bad6 = {}
        sigs = {True: set(), False: set()}
        ncmp = {"keycmp_nocase": 0, "keycmp_case": 0}
        steps = 0
        for pt in symx.run_paths(f, P):
            mode = None
            sig = []
            for i_, ev_ in enumerate(pt.events):
                if ev_[0] == "branch" and symx.plain(ev_[1]) == ("nz", "h->nocase"):
                    mode = ev_[2]
                    continue
                if ev_[0] == "call" and ev_[1] in ncmp:
                    ncmp[ev_[1]] += 1
                    E = ev_[2][0]
                    before = [x for x in pt.events[:i_] if x[0] == "branch"]
                    if mode is None or mode != (ev_[1] == "keycmp_nocase"):
                        bad6[ev_[1] + ":mode"] = "%s is used in the wrong case mode" % ev_[1]
                    if len(ev_[2]) != 2 or ev_[2][1] != "key" or not (E.startswith("&") or re.match(r"^h->table \+ \w+$", E) or any(x[1] == ("nz", E) and x[2] for x in before)):
                        bad6[ev_[1] + ":args"] = "comparator called as %s(%s) on an entry not known to exist" % (ev_[1], ", ".join(ev_[2]))
                    lk_ = ("==",) + tuple(sorted((symx.field_of(E, "len"), "len")))
                    if not any(symx.plain(x[1]) == symx.plain(lk_) and x[2] for x in before):
                        bad6[ev_[1] + ":len-first"] = "key bytes are compared without first establishing equal length (prefix keys would match)"
                if ev_[0] == "store" and ev_[1] == "entry" and lin.p_str(ev_[2]).endswith("next") and i_ > 0:
                    steps += 1
                    if f is delete:
                        pv = [x for x in pt.events[:i_] if x[0] == "store" and x[1] == "prev"]
                        if not pv or symx.plain(symx.field_of(lin.p_str(pv[-1][2]), "next")) != symx.plain(lin.p_str(ev_[2])):
                            bad6["prev-trails"] = "`prev` does not trail `entry` along the chain: a chained entry would be deleted as if it were another"
                if ev_[0] == "branch":
                    flat_ = " ".join(str(y_) for y_ in ev_[1])
                    if re.search(r"key\[", flat_) and "keycmp" not in flat_:
                        bad6["raw-bytes"] = "key bytes are compared directly (%s) instead of through the comparator of the table's case mode: in a case-insensitive table keys that differ only in case are told apart" % flat_[:80]
                    sig.append(("B", tuple(re.sub(r"@L\d+", "@L", re.sub(r"keycmp_(no)?case", "CMP", y)) if isinstance(y, str) else y for y in ev_[1]), ev_[2]))
                elif ev_[0] == "call":
                    sig.append(("C", re.sub(r"keycmp_(no)?case", "CMP", ev_[1]), tuple(re.sub(r"@L\d+", "@L", a_) for a_ in ev_[2])))
                else:
                    sig.append(("S", re.sub(r"@L\d+", "@L", ev_[1]), re.sub(r"@L\d+", "@L", re.sub(r"keycmp_(no)?case", "CMP", lin.p_str(ev_[2])))))
            if mode is not None:
                sigs[mode].add(tuple(sig))
        for cal in ncmp:
            ctx.check(r6, ncmp[cal] >= 1, key(f, cal), f.where(f.root), "expected a comparison with %s" % cal)
            for k_ in (":len-first", ":mode", ":args"):
                ctx.check(r6, (cal + k_) not in bad6, key(f, cal + k_), f.where(f.root), bad6.get(cal + k_, ""))
        ctx.check(r6, "raw-bytes" not in bad6, key(f, "raw-bytes"), f.where(f.root), bad6.get("raw-bytes", ""))
        ctx.check(r6, steps >= 2, key(f, "walk"), f.where(f.root), "bucket walk does not step along entry->next in both modes")
        ctx.check(r6, sigs[True] == sigs[False] and len(sigs[True]) >= 3, key(f, "mode-twins"), f.where(f.root), "the case-sensitive and case-insensitive walks differ: %s" % sorted(sigs[True] ^ sigs[False], key=str)[:1])
        if f is delete:
            ctx.check(r6, "prev-trails" not in bad6, key(f, "prev-trails"), f.where(f.root), bad6.get("prev-trails", ""))
        # empty bucket test first
        first = [r for r in f.find("Return") if paths.guarded(f, r, lambda fn, cc, pol: paths.cond_atoms(fn, cc, pol, subst=False) == ("entry->key", False))]
        ctx.check(r6, len(first) >= 1, key(f, "empty-bucket"), f.where(f.root), "no early return for an empty bucket (key == NULL)")
    for cal, fold in (("keycmp_nocase", True), ("keycmp_case", False)):
        f = fns[cal]
        conds = [paths.rel(f, c, pol, subst=False) for (s, d, c, pol) in f.cfg.cond_edges()]
        ctx.check(r6, ("i", "<", "entry->len") in conds, key(f, "bound"), f.where(f.root), "comparator does not cover exactly entry->len bytes")
        srcs = {}
        for s in paths.stores(f):
            if s["kind"] == "DeclRef" and s["path"] in ("c1", "c2") and s["rhs"] is not None:
                srcs.setdefault(s["path"], []).append((f.canon(s["rhs"], subst=False), "UPPER_CASE" in " ".join(f.mac(f.strip(s["rhs"], casts=True)) + f.mac(s["rhs"]))))
        base = {k: [x[0] for x in v if not x[1]] for k, v in srcs.items()}
        ctx.check(r6, base.get("c1") == ["*(str++)"] and base.get("c2") == ["*(key++)"], key(f, "sources"), f.where(f.root), "comparator does not read the stored key and the probe key in step (%s)" % base)
        if fold:
            folded = {k: any(x[1] for x in v) for k, v in srcs.items()}
            ctx.check(r6, folded.get("c1") and folded.get("c2"), key(f, "fold-both"), f.where(f.root), "case folding is not applied to both sides")
        rets = sorted(f.canon(f.ch(r)[0], subst=False) for r in f.find("Return"))
        ctx.check(r6, rets == ["(c1 - c2)", "0"], key(f, "returns"), f.where(f.root), "comparator returns %s" % rets)
        mism = [r for r in f.find("Return") if f.canon(f.ch(r)[0], subst=False) != "0"]
        for r in mism:
            ctx.check(r6, paths.guarded(f, r, lambda fn, cc, pol: paths.rel(fn, cc, pol, subst=False) == ("c1", "!=", "c2")), key(f, "mismatch"), f.where(r), "non-zero result is not under c1 != c2")
    # key2hash: both modes reduce modulo size; no-case folds
    kh = fns["key2hash"]
    rets = [kh.canon(kh.ch(r)[0], subst=False) for r in kh.find("Return")]
    ctx.check(r6, rets == ["(hash % h->size)"], key(kh, "modulo"), kh.where(kh.root), "bucket index is %s, not hash %% h->size" % rets)
    adds = [s for s in paths.stores(kh) if s["path"] == "hash" and s["op"] == "+="]
    forms = []
    for s in adds:
        nocase = paths.guarded(kh, s["node"], lambda fn, cc, pol: paths.cond_atoms(fn, cc, pol) == ("h->nocase", True))
        forms.append((nocase, kh.canon(s["rhs"], subst=False)))
    ctx.check(r6, sorted(forms) == [(False, "(*cp << s)"), (True, "(c << s)")], key(kh, "accumulate"), kh.where(kh.root), "hash accumulation differs between modes beyond the character source: %s" % sorted(forms))
    up = [s for s in paths.stores(kh) if s["path"] == "c" and "UPPER_CASE" in " ".join(kh.mac(kh.strip(s["rhs"])) + kh.mac(s["rhs"]))]
    ctx.check(r6, len(up) == 1 and paths.guarded(kh, up[0]["node"], lambda fn, cc, pol: paths.cond_atoms(fn, cc, pol) == ("h->nocase", True)), key(kh, "fold"), kh.where(kh.root), "no-case hashing does not fold the character (keys differing in case would land in different buckets)")
    sched = sorted((paths.guarded(kh, s["node"], lambda fn, cc, pol: paths.cond_atoms(fn, cc, pol) == ("h->nocase", True)), s["op"], kh.canon(s["rhs"], subst=False)) for s in paths.stores(kh) if s["path"] == "s" and s["op"] in ("+=", "-="))
    ctx.check(r6, [x[1:] for x in sched if x[0]] == [x[1:] for x in sched if not x[0]] and len(sched) == 4, key(kh, "shift-schedule"), kh.where(kh.root), "shift schedule differs between the two modes: %s" % sched)
    # table allocation agrees with the modulus
    nw = fns["hash_table_new"]
    al = [s for s in paths.field_stores(nw, TAB, "table")]
    ctx.check(r6, len(al) == 1 and nw.canon(al[0]["rhs"], subst=False).startswith("__ckd_calloc__(h->size, 32"), key(nw, "alloc"), nw.where(nw.root), "table is not allocated with h->size entries of sizeof(hash_entry_t)")

    # ---- R7 wrapper agreement -----------------------------------------------------------------------------
    # what lookup hands back, path by path: an entry that is not known to be NULL was accepted under equal length
    # and an equal comparison of its bytes - no other test (identical key pointer, equal hash) stands in for them
    nacc = 0
    for pt in symx.run_paths(lookup, P):
        if pt.ret is None:
            continue
        R = lin.p_str(pt.ret)
        if R in ("0", "") or any(ev_[0] == "branch" and symx.plain(ev_[1]) == symx.plain(("nz", R)) and not ev_[2] for ev_ in pt.events):
            continue
        nacc += 1
        lk_ = symx.plain(("==",) + tuple(sorted((symx.field_of(R, "len"), "len"))))
        len_ok = any(ev_[0] == "branch" and symx.plain(ev_[1]) == lk_ and ev_[2] for ev_ in pt.events)
        cmp_ok = any(ev_[0] == "branch" and ev_[1][0] == "nz" and re.match(r"^keycmp_(no)?case\(", str(ev_[1][1])) and symx.plain(("nz", str(ev_[1][1]).split("(", 1)[1].split(",")[0])) == symx.plain(("nz", R)) and not ev_[2] for ev_ in pt.events)
        if not (len_ok and cmp_ok):
            ctx.bad(r6, key(lookup, "accept-only-equal"), lookup.where(lookup.root), "lookup can hand back `%s` without having found its length equal to the probe's and its bytes equal under the table's comparator (%s): another test stands in for the comparison, and two different keys are one entry" % (R, "length not tested" if not len_ok else "bytes not compared"))
            break
    else:
        ctx.check(r6, nacc >= 2, key(lookup, "accept-only-equal"), lookup.where(lookup.root), "no accepting path of lookup found (%d)" % nacc, "%d accepting paths" % nacc)

    r7 = ctx.rule("TWIN.wrappers", "all public entry points hash the same key they pass on, with the length of that key, and select insert/replace correctly", floor=8)
    table = {
        "hash_table_enter": ("enter", "str", "0"), "hash_table_replace": ("enter", "str", "1"),
        "hash_table_delete": ("delete", "str", None), "hash_table_lookup": ("lookup", "str", None),
        "hash_table_enter_bkey": ("enter", "bin", "0"), "hash_table_replace_bkey": ("enter", "bin", "1"),
        "hash_table_delete_bkey": ("delete", "bin", None), "hash_table_lookup_bkey": ("lookup", "bin", None),
    }
    for name, (inner, kind, rep) in table.items():
        f = fns.get(name)
        if f is None:
            raise AnalysisIncomplete("anchor vanished: %s" % name)
        cs = f.calls(inner)
        if len(cs) != 1:
            ctx.bad(r7, key(f, inner), f.where(f.root), "expected exactly one call of %s()" % inner)
            continue
        a = [f.canon(x, calls=True) for x in f.args(cs[0])]
        if kind == "str":
            want = ["h", "key2hash(h, key)", "key", "strlen(key)"]
        else:
            want = ["h", "key2hash(h, makekey(key, len, 0))", "key", "len"]
        if inner == "enter":
            want = want + ["val", rep]
        ctx.check(r7, a == want, key(f, "args"), f.where(cs[0]), "%s(%s) but the map contract needs %s(%s)" % (inner, ", ".join(a), inner, ", ".join(want)), ", ".join(a))
    # lookup result handling: value only on found
    for name in ("hash_table_lookup", "hash_table_lookup_bkey"):
        f = fns[name]
        for s in paths.stores(f):
            if s["path"] == "*val":
                g = paths.guarded(f, s["node"], lambda fn, cc, pol: pol and "lookup(" in fn.canon(cc, calls=True))
                ctx.check(r7, g and f.canon(s["rhs"]).endswith("->val"), key(f, "out"), f.where(s["node"]), "value is returned without a found entry")
        rets = sorted(f.canon(f.ch(r)[0]) for r in f.find("Return"))
        ctx.check(r7, rets == ["-1", "0"], key(f, "returns"), f.where(f.root), "lookup returns %s" % rets)

    # ---- R8 insertion -----------------------------------------------------------------------------------------
    r8 = ctx.rule("PROV.insert", "enter looks the key up first with its own (hash,key,len); a new entry gets key, len and val from the parameters; the head slot is used only when empty; a chain node is linked in by `new->next = head->next; head->next = new`", floor=6)
    for k_ in ("lookup-first", "head-fields", "chain-fields", "head-only-if-empty", "link-order", "replace-flag"):
        ctx.check(r8, k_ not in ebad, key(enter, k_), enter.where(enter.root), ebad.get(k_, ""))

    # ---- positive control -----------------------------------------------------------------------------------------
    fx = {f.name: f for f in P.functions("fixture:hash_fx.c")}
    sub = type(ctx)(ctx.prop, ctx.tier)
    sub._known = []
    rr = sub.rule("ctl", "control")
    nb = uaf_rule(sub, rr, fx["fx_uaf_bad"])
    ng = uaf_rule(sub, rr, fx["fx_uaf_good"])
    ctx.control(r3, nb == 1 and ng == 0, "fixture fx_uaf_bad (read after free) must be reported, fx_uaf_good (saved successor loop) must not (got %d / %d)" % (nb, ng))
