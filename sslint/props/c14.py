"""C14 — the JSON result is well-formed and says what the iterators say.

Decides E1 (the sizing pass and the writing pass of decoder_result_json emit
the same byte count per branch: prefix, empty-list case, per-element term,
suffix; the buffer is the counted size), E2 (inside format_seg_align every
`len += k` is matched in the same straight-line group by a guarded write of k
bytes and, while the remainder is still needed, `maxlen -= k`; every snprintf
passes the tracked remainder), E3 (strings from the dictionary / hypothesis
are escaped before they are formatted with %s), E4 (times and probabilities
are computed from the public accessors of the iterator of that iteration).
Not decided: numeric equality of times and probabilities.
"""
import re

from .. import lin, paths
from ..prog import AnalysisIncomplete

U = "decoder.c"


def key(fn, what):
    return "%s:%s" % (fn.name, what)


def groups(fn, compound):
    """straight-line statement groups of a Compound: split at loops and at
    ifs that are not the guarded-write forms `if (outptr)` / `if (maxlen)`"""
    out, cur = [], []

    def flat(c):
        # a bare nested block (or the body of an inlined helper) is part of the same straight line
        for st in fn.ch(c):
            if fn.k(st) == "Compound":
                yield from flat(st)
            else:
                yield st
    for st in flat(compound):
        k = fn.k(st)
        guarded_form = k == "If" and fn.canon(fn.ch(st)[0], subst=False) in ("outptr", "maxlen") and fn.k(fn.ch(st)[2]) == "Absent"
        if k in ("While", "For", "Do") or (k == "If" and not guarded_form):
            if cur:
                out.append(cur)
            cur = []
            out.append([st])
        else:
            cur.append(st)
    if cur:
        out.append(cur)
    return out


def account(fn, stmts):
    """(L, O, M) polynomials of a straight-line group; None for control statements"""
    if len(stmts) == 1 and fn.k(stmts[0]) in ("While", "For", "Do"):
        return None
    if len(stmts) == 1 and fn.k(stmts[0]) == "If" and fn.canon(fn.ch(stmts[0])[0], subst=False) not in ("outptr", "maxlen"):
        return None
    L, O, M = {}, {}, {}
    for st in stmts:
        for s in paths.stores(fn, st):
            under = None
            for a in fn.ancestors(s["node"]):
                if fn.k(a) == "If" and a in list(fn.walk(st)) or a == st and fn.k(a) == "If":
                    c = fn.canon(fn.ch(a)[0], subst=False)
                    if c in ("outptr", "maxlen"):
                        under = c
                if a == st:
                    break
            amt = None
            if s["op"] in ("++",):
                amt = lin.p_const(1)
            elif s["op"] == "--":
                amt = lin.p_const(1)
            elif s["op"] in ("+=", "-=") and s["rhs"] is not None:
                amt = lin.poly(fn, s["rhs"], subst=False)
            if s["path"] == "len" and s["op"] in ("+=", "++") and under is None:
                L = lin.p_add(L, amt)
            elif s["path"] == "outptr" and s["op"] in ("+=", "++") and under == "outptr":
                O = lin.p_add(O, amt)
            elif s["path"] == "maxlen" and s["op"] in ("-=", "--") and under == "maxlen":
                M = lin.p_add(M, amt)
    return L, O, M


def run(ctx):
    P = ctx.P
    fns = {f.name: f for f in P.functions(U) if f.file.endswith(U)}
    for n in ("format_hyp", "format_seg", "format_align_iter", "format_seg_align", "decoder_result_json"):
        if n not in fns:
            raise AnalysisIncomplete("anchor vanished: %s" % n)
        ctx.touch(fns[n])
    rj, sa = fns["decoder_result_json"], fns["format_seg_align"]

    # ---- E1 two passes of decoder_result_json --------------------------------------------------------
    e1 = ctx.rule("EMIT.E1-two-passes", "per branch (alignment / segmentation) the sizing pass and the writing pass of decoder_result_json use the same iterator, the same formatter with the same arguments, add one byte per element, handle the empty list by one byte, and agree on prefix and suffix; the buffer allocated is the counted size", floor=10)
    tops = [i for i in rj.ch(rj.root) if rj.k(i) == "If" and rj.canon(rj.ch(i)[0], subst=False) == "alignment"]
    if len(tops) != 2:
        raise AnalysisIncomplete("decoder_result_json: expected a sizing and a writing `if (alignment)` (found %d)" % len(tops))
    def branch_summary(node, writing):
        f = rj
        out = {}
        # iterator constructor and step
        its = [s for s in paths.stores(f, node) if s["path"] == "itor" and s["rhs"] is not None]
        vs = [v for v in f.find("Var", root=node) if f.nodes[v]["name"] == "itor" and f.ch(v)]
        ctor = [f.canon(f.ch(v)[0], subst=False) for v in vs] + [f.canon(s["rhs"], subst=False) for s in its if "_next(" not in f.canon(s["rhs"], subst=False)]
        step = [f.canon(s["rhs"], subst=False) for s in its if "_next(" in f.canon(s["rhs"], subst=False)]
        out["ctor"], out["step"] = sorted(set(ctor)), sorted(set(step))
        # formatter call
        cs = [c for c in f.calls({"format_seg", "format_seg_align"}, root=node)]
        out["fmt"] = [(f.nodes[c]["callee"], tuple(f.canon(a, subst=False) for a in f.args(c)[2:])) for c in cs]
        out["buf"] = [tuple(f.canon(a, subst=False) for a in f.args(c)[:2]) for c in cs]
        # per element extra and empty case
        loop = f.find("For", root=node)
        per, empty = {}, {}
        var = "ptr" if writing else "maxlen"
        for s in paths.stores(f, node):
            if writing and s["path"] == "ptr" and s["op"] in ("++", "+="):
                amt = lin.p_const(1) if s["op"] == "++" else lin.poly(f, s["rhs"], subst=False)
            elif (not writing) and s["path"] == "maxlen" and s["op"] in ("++", "+="):
                amt = lin.p_const(1) if s["op"] == "++" else lin.poly(f, s["rhs"], subst=False)
            else:
                continue
            inloop = loop and s["node"] in set(f.walk(f.ch(loop[0])[3]))
            isempty = paths.guarded(f, s["node"], lambda fn, cc, pol: paths.rel(fn, cc, pol, subst=False) in (("0", "==", "itor"), ("itor", "==", "0")))
            if inloop:
                per = lin.p_add(per, amt)
            elif isempty:
                empty = lin.p_add(empty, amt)
            else:
                out.setdefault("other", []).append(lin.p_str(amt))
        out["per"], out["empty"] = per, empty
        return out
    for bi, name in ((1, "alignment"), (2, "segmentation")):
        s_ = branch_summary(rj.ch(tops[0])[bi], False)
        w_ = branch_summary(rj.ch(tops[1])[bi], True)
        ctx.check(e1, s_["ctor"] == w_["ctor"] and s_["step"] == w_["step"] and len(s_["ctor"]) == 1, key(rj, name + ":iterator"), rj.where(tops[1]), "%s: sizing walks %s/%s, writing walks %s/%s" % (name, s_["ctor"], s_["step"], w_["ctor"], w_["step"]))
        want_ctor = {"alignment": "alignment_words(alignment)", "segmentation": "decoder_seg_iter(d)"}[name]
        ctx.check(e1, s_["ctor"] == [want_ctor], key(rj, name + ":source"), rj.where(tops[0]), "%s: the list is walked from `%s`, not from the %s interface `%s` that the JSON has to agree with (a filtered or conditional source drops elements the iterators report)" % (name, s_["ctor"], name, want_ctor))
        ctx.check(e1, s_["fmt"] == w_["fmt"] and len(s_["fmt"]) == 1, key(rj, name + ":formatter"), rj.where(tops[1]), "%s: sizing calls %s, writing calls %s" % (name, s_["fmt"], w_["fmt"]))
        ctx.check(e1, s_["buf"] == [("0", "0")] and w_["buf"] == [("ptr", "maxlen")], key(rj, name + ":buffers"), rj.where(tops[1]), "%s: sizing must call the formatter with (NULL, 0), writing with the cursor and the tracked remainder (found %s / %s)" % (name, s_["buf"], w_["buf"]))
        # per element: sizing = CALL + 1 ; writing = len + 1 where len = CALL
        cal = s_["fmt"][0][0] if s_["fmt"] else "?"
        sper = lin.p_str(s_["per"])
        wper = lin.p_str(w_["per"])
        oks = re.match(r"^1 \+ %s\(0, 0, .*\)$" % cal, sper) is not None
        okw = wper == "1 + len"
        ctx.check(e1, oks and okw, key(rj, name + ":per-element"), rj.where(tops[1]), "%s: per element the sizing pass counts `%s` and the writing pass advances `%s` (expected formatter result + 1 separator on both)" % (name, sper, wper))
        ctx.check(e1, s_["empty"] == w_["empty"] == {(): 1}, key(rj, name + ":empty-list"), rj.where(tops[1]), "%s: for an empty list the sizing pass counts %s byte(s) and the writing pass writes %s: the closing bracket would overwrite the opening one" % (name, lin.p_str(s_["empty"]), lin.p_str(w_["empty"])))
        ctx.check(e1, not s_.get("other") and not w_.get("other"), key(rj, name + ":other"), rj.where(tops[1]), "%s: unclassified emissions %s / %s" % (name, s_.get("other"), w_.get("other")))
    # writing pass keeps the remainder in step with the cursor
    for bi, name in ((1, "alignment"), (2, "segmentation")):
        node = rj.ch(tops[1])[bi]
        adv, dec = {}, {}
        for s in paths.stores(rj, node):
            amt = lin.p_const(1) if s["op"] in ("++", "--") else (lin.poly(rj, s["rhs"], subst=False) if s["rhs"] is not None and s["op"] in ("+=", "-=") else None)
            if amt is None:
                continue
            if s["path"] == "ptr":
                adv = lin.p_add(adv, amt)
            elif s["path"] == "maxlen":
                dec = lin.p_add(dec, amt)
        ctx.check(e1, adv == dec and adv, key(rj, name + ":remainder"), rj.where(node), "%s: cursor advances by %s but the tracked remainder shrinks by %s" % (name, lin.p_str(adv), lin.p_str(dec)))
    # prefix / suffix / allocation
    before = [s for s in paths.stores(rj) if s["path"] == "maxlen" and rj.line(s["node"]) < rj.line(tops[0])]
    fh = [s for s in before if s["rhs"] is not None and rj.canon(s["rhs"], subst=False) == "format_hyp(0, 0, d, start, duration)"]
    def bump(s_):
        """bytes a store adds to the running size: `++`, `+= k`; None for anything else"""
        if s_["op"] == "++":
            return lin.p_const(1)
        if s_["op"] == "+=" and s_["rhs"] is not None:
            return lin.poly(rj, s_["rhs"], subst=False)
        return None
    pre = {}
    okpre = True
    for s_ in before:
        if s_ in fh or (s_["op"] == "=" and s_["node"] and rj.k(s_["node"]) == "Var"):
            continue
        b_ = bump(s_)
        if b_ is None:
            okpre = False
        else:
            pre = lin.p_add(pre, b_)
    ctx.check(e1, len(fh) == 1 and okpre and pre == {(): 6}, key(rj, "prefix-size"), rj.where(rj.root), "sizing prefix is not format_hyp(NULL,0,...) + 6")
    al = [s for s in paths.stores(rj) if s["path"] == "d->json_result" and s["rhs"] is not None and "calloc" in rj.canon(s["rhs"], subst=False)]
    between = [s for s in paths.stores(rj) if s["path"] == "maxlen" and rj.line(tops[0]) < rj.line(s["node"]) < (rj.line(al[0]["node"]) if al else rj.line(tops[1])) and s["node"] not in set(rj.walk(tops[0])) and not any(rj.k(a_) in ("If", "For", "While", "Do", "Switch") for a_ in rj.ancestors(s["node"]))]
    suf = {}
    for s_ in between:
        b_ = bump(s_)
        suf = lin.p_add(suf, b_) if b_ is not None else {("?",): 1}
    ctx.check(e1, suf == {(): 3}, key(rj, "suffix-size"), rj.where(rj.root), "sizing suffix is %s bytes, the writing pass emits `}`, newline and the terminator" % lin.p_str(suf))
    ok = len(al) == 1 and rj.canon(al[0]["rhs"], subst=False).startswith("__ckd_calloc__(maxlen, 1,") and all(rj.line(s["node"]) < rj.line(al[0]["node"]) for s in before + between) and rj.line(al[0]["node"]) < rj.line(tops[1])
    ctx.check(e1, ok, key(rj, "allocation"), rj.where(rj.root), "the buffer is not allocated with the counted size after the sizing pass")
    wfh = [c for c in rj.calls("format_hyp") if rj.canon(rj.args(c)[0], subst=False) != "0"]
    def is_buffer(n_):
        """d->json_result itself, or a local last assigned from it (also in a chained `p = d->json_result = alloc`)"""
        if rj.canon(n_) == "d->json_result":
            return True
        j_ = rj.strip(n_)
        if rj.k(j_) == "DeclRef":
            dv = rj.rd.def_values(j_)
            if len(dv) == 1 and dv[0][1] not in (None, "uninit", "param"):
                v_ = rj.strip(dv[0][1])
                return rj.k(v_) == "Assign" and rj.canon(rj.ch(v_)[0], subst=False) == "d->json_result"
        return False
    ok = len(wfh) == 1 and is_buffer(rj.args(wfh[0])[0]) and [rj.canon(rj.args(wfh[0])[1])] + [rj.canon(a, subst=False) for a in rj.args(wfh[0])[2:]] == ["maxlen", "d", "start", "duration"]
    ctx.check(e1, ok, key(rj, "prefix-write"), rj.where(rj.root), "writing prefix does not call format_hyp with the buffer and the same arguments as the sizing pass")
    mc = rj.calls("memcpy")
    ctx.check(e1, len(mc) == 1 and [rj.canon(a, subst=False) for a in rj.args(mc[0])] == ["ptr", '",\\"w\\":["', "6"], key(rj, "list-open"), rj.where(rj.root), "the list opener is not the 6 bytes counted")
    tail = [s for s in paths.stores(rj) if rj.line(s["node"]) > rj.line(tops[1]) and s["node"] not in set(rj.walk(tops[1])) and (s["path"] in ("ptr",) or s["path"].startswith(("*ptr", "*(ptr")))]
    seq = [(s["path"], s["op"], rj.canon(s["rhs"], subst=False) if s["rhs"] is not None else "") for s in tail]
    want = [("ptr", "--", ""), ("ptr", "++", ""), ("*(ptr++)", "=", "93"), ("ptr", "++", ""), ("*(ptr++)", "=", "125"), ("ptr", "++", ""), ("*(ptr++)", "=", "10"), ("*ptr", "=", "0")]
    ctx.check(e1, sorted(seq) == sorted(want), key(rj, "suffix-write"), rj.where(rj.root), "the result does not end with `]` over the last separator, `}`, newline, terminator (found %s)" % seq)
    rets = [rj.canon(rj.ch(r)[0], subst=False) for r in rj.find("Return")]
    ctx.check(e1, sorted(rets) == ["0", "d->json_result"], key(rj, "returns"), rj.where(rj.root), "decoder_result_json returns %s" % rets)

    # ---- E2 accounting inside format_seg_align ----------------------------------------------------------
    e2 = ctx.rule("EMIT.E2-accounting", "in format_seg_align every straight-line group adds to `len` exactly what it writes under `if (outptr)` and, while the remainder is still passed on, what it subtracts under `if (maxlen)`; every formatter call receives the cursor and the remainder", floor=10)
    comps = [c for c in sa.find("Compound") if sa.parent[c] is None or sa.k(sa.parent[c]) != "Compound"]
    ng = 0
    last_call_line = max([sa.line(c) for c in sa.calls("format_align_iter")] or [0])
    for comp in comps:
        for g in groups(sa, comp):
            acc = account(sa, g)
            if acc is None:
                continue
            L, O, M = acc
            if not L and not O and not M:
                continue
            ng += 1
            line = sa.line(g[0])
            k = key(sa, "group@%s" % (lin.p_str(L)))
            okO = L == O
            # the remainder matters while a formatter call can still follow: later in the text, or in the next iteration of an enclosing loop
            loops_of_g = [a for a in sa.ancestors(g[0]) if sa.k(a) == "While"]
            needM = line <= last_call_line or any(sa.calls("format_align_iter", root=w) for w in loops_of_g)
            okM = (L == M) or not needM
            ctx.check(e2, okO and okM, key(sa, "group:L=%s@%d" % (lin.p_str(L), ng)), sa.where(g[0]), "this group counts %s byte(s) into `len`, writes %s under `if (outptr)` and takes %s off the remainder under `if (maxlen)`: later snprintf calls are handed a wrong limit (truncated JSON) or the size is wrong" % (lin.p_str(L), lin.p_str(O), lin.p_str(M)))
    ctx.check(e2, ng >= 9, key(sa, "groups"), sa.where(sa.root), "expected >= 9 accounting groups, found %d" % ng)
    for c in sa.calls("format_align_iter"):
        a = [sa.canon(x, subst=False) for x in sa.args(c)]
        ctx.check(e2, a[:2] == ["outptr", "maxlen"] and a[3:] == ["utt_start", "frate", "lmath"], key(sa, "call:" + a[2]), sa.where(c), "formatter called with (%s)" % ", ".join(a))
        par = sa.up(c)
        ctx.check(e2, par is not None and sa.k(par) == "Assign" and sa.canon(sa.nodes[par]["ch"][0], subst=False) == "hyplen", key(sa, "result:" + a[2]), sa.where(c), "formatter result is not accounted")
    its = sorted(sa.canon(s["rhs"], subst=False) for s in paths.stores(sa) if s["path"] in ("pitor", "sitor"))
    ctx.check(e2, its == ["alignment_iter_children(itor)", "alignment_iter_next(pitor)", "alignment_iter_next(sitor)"] or its == sorted(["alignment_iter_children(itor)", "alignment_iter_next(pitor)", "alignment_iter_next(sitor)", "alignment_iter_children(pitor)"]), key(sa, "iterators"), sa.where(sa.root), "nested lists are walked as %s" % its)
    sv = [v for v in sa.find("Var") if sa.nodes[v]["name"] == "sitor" and sa.ch(v)]
    ctx.check(e2, len(sv) == 1 and sa.canon(sa.ch(sv[0])[0], subst=False) == "alignment_iter_children(pitor)" and paths.guarded(sa, sv[0], lambda fn, cc, pol: paths.cond_atoms(fn, cc, pol, subst=False) == ("state_align", True)), key(sa, "state-level"), sa.where(sa.root), "state lists are not the children of the phone under `state_align`")
    # format_seg: the formatted text and one closing brace, counted always and written when there is a buffer
    # (path by path over values, symx.run_paths)
    from .. import symx
    fs = fns["format_seg"]
    OUT, LIM = fs.params[0][0], fs.params[1][0]
    okc, npth = True, 0
    for pt in symx.run_paths(fs, P):
        npth += 1
        sn = [c_ for c_ in pt.calls if c_[0] == "snprintf"]
        if len(sn) != 1 or sn[0][1][:2] != [OUT, LIM] or pt.ret is None:
            okc = False
            continue
        SN = lin.p_atom("snprintf(%s)" % ", ".join(sn[0][1]))
        has = pt.atoms.get(("nz", OUT))
        braces = [pth for (pth, v_, n_) in pt.stores if v_ == lin.p_const(125)]
        okc = okc and pt.ret == lin.p_add(SN, lin.p_const(1)) and has is not None and braces == (["%s[%s]" % (OUT, lin.p_str(SN))] if has else [])
    ctx.check(e2, okc and npth >= 2, key(fs, "closing"), fs.where(fs.root), "format_seg does not count and (when writing) emit exactly one closing brace after the formatted text")

    # ---- E3 escaping ----------------------------------------------------------------------------------------
    e3 = ctx.rule("TAINT.E3-escaping", "a string that comes from the dictionary, the model or the hypothesis is passed through a JSON escaping function before it is formatted with %s inside a string literal", floor=3)
    for name in ("format_hyp", "format_seg", "format_align_iter"):
        f = fns[name]
        for c in f.calls("snprintf"):
            a = f.args(c)
            fmt = f.nodes[f.strip(a[2])].get("v", "") if f.k(f.strip(a[2])) == "Str" else ""
            convs = re.findall(r"%[-+ #0]*\d*(?:\.\d+)?(?:l|z)?([a-zA-Z])", fmt)
            for pos, cv in enumerate(convs):
                if cv != "s":
                    continue
                arg = a[3 + pos]
                j = f.strip(arg)
                # every reaching definition is "" or the result of an escaping call
                forms = []
                if f.k(j) == "DeclRef":
                    forms = [x[1] for x in f.def_forms(j, subst=False)]
                else:
                    forms = [f.canon(j, subst=False)]
                ok = all(fm is not None and (fm == '""' or re.match(r"^\w*escape\w*\(", fm)) for fm in forms) and forms
                ctx.check(e3, ok, key(f, "%s-arg"), f.where(c), "the %%s argument `%s` (from %s) is formatted into a JSON string without escaping: a word spelled with `\"` or `\\` yields invalid JSON" % (f.canon(arg, subst=False), [fm for fm in forms if fm != '""']))

    # ---- E3b the escaping function itself ------------------------------------------------------------------
    je = fns.get("json_escape")
    if je is None:
        raise AnalysisIncomplete("anchor vanished: json_escape")
    ctx.touch(je)
    scope = [je] + [g for c in je.calls() for g in P.fn_index.get(je.nodes[c].get("callee") or "", []) if g.file.endswith(U) and g.static]
    ntests = 0
    for g in scope:
        for i in g.find("Bin"):
            nd = g.nodes[i]
            if nd["op"] not in ("<", "<=", ">", ">="):
                continue
            consts = [g.constval(c) for c in nd["ch"]]
            if not any(v in (31, 32, 127, 128) for v in consts if v is not None):
                continue
            ntests += 1
            other = [c for c, v in zip(nd["ch"], consts) if v is None]
            t = ""
            if other:
                j = other[0]
                narrowed = None
                while g.k(j) in ("Paren", "ICast"):      # implicit promotions only: an explicit cast decides the signedness
                    # ... but an implicit conversion *to* a plain or signed char (a byte handed to a
                    # `char` parameter or variable) decides it too
                    tj = g.nodes[j].get("ct", g.nodes[j].get("t", "")).replace("const ", "").strip()
                    if g.k(j) == "ICast" and tj in ("char", "signed char"):
                        narrowed = tj
                        break
                    j = g.ch(j)[0]
                t = narrowed or g.nodes[j].get("ct", g.nodes[j].get("t", ""))
            ctx.check(e3, t.replace("const ", "").strip() in ("unsigned char", "unsigned int", "uint8", "unsigned short"), key(g, "control-test@%d" % g.line(i)), g.where(i), "the control-character test compares a value of type `%s`: with a signed char every byte of a UTF-8 sequence (>= 0x80) is negative, counts as a control character and is written as \\u00XX, which changes the word" % t)
    ctx.check(e3, ntests >= 2, key(je, "control-tests"), je.where(je.root), "expected the control-character test in both passes of json_escape (found %d)" % ntests)
    # both passes decide alike: same multiset of conditions in the counting loop and in the writing loop
    loops = [lp for lp in je.find("For") + je.find("While")]
    if len(loops) >= 2:
        cs = []
        for lp in loops[:2]:
            cs.append(sorted(je.canon(je.ch(x)[0], subst=False) for x in je.find("If", root=lp)))
        ctx.check(e3, cs[0] == cs[1], key(je, "passes-agree"), je.where(loops[0]), "the counting pass of json_escape decides by %s, the writing pass by %s" % (cs[0], cs[1]))

    # ---- E4 provenance of values -----------------------------------------------------------------------------------
    e4 = ctx.rule("PROV.E4-values", "times are frame index / frame rate plus the offset, durations (ef + 1 - sf) / frate resp. duration / frate, probabilities the exponentiated accessor results of the same iterator; the frame rate comes from the configuration", floor=8)
    # what reaches the conversions of each formatter, as values (symx.run_paths): temporaries, renamed locals
    # and hoisted sub-expressions do not matter
    def printed(fn_):
        out = set()
        calls_before = {}
        for pt in symx.run_paths(fn_, P):
            sn = [c_ for c_ in pt.calls if c_[0] == "snprintf"]
            out.add(tuple(tuple(c_[1]) for c_ in sn))
            for c_ in sn:
                calls_before[tuple(c_[1])] = [(x_[0], tuple(x_[1])) for x_ in pt.calls[:pt.calls.index(c_)]]
        return out, calls_before
    f = fns["format_seg"]
    pr, cb = printed(f)
    one = len(pr) == 1 and len(list(pr)[0]) == 1
    a_ = list(list(pr)[0][0]) if one else [None] * 7
    ctx.check(e4, one and a_[3] == "(sf / frate) + utt_start", key(f, "start"), f.where(f.root), "segment start time is `%s`" % a_[3])
    ctx.check(e4, one and a_[4] == "(1 + ef + -1*sf / frate)", key(f, "duration"), f.where(f.root), "segment duration is `%s`, expected (ef + 1 - sf) / frate" % a_[4])
    ctx.check(e4, one and a_[5] == "logmath_exp(lmath, seg_iter_prob(seg, 0, 0))" and a_[6] in ("seg_iter_word(seg)", "json_escape(seg_iter_word(seg))"), key(f, "accessors"), f.where(f.root), "segment probability / word are `%s` / `%s`" % (a_[5], a_[6]))
    ctx.check(e4, one and ("seg_iter_frames", ("seg", "&sf", "&ef")) in cb.get(tuple(a_), []), key(f, "frames"), f.where(f.root), "frames are not read from the same segment before they are formatted")
    ctx.check(e4, one and len(a_) == 7, key(f, "order"), f.where(f.root), "fields are not formatted in the order b, d, p")
    f = fns["format_align_iter"]
    pr, cb = printed(f)
    one = len(pr) == 1 and len(list(pr)[0]) == 1
    a_ = list(list(pr)[0][0]) if one else [None] * 7
    ctx.check(e4, one and a_[3:6] == ["(start / frate) + utt_start", "(duration / frate)", "logmath_exp(lmath, alignment_iter_seg(itor, &start, &duration))"] and a_[6] in ("alignment_iter_name(itor)", "json_escape(alignment_iter_name(itor))"), key(f, "values"), f.where(f.root), "alignment entry values are %s" % (a_[3:],))
    ctx.check(e4, one and a_[:2] == [f.params[0][0], f.params[1][0]] and len(a_) == 7, key(f, "order"), f.where(f.root), "fields are not formatted in the order b, d, p with the tracked remainder")
    f = fns["format_hyp"]
    pr, cb = printed(f)
    one = len(pr) == 1 and len(list(pr)[0]) == 1
    a_ = list(list(pr)[0][0]) if one else [None] * 7
    ctx.check(e4, one and a_[6] in ("json_escape(decoder_hyp(decoder, 0))", "decoder_hyp(decoder, 0)"), key(f, "text"), f.where(f.root), "the text field is `%s`, not the hypothesis the public accessor returns for this result (a cached string can be stale)" % a_[6])
    ctx.check(e4, one and a_[5] in ("logmath_exp(lmath, decoder_prob(decoder))", "logmath_exp(decoder_logmath(decoder), decoder_prob(decoder))"), key(f, "prob"), f.where(f.root), "utterance probability is `%s`" % a_[5])
    ctx.check(e4, one and a_[:2] == [f.params[0][0], f.params[1][0]] and a_[3:5] == [f.params[3][0], f.params[4][0]], key(f, "order"), f.where(f.root), "fields are not formatted in the order b, d, p")
    d = {s["path"]: rj.canon(s["rhs"], subst=False) for s in paths.stores(rj) if s["kind"] == "DeclRef" and s["rhs"] is not None}
    ctx.check(e4, d.get("frate") == 'config_int(decoder_config(d), "frate")' and re.match(r"^\(decoder_n_frames\(d\) / frate\)$", d.get("duration", "")) is not None, key(rj, "frate"), rj.where(rj.root), "frame rate / duration are `%s` / `%s`" % (d.get("frate"), d.get("duration")))
    fmts = set()
    for name in ("format_hyp", "format_seg", "format_align_iter"):
        f = fns[name]
        for c in f.calls("snprintf"):
            fmts.add(f.nodes[f.strip(f.args(c)[2])].get("v"))
    ctx.check(e4, len(fmts) == 1 and list(fmts)[0] == '{"b":%.3f,"d":%.3f,"p":%.3f,"t":"%s"', "json:format", "src/decoder.c", "the three formatters do not share one object format (%s)" % sorted(map(str, fmts)))

    # the "w" lists come from decoder_alignment: an aligner kept across utterances makes the JSON say what the
    # previous utterance's iterators said (seed C14-11)
    from . import c04
    from ..report import Only
    c04.run(Only(ctx, ("EFFECT.A6-aligner-cache",)))
