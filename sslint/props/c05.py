"""C05 — JSGF compilation preserves the language.

Decides the refusal clause (every expansion failure reaches the API as a
refused grammar), rule-stack discipline, the weight-normalisation guard and
sibling loops, the recursion guard and back-link target, sequence threading
of states, the generated internal rules' right-recursive shape, the
link -> FSG arc mapping, and the scanner's start-condition table.  Not
decided: language equivalence of the constructions (translation validation,
a different family); weight sums as numbers.
"""
import os
import re

from .. import build, paths
from ..prog import AnalysisIncomplete

U = "jsgf.c"


def key(fn, what):
    return "%s:%s" % (fn.name, what)


def tested(fn, call, bad_value):
    """the call's result is compared (directly or through a local) and some
    branch edge depends on it"""
    par = fn.up(call)
    # direct use in a condition
    for a in fn.ancestors(call):
        k = fn.k(a)
        if k in ("If", "While", "For", "Do", "Cond") and call in list(fn.walk(fn.ch(a)[0] if k != "Do" else fn.ch(a)[1])):
            return True
        if k in ("Compound",):
            break
    if par is not None and fn.k(par) in ("Assign", "Var"):
        var = fn.canon(fn.nodes[par]["ch"][0], subst=False) if fn.k(par) == "Assign" else fn.nodes[par]["name"]
        for (s, d, c, pol) in fn.cfg.cond_edges():
            txt = fn.canon(c, subst=False)
            if re.search(r"(?<![\w>.])%s(?![\w(])" % re.escape(var), txt) and fn.cfg.path_exists(paths.pos_of(fn, call), lambda e, c=c: e == fn.strip(c) or e == c):
                return True
    if par is not None and fn.k(par) == "Return":
        return True
    return False


def _tested(fn, is_subject):
    """the subject is compared with a constant somewhere (if or switch)"""
    for (s0, d0, c, pol) in fn.cfg.cond_edges():
        j = fn.strip(c)
        nd = fn.nodes[j]
        if nd["k"] == "Bin" and nd["op"] in ("==", "!=") and any(is_subject(fn, x) for x in nd["ch"]):
            return True
    return any(c is not None and c >= 0 and is_subject(fn, c) for (s0, d0, c, v_) in fn.cfg.switch_edges())


def run(ctx):
    P = ctx.P
    fns = {f.name: f for f in P.functions(U) if f.file.endswith(U)}
    for n in ("expand_rhs", "expand_rule", "jsgf_build_fsg_internal", "jsgf_kleene_new", "jsgf_optional_new", "jsgf_add_link"):
        if n not in fns:
            raise AnalysisIncomplete("anchor vanished: %s" % n)
        ctx.touch(fns[n])
    er, eu, bi = fns["expand_rhs"], fns["expand_rule"], fns["jsgf_build_fsg_internal"]
    dec = {f.name: f for f in P.functions("decoder.c") if f.file.endswith("decoder.c")}

    # ---- J1 refusal ---------------------------------------------------------------------
    j1 = ctx.rule("ERRD.J1-refusal", "every result of expand_rhs / expand_rule is tested and its failure leaves with -1 / NULL; a NULL grammar from jsgf_build_fsg never reaches decoder_set_fsg; jsgf_read_* return what was built", floor=6)
    sites = []
    for f in fns.values():
        for c in f.calls({"expand_rhs", "expand_rule"}):
            sites.append((f, c))
    for (f, c) in sites:
        cal = f.nodes[c]["callee"]
        # failing edge: (result == -1) true  -> must lead to a return of -1 / NULL only
        def fail_edge(fn, cc, pol, c=c):
            r = paths.rel(fn, cc, pol, calls=True) if False else None
            txt = fn.canon(cc, calls=True)
            if "%s(" % fn.nodes[c]["callee"] not in txt:
                return False
            j = fn.strip(cc)
            nd = fn.nodes[j]
            if nd["k"] != "Bin" or nd["op"] not in ("==", "!=", "<"):
                return False
            other = fn.canon(nd["ch"][1], subst=False)
            if nd["op"] == "==" and other == "-1":
                return pol
            if nd["op"] == "!=" and other == "-1":
                return not pol
            if nd["op"] == "<" and other == "0":
                return pol
            return False
        edges = paths.guard_edges(f, fail_edge)
        # `switch (result) { case -1: ...` reads the same
        edges = list(edges) + [e_ for e_ in paths.equals_edges(f, lambda fn, n_, c=c: ("%s(" % fn.nodes[c]["callee"]) in fn.canon(n_, calls=True), -1) if e_ not in edges]
        ok = len(edges) >= 1
        why = "the result of %s() is not compared with -1" % cal
        if ok:
            # from the failing edge only failure returns are reachable
            for (s0, d0) in edges:
                for r in f.find("Return"):
                    if f.cfg.path_exists((d0, -1), lambda e, r=r: e == r):
                        rv = f.canon(f.ch(r)[0], subst=False) if f.ch(r) else ""
                        if rv not in ("-1", "0") and not (f.ret.endswith("*") and rv == "0"):
                            # allowed only if the return is also reachable without the failing edge? no: must be failure
                            if not f.cfg.path_exists((d0, -1), lambda e, r=r: e == r, is_barrier=lambda e: f.k(e) == "Return"):
                                continue
                            if f.cfg.blocks[d0]["elems"] and r in f.cfg.blocks[d0]["elems"]:
                                ok = False
                                why = "the failing edge of %s() returns `%s`" % (cal, rv)
                # the first return reached must be a failure return: check block d0 chain
                reach = f.cfg.reachable_blocks(d0)
                first_rets = []
                for r in f.find("Return"):
                    b = paths.pos_of(f, r)[0]
                    if b in reach and not f.cfg.path_exists((d0, -1), lambda e, r=r: e == r, is_barrier=lambda e: e == c):
                        pass
                # simple and exact: destination block of the failing edge ends in a failure return
                blk = f.cfg.blocks[d0]
                rets_in = [e for e in blk["elems"] if e >= 0 and f.k(e) == "Return"]
                if not rets_in:
                    ok = False
                    why = "the failing edge of %s() does not return" % cal
                else:
                    rv = f.canon(f.ch(rets_in[0])[0], subst=False)
                    want = "0" if f.ret.endswith("*") else "-1"
                    if rv != want:
                        ok = False
                        why = "the failing edge of %s() returns `%s`, expected %s" % (cal, rv, "NULL" if want == "0" else want)
        ctx.check(j1, ok, key(f, "check:" + cal), f.where(c), why + ": a grammar that cannot be represented would be compiled into a different language")
    ctx.check(j1, len(sites) == 3, "jsgf:expansion-sites", er.where(er.root), "expected 3 expansion call sites (rhs->rule, rule->rhs, top level), found %d" % len(sites))
    # failure returns exist for: undefined rule, non-right recursion, VOID
    fails = [r for r in er.find("Return") if paths.is_const(er, er.ch(r)[0], -1)]
    ctx.check(j1, len(fails) >= 4, key(er, "refusals"), er.where(er.root), "expected refusals for <VOID>, undefined rule, non-right recursion and failed sub-expansion (found %d)" % len(fails))
    und = [r for r in fails if paths.guarded(er, r, lambda fn, cc, pol: pol and "hash_table_lookup(grammar->rules" in fn.canon(cc, subst=False))]
    ctx.check(j1, len(und) == 1, key(er, "undefined"), er.where(er.root), "undefined rule is not refused")
    # API level: jsgf_build_fsg result checked before decoder_set_fsg
    napi = 0
    for name in ("decoder_set_jsgf_file", "decoder_set_jsgf_string"):
        f = dec.get(name)
        if f is None:
            raise AnalysisIncomplete("anchor vanished: %s" % name)
        ctx.touch(f)
        for c in f.calls("decoder_set_fsg"):
            napi += 1
            arg = f.canon(f.args(c)[1], subst=False)
            g = paths.guarded(f, c, lambda fn, cc, pol, arg=arg: paths.cond_atoms(fn, cc, pol, subst=False) == (arg, True))
            ctx.check(j1, g, key(f, "null-grammar"), f.where(c), "decoder_set_fsg(%s) is reached without a `%s != NULL` test: a refused grammar is dereferenced instead of being reported" % (arg, arg))
        # grammar object released on every path after parse
        frees = f.calls("jsgf_grammar_free")
        parses = f.calls({"jsgf_parse_file", "jsgf_parse_string"})
        if parses:
            okf = paths.must_pass(f, parses[0], lambda e: e in frees or (f.k(e) == "Return" and paths.guarded(f, e, lambda fn, cc, pol: paths.cond_atoms(fn, cc, pol, subst=False) == ("jsgf", False))))
            ctx.check(j1, okf, key(f, "free-jsgf"), f.where(parses[0]), "parsed grammar is not released on every path")
    ctx.check(j1, napi == 2, "decoder:set_jsgf", dec["decoder_set_jsgf_file"].where(dec["decoder_set_jsgf_file"].root), "expected 2 decoder_set_fsg sites in the JSGF entry points")
    for name in ("jsgf_read_file", "jsgf_read_string"):
        f = fns.get(name)
        if f is None:
            continue
        ctx.touch(f)
        b = f.calls("jsgf_build_fsg")
        rets = [f.canon(f.ch(r)[0], subst=False) for r in f.find("Return")]
        ctx.check(j1, len(b) == 1 and "fsg" in rets, key(f, "returns-built"), f.where(f.root), "%s does not return the grammar it built" % name)

    # ---- J2 rule stack -------------------------------------------------------------------------
    j2 = ctx.rule("PAIR.J2-rulestack", "the recursion stack is empty at the start of every top-level expansion: every path through expand_rule pops what it pushed, or the builder resets the stack before expanding and after a failure", floor=2)
    push = [s for s in paths.field_stores(eu, "jsgf_s", "rulestack") if "glist_add_ptr" in eu.canon(s["rhs"], subst=False)]
    pop = [s for s in paths.field_stores(eu, "jsgf_s", "rulestack") if "gnode_free" in eu.canon(s["rhs"], subst=False)]
    ctx.check(j2, len(push) == 1 and len(pop) == 1 and eu.canon(push[0]["rhs"], subst=False) == "glist_add_ptr(grammar->rulestack, rule)", key(eu, "push-pop"), eu.where(eu.root), "expected one push and one pop of the rule stack")
    balanced = len(push) == 1 and len(pop) == 1 and paths.must_pass(eu, push[0]["node"], lambda e: e == pop[0]["node"])
    resets = [s for s in paths.field_stores(bi, "jsgf_s", "rulestack") if paths.is_const(bi, s["rhs"], 0)]
    ec = bi.calls("expand_rule")
    reset_before = bool(ec) and any(paths.always_before(bi, ec[0], lambda e, s=s: e == s["node"]) for s in resets)
    ctx.check(j2, balanced or reset_before, key(eu, "empty-at-start"), eu.where(push[0]["node"]) if push else eu.where(eu.root), "a failing expansion returns without popping the rule stack and the builder does not reset it: a later build on the same grammar object sees phantom recursion")
    # the other per-build state is fresh as well: links emitted by an earlier (possibly refused) build must not be converted
    j8 = ctx.rule("PAIR.J8-fresh-build", "every build starts from an empty link list, state count zero and entry = exit = 0: these resets are passed on every path from the builder's entry to its expand_rule call (a list cleared only after a successful conversion keeps the links of a refused build)", floor=3)
    for fld, what in (("links", "the link list"), ("nstate", "the state counter")):
        rs = [s_ for s_ in paths.field_stores(bi, "jsgf_s", fld) if s_["rhs"] is not None and paths.is_const(bi, s_["rhs"], 0)]
        okf = bool(ec) and any(paths.always_before(bi, ec[0], lambda e, s_=s_: e == s_["node"]) for s_ in rs)
        ctx.check(j8, okf, key(bi, "reset:" + fld), bi.where(ec[0]) if ec else bi.where(bi.root), "%s is not reset before the rule is expanded: what an earlier build on the same grammar object left there (also a refused one) ends up in this FSG" % what)
    ents = [s_ for s_ in paths.stores(bi) if s_["path"] in ("rule->entry", "rule->exit") and s_["rhs"] is not None]
    oke = bool(ec) and len({s_["path"] for s_ in ents if paths.always_before(bi, ec[0], lambda e, s_=s_: e == s_["node"] or e == bi.parent.get(s_["node"]) if isinstance(bi.parent, dict) else e == s_["node"])}) >= 1
    ctx.check(j8, oke, key(bi, "reset:entry-exit"), bi.where(ec[0]) if ec else bi.where(bi.root), "rule->entry / rule->exit are not reset before the rule is expanded")
    # the pushed rule is the one expanded; the stack scan compares with the looked-up subrule
    # the variable that walks the rule stack, whatever it is called
    scanv = sorted(set(s_["path"] for s_ in paths.stores(er) if s_["kind"] == "DeclRef" and s_["rhs"] is not None and er.canon(s_["rhs"], subst=False) == "grammar->rulestack")) or ["subnode"]
    scan = [c for (s0, d0, c, pol) in er.cfg.cond_edges() if pol and any(v_ + "->data.ptr" in er.canon(c, subst=False) for v_ in scanv)]
    cmp_ = [c for c in scan if any(paths.rel(er, c, True, subst=False) in ((v_ + "->data.ptr", "==", "subrule"), ("subrule", "==", v_ + "->data.ptr")) for v_ in scanv)]
    ctx.check(j2, len(cmp_) == 1, key(er, "stack-scan"), er.where(er.root), "stack scan does not compare entries with the referenced rule")

    # ---- J3 weights ----------------------------------------------------------------------------------
    j3 = ctx.rule("GUARD.J3-weights", "the weight norm is the sum over the first atoms of all alternatives, zero is repaired before the division, and the division is applied to the same atoms", floor=4)
    div = [s for s in paths.stores(eu) if s["op"] == "/=" ]
    ctx.check(j3, len(div) == 1 and eu.canon(div[0]["rhs"], subst=False) == "norm" and div[0]["path"].endswith("->weight"), key(eu, "divide"), eu.where(eu.root), "weights are not divided by the norm")
    if div:
        rep = [s for s in paths.stores(eu) if s["path"] == "norm" and paths.is_const(eu, s["rhs"], 1)]
        okr = len(rep) == 1 and paths.guarded(eu, rep[0]["node"], lambda fn, cc, pol: paths.rel(fn, cc, pol, subst=False) in (("0", "==", "norm"), ("norm", "==", "0")))
        nz = paths.guard_edges(eu, lambda fn, cc, pol: paths.rel(fn, cc, pol, subst=False) in (("0", "!=", "norm"), ("norm", "!=", "0")))
        okd = okr and not eu.cfg.path_exists((eu.cfg.entry, -1), lambda e: e == div[0]["node"], is_barrier=lambda e: e == rep[0]["node"], removed_edges=nz)
        ctx.check(j3, okd, key(eu, "zero-norm"), eu.where(div[0]["node"]), "division by the weight norm is not dominated by the `norm == 0 -> norm = 1` repair")
    acc = [s for s in paths.stores(eu) if s["path"] == "norm" and s["op"] == "+="]
    ctx.check(j3, len(acc) == 1 and eu.canon(acc[0]["rhs"]) == "rhs->atoms->data.ptr->weight", key(eu, "sum"), eu.where(eu.root), "norm accumulates %s" % [eu.canon(s["rhs"]) for s in acc])
    if div:
        ctx.check(j3, eu.canon(eu.nodes[div[0]["node"]]["ch"][0]) == "rhs->atoms->data.ptr->weight", key(eu, "same-atoms"), eu.where(div[0]["node"]), "the weight divided (`%s`) is not the one that was summed" % eu.canon(eu.nodes[div[0]["node"]]["ch"][0]))
    loops = [(eu.canon(eu.ch(l)[0], subst=False), eu.canon(eu.ch(l)[1], subst=False), eu.canon(eu.ch(l)[2], subst=False)) for l in eu.find("For")]
    ctx.check(j3, loops == [("rhs = rule->rhs", "rhs", "rhs = rhs->alt")] * 2, key(eu, "same-alternatives"), eu.where(eu.root), "summing and expanding do not range over the same alternatives: %s" % loops)
    z = [s for s in paths.stores(eu) if s["path"] == "norm" and s["op"] == "=" and paths.is_const(eu, s["rhs"], 0)]
    ctx.check(j3, len(z) == 1, key(eu, "norm-init"), eu.where(eu.root), "norm does not start from 0")

    # ---- J5 recursion guard and threading -------------------------------------------------------------------
    j5 = ctx.rule("GUARD.J5-recursion", "a reference to a rule already being expanded is accepted only as the last atom of its sequence and links back to that rule's own entry state; every atom's link starts where the previous atom ended", floor=8)
    links = er.calls("jsgf_add_link")
    rec_ret = [r for r in er.find("Return") if er.canon(er.ch(r)[0], subst=False) == "-2"]
    ctx.check(j5, len(rec_ret) == 1, key(er, "recursion-return"), er.where(er.root), "expected one RECURSION return")
    last_atom = lambda fn, cc, pol: paths.cond_atoms(fn, cc, pol, subst=False) == ("gn->next", False)
    on_stack = lambda fn, cc, pol: paths.cond_atoms(fn, cc, pol, subst=False) == ("subnode", True)
    for r in rec_ret:
        ctx.check(j5, paths.guarded(er, r, last_atom) and paths.guarded(er, r, on_stack), key(er, "right-recursion-only"), er.where(r), "recursion is accepted without the dominating `last atom of the sequence` test (embedded or left recursion would be compiled)")
    # right recursion through several rules: every rule between the one recursed to and the current one must itself have been
    # entered from the last position of its sequence.  The code marks a rule entered from the middle with a NULL stack entry.
    marks = [c for c in er.calls("glist_add_ptr") if er.canon(er.args(c)[0], subst=False) == "grammar->rulestack" and paths._is_zero(er, er.args(c)[1])]
    unmarks = [s_ for s_ in paths.field_stores(er, "jsgf_s", "rulestack") if "gnode_free" in er.canon(s_["rhs"], subst=False)]
    middle = lambda fn, cc, pol: paths.cond_atoms(fn, cc, pol, subst=False) == ("gn->next", True)
    exs_ = er.calls("expand_rule")
    okm = len(marks) == 1 and len(unmarks) == 1 and len(exs_) == 1 and paths.guarded(er, marks[0], middle) and paths.guarded(er, unmarks[0]["node"], middle) \
        and paths.always_before(er, exs_[0], lambda e: True) and not er.cfg.path_exists(paths.pos_of(er, marks[0]), lambda e: e == unmarks[0]["node"], is_barrier=lambda e: e == exs_[0]) \
        and paths.must_pass(er, exs_[0], lambda e: e == unmarks[0]["node"], removed_edges=set(paths.guard_edges(er, last_atom)))
    ctx.check(j5, okm, key(er, "middle-mark"), er.where(exs_[0]) if exs_ else er.where(er.root), "a rule expanded from the middle of a sequence is not bracketed by a stack mark (pushed before, popped after, both exactly when the reference is not the last atom): recursion from inside it to an enclosing rule would be taken for right recursion")
    # every reference gets an expansion of its own: a link into a rule's entry state goes to the instance being
    # expanded (right recursion, rule on the stack) or to the instance expanded for this very reference - two
    # references sharing one expansion would let a sentence enter through one and leave through the other
    for c in links:
        a_ = er.args(c)
        if len(a_) >= 4 and er.canon(a_[3], subst=False).endswith("->entry"):
            own = bool(exs_) and paths.always_before(er, c, lambda e: e in exs_)
            ctx.check(j5, paths.guarded(er, c, on_stack) or own, key(er, "own-expansion@%d" % sum(1 for c2 in links if c2 <= c)), er.where(c), "a reference is linked to `%s` without the rule being on the expansion stack (recursion) and without an expansion made for this reference: it shares the states of another reference to the same rule, and the compiled grammar accepts sentences that go in through one reference and come out after the other" % er.canon(a_[3], subst=False))
    flag = [s_ for s_ in paths.stores(er) if s_["path"] == "embedded"]
    sets = [s_ for s_ in flag if s_["rhs"] is not None and er.constval(s_["rhs"]) == 1]
    clears = [s_ for s_ in flag if s_["rhs"] is not None and er.constval(s_["rhs"]) == 0]
    # a flag declared with its cleared value (`int embedded = FALSE;`) is cleared there
    clears += [{"node": v_, "rhs": er.ch(v_)[0]} for v_ in er.find("Var") if er.nodes[v_]["name"] == "embedded" and er.ch(v_) and er.k(er.ch(v_)[0]) != "Absent" and er.constval(er.ch(v_)[0]) == 0]
    okf = len(sets) == 1 and len(clears) == 1 and paths.guarded(er, sets[0]["node"], lambda fn, cc, pol: paths.cond_atoms(fn, cc, pol, subst=False) in [(v_ + "->data.ptr", False) for v_ in scanv]) \
        and all(paths.always_before(er, c, lambda e: e == clears[0]["node"] or (er.k(e) == "Decl" and clears[0]["node"] in er.ch(e))) for c in cmp_)
    ctx.check(j5, okf, key(er, "mark-seen"), er.where(er.root), "the stack scan does not record whether it passed a mark (flag cleared before the scan, set on a NULL entry)")
    for r in rec_ret:
        ctx.check(j5, paths.guarded(er, r, lambda fn, cc, pol: paths.cond_atoms(fn, cc, pol, subst=False) == ("embedded", False)), key(er, "no-mark-between"), er.where(r), "recursion to a rule below a mark on the stack is accepted: <s> = <b> w; <b> = y <s> | z; would be compiled to y* z w")
    back = [c for c in links if paths.guarded(er, c, on_stack)]
    ctx.check(j5, len(back) == 1, key(er, "back-link"), er.where(er.root), "expected one back link in the recursion branch")
    for c in back:
        a = [er.canon(x, subst=False) for x in er.args(c)]
        ctx.check(j5, a == ["grammar", "atom", "lastnode", "subrule->entry"] and paths.guarded(er, c, last_atom), key(er, "back-link-target"), er.where(c), "recursion links (%s): it must go from the end of the sequence so far back to the entry of the rule that is being referenced (subrule->entry)" % ", ".join(a))
    sub = [s for s in paths.stores(er) if s["path"] == "subrule"]
    ctx.check(j5, len(sub) == 1 and er.canon(sub[0]["rhs"], subst=False) == "val", key(er, "subrule"), er.where(er.root), "the referenced rule is not the one looked up by name")
    fwd = [c for c in links if not paths.guarded(er, c, on_stack)]
    forms = sorted(tuple(er.canon(x, subst=False) for x in er.args(c)[:3]) + (er.canon(er.args(c)[3]).replace("val->entry", "subrule->entry"),) for c in fwd)     # the target may sit in a temporary (subrule is val)
    want = sorted([("grammar", "atom", "lastnode", "grammar->nstate"), ("grammar", "atom", "lastnode", "grammar->nstate"), ("grammar", "atom", "lastnode", "subrule->entry")])
    ctx.check(j5, forms == want, key(er, "links"), er.where(er.root), "sequence links are %s" % forms)
    # every link starts where the sequence stands, and the sequence then stands at the link's end: a fresh
    # state consumed exactly once, or the exit of the expanded rule (one step of the atom loop, path by path)
    from .. import symx, lin as _lin
    aloops = [l for l in er.find("For") + er.find("While") if any(er.nodes[c].get("callee") == "jsgf_add_link" for c in er.calls(root=l))]
    aloops = [l for l in aloops if not any(l in set(er.walk(o)) and l != o for o in aloops)]
    thr = {"fresh": None, "subrule": None}
    if len(aloops) == 1:
        for pt in symx.loop_paths(er, aloops[0], P):
            if pt.end != "next":
                continue
            cur = "lastnode"
            last = None
            nst = 0
            okp = True
            for ev_ in pt.events:
                if ev_[0] == "store" and ev_[1] == "lastnode":
                    cur = _lin.p_str(ev_[2])
                elif ev_[0] == "store" and ev_[1] == "grammar->nstate":
                    nst += 1
                    okp = okp and ev_[2] == _lin.p_add(_lin.p_atom("grammar->nstate"), _lin.p_const(1))
                elif ev_[0] == "call" and ev_[1] == "jsgf_add_link":
                    okp = okp and ev_[2][2] == cur
                    last = ev_[2][3]
            if last is None:
                continue
            if last == "grammar->nstate":
                kind = "fresh"
                okp = okp and cur == "grammar->nstate" and nst == 1
            elif last.endswith("->entry"):
                kind = "subrule"
                okp = okp and cur == last[:-len("->entry")] + "->exit" and nst == 0
            else:
                kind, okp = "fresh", False
            thr[kind] = okp if thr[kind] is None else (thr[kind] and okp)
    ctx.check(j5, thr["fresh"] is True, key(er, "thread:grammar->nstate"), er.where(er.root), "after linking to a fresh state the sequence does not continue from that state (or the state is not consumed exactly once)")
    ctx.check(j5, thr["subrule"] is True, key(er, "thread:subrule->entry"), er.where(er.root), "after linking to a rule's entry the sequence does not continue from that rule's exit")
    # sub-expansion precedes its link
    exs = er.calls("expand_rule")
    sl = [c for c in fwd if er.canon(er.args(c)[3], subst=False) == "subrule->entry"]
    ctx.check(j5, len(exs) == 1 and len(sl) == 1 and paths.always_before(er, sl[0], lambda e: e == exs[0]) and er.canon(er.args(exs[0])[1], subst=False) == "subrule", key(er, "expand-before-link"), er.where(er.root), "a rule reference is linked before (or without) expanding the referenced rule")
    ini = [s for s in paths.stores(er) if s["path"] == "lastnode" and er.canon(s["rhs"], subst=False) == "rule->entry"]
    fin = [r for r in er.find("Return") if er.canon(er.ch(r)[0], subst=False) == "lastnode"]
    ctx.check(j5, len(ini) == 1 and len(fin) == 1, key(er, "ends"), er.where(er.root), "a sequence does not start at the rule's entry and return its last state")
    # expand_rule: fresh entry/exit, alternatives join at exit
    ee = sorted((s["path"], eu.canon(s["rhs"], subst=False)) for s in paths.stores(eu) if s["path"] in ("rule->entry", "rule->exit"))
    ctx.check(j5, ee == [("rule->entry", "grammar->nstate++"), ("rule->exit", "grammar->nstate++")], key(eu, "fresh-states"), eu.where(eu.root), "rule entry/exit are %s" % ee)
    jl = eu.calls("jsgf_add_link")
    ok = len(jl) == 1 and [eu.canon(x, subst=False) for x in eu.args(jl[0])] == ["grammar", "0", "lastnode", "rule->exit"]
    if ok:
        # reachable neither when the alternative failed (-1) nor when it ended in recursion (-2): by value,
        # whether the code says if / else-if or switch
        isl = lambda fn, n_: fn.canon(n_, subst=False) == "lastnode"
        jb_ = paths.pos_of(eu, jl[0])[0]
        ok2 = all(jb_ not in eu.cfg.reachable_blocks(removed_edges=paths.edges_excluded_when(eu, isl, v_)) or not _tested(eu, isl) for v_ in (-1, -2)) and _tested(eu, isl)
    if ok and ok2:
        pass
    elif ok:
        ok = paths.guarded(eu, jl[0], lambda fn, cc, pol: paths.rel(fn, cc, pol, subst=False) in (("-2", "!=", "lastnode"), ("lastnode", "!=", "-2"))) and paths.guarded(eu, jl[0], lambda fn, cc, pol: paths.rel(fn, cc, pol, subst=False) in (("-1", "!=", "lastnode"), ("lastnode", "!=", "-1")))
    ctx.check(j5, ok, key(eu, "join"), eu.where(eu.root), "an alternative is not joined to the rule's exit exactly when it neither failed nor ended in recursion")
    rv = [eu.canon(eu.ch(r)[0], subst=False) for r in eu.find("Return")]
    ctx.check(j5, sorted(rv) == ["-1", "rule->exit"], key(eu, "returns"), eu.where(eu.root), "expand_rule returns %s" % rv)

    # ---- J4 generated rules -------------------------------------------------------------------------------
    j4 = ctx.rule("PROV.J4-internal-rules", "the rules generated for * / + and optionals are right-recursive: the recursion atom is the last atom of its alternative; optional = <NULL> | expression", floor=4)
    kl = fns["jsgf_kleene_new"]
    # the generated rule as the stores of each path build it (symx.run_paths): names of temporaries, the
    # order of independent statements and `c ? a : b` vs. if / else do not matter
    from .. import symx, lin as _lin

    def objs(pt):
        """stores of the path with every allocation renamed NEW1, NEW2, ... in order of appearance"""
        names = {}

        def ren(t):
            def r(m):
                return names.setdefault(m.group(0), "NEW%d" % (len(names) + 1))
            return symx.plain(re.sub(r'__ckd_calloc__\(1, \d+, "[^"]*", \d+\)(#\d+)?', r, t))
        return [(ren(pth), ren(_lin.p_str(v_))) for (pth, v_, n_) in pt.stores], (ren(_lin.p_str(pt.ret)) if pt.ret is not None else None)
    bad4 = {}
    seenp = set()
    for pt in symx.run_paths(kl, P):
        plus = pt.atoms.get(("nz", "plus"))
        seenp.add(plus)
        st_, ret = objs(pt)
        fin = {}
        for pth, v_ in st_:
            fin[pth] = v_
        RULE = "jsgf_define_rule(jsgf, 0, NEW1, 0)"
        SELF = "jsgf_atom_new((%s)->name, 1)" % RULE
        base = fin.get("(NEW1)->atoms")
        wantbase = "glist_add_ptr(0, jsgf_atom_new(%s, 1))" % ("atom->name" if plus else '"<NULL>"')
        if plus is None:
            bad4["base-selector"] = "the base alternative does not depend on `plus`"
        elif base != wantbase:
            bad4["base-case" if plus else "star-null"] = "base alternative of `%s` is %s, expected %s" % ("+" if plus else "*", base, wantbase)
        if fin.get("(NEW2)->atoms") != "glist_add_ptr(glist_add_ptr(0, %s), atom)" % SELF:
            if fin.get("(NEW2)->atoms") and SELF not in fin.get("(NEW2)->atoms"):
                bad4["self-reference"] = "recursion atom does not name the generated rule itself: %s" % fin.get("(NEW2)->atoms")
            else:
                bad4["recursion-last"] = "closure alternative is assembled as %s: the list prepends, so the recursion atom must be added first to end up last" % fin.get("(NEW2)->atoms")
        if fin.get("(%s)->rhs->alt" % RULE) != "NEW2":
            bad4["alt"] = "recursive alternative is not attached to the generated rule"
        if ret != SELF:
            bad4["self-reference"] = "the atom handed back is %s, not a reference to the generated rule" % ret
    if seenp != {True, False}:
        bad4["base-selector"] = "expected a `+` and a `*` case"
    for k_ in ("recursion-last", "base-case", "star-null", "base-selector", "alt", "self-reference"):
        ctx.check(j4, k_ not in bad4, key(kl, k_), kl.where(kl.root), bad4.get(k_, ""))
    op = fns["jsgf_optional_new"]
    okop, shape = True, None
    for pt in symx.run_paths(op, P):
        st_, ret = objs(pt)
        fin = dict(st_)
        shape = (fin.get("(NEW1)->alt"), fin.get("(NEW1)->atoms"), ret)
        okop = okop and shape == ("exp", 'glist_add_ptr(0, jsgf_atom_new("<NULL>", 1))', "jsgf_define_rule(jsgf, 0, NEW1, 0)")
    ctx.check(j4, okop and shape is not None, key(op, "shape"), op.where(op.root), "optional is built as %s" % (shape,))

    # ---- J6 links -> arcs -----------------------------------------------------------------------------------------
    j6 = ctx.rule("PROV.J6-arcs", "the builder turns rule-reference links into null arcs and token links into word arcs between the same states with the atom's weight, joins into null arcs of probability 1, uses the rule's entry/exit as start/final state and sizes the grammar by the states consumed", floor=6)
    # the loop over the links, path by path (symx.loop_paths): one arc per link, of the kind its atom asks for
    from .. import symx, lin as _lin
    bad6 = {}
    kinds = {"rule": 0, "token": 0, "join": 0}
    arc_loops = [l for l in bi.find("For") + bi.find("While") if any(bi.nodes[c].get("callee") in ("fsg_model_null_trans_add", "fsg_model_trans_add") for c in bi.calls(root=l))]
    if len(arc_loops) != 1:
        bad6["null-arcs"] = "expected one loop turning links into arcs (found %d)" % len(arc_loops)
    else:
        for pt in symx.loop_paths(bi, arc_loops[0], P):
            if pt.end != "next":
                continue
            lk = [v_ for (pth, v_, n_) in pt.stores if pth == "link"]
            L = _lin.p_str(lk[0]) if lk else None
            if L is None:
                # the link may be used without a variable of that name: take it from the arc's source state
                arcs0 = [c_ for c_ in pt.calls if c_[0] in ("fsg_model_null_trans_add", "fsg_model_trans_add")]
                if arcs0 and arcs0[0][1][1].endswith("->from"):
                    L = arcs0[0][1][1][:-len("->from")]
            if L is None:
                bad6["null-arcs"] = "a link is passed over without an arc"
                continue
            hasatom = pt.atoms.get(("nz", "%s->atom" % L))
            isrule = pt.atoms.get(("==", "60", "%s->atom->name[0]" % L))
            arcs = [c_ for c_ in pt.calls if c_[0] in ("fsg_model_null_trans_add", "fsg_model_trans_add", "fsg_model_tag_trans_add")]
            W = "logmath_log(lmath, %s->atom->weight)" % L
            if hasatom is None:
                bad6["token-branch"] = "a link's atom is used without testing whether it has one"
            elif hasatom is False:
                kinds["join"] += 1
                if [(c_[0], c_[1]) for c_ in arcs] != [("fsg_model_null_trans_add", ["fsg", "%s->from" % L, "%s->to" % L, "0"])]:
                    bad6["null-arcs"] = "a link without atom becomes %s, expected a null arc of probability 1 between its states" % [(c_[0], c_[1][1:]) for c_ in arcs]
            elif isrule is None:
                bad6["token-branch"] = "word arc is not under (atom present && not a rule reference)"
            elif isrule:
                kinds["rule"] += 1
                if [(c_[0], c_[1]) for c_ in arcs] != [("fsg_model_null_trans_add", ["fsg", "%s->from" % L, "%s->to" % L, W])]:
                    bad6["null-arcs"] = "a rule-reference link becomes %s, expected a null arc with the atom's weight between its states" % [(c_[0], c_[1][1:]) for c_ in arcs]
            else:
                kinds["token"] += 1
                WID = "fsg_model_word_add(fsg, %s->atom->name)" % L
                if [c_[0] for c_ in arcs] != ["fsg_model_trans_add"] or arcs[0][1][:4] != ["fsg", "%s->from" % L, "%s->to" % L, W]:
                    bad6["word-arcs"] = "a token link becomes %s, expected a word arc with the atom's weight between its states" % [(c_[0], c_[1][1:]) for c_ in arcs]
                elif arcs[0][1][4] != WID:
                    bad6["word"] = "word id is %s, not that of the link's own token" % arcs[0][1][4]
        if not all(kinds.values()) and not bad6:
            bad6["token-branch"] = "expected join, rule-reference and token links to be told apart (%s)" % kinds
    for k_ in ("null-arcs", "word-arcs", "word", "token-branch"):
        ctx.check(j6, k_ not in bad6, key(bi, k_), bi.where(bi.root), bad6.get(k_, ""))
    st = {s["path"]: bi.canon(s["rhs"], subst=False) for s in paths.stores(bi) if s["path"] in ("fsg->start_state", "fsg->final_state")}
    ctx.check(j6, st == {"fsg->start_state": "rule->entry", "fsg->final_state": "rule->exit"}, key(bi, "start-final"), bi.where(bi.root), "start/final states are %s" % st)
    ini = bi.calls("fsg_model_init")
    ctx.check(j6, len(ini) == 1 and bi.canon(bi.args(ini[0])[3], subst=False) == "grammar->nstate" and ec and paths.always_before(bi, ini[0], lambda e: e == ec[0]), key(bi, "size"), bi.where(bi.root), "grammar is not sized by the states consumed by the expansion")
    z = [s for s in paths.field_stores(bi, "jsgf_s", "nstate") if paths.is_const(bi, s["rhs"], 0)]
    ctx.check(j6, len(z) == 1 and ec and paths.always_before(bi, ec[0], lambda e: e == z[0]["node"]), key(bi, "nstate-reset"), bi.where(bi.root), "state counter is not reset before expanding")
    al = fns["jsgf_add_link"]
    st = {s["path"]: al.canon(s["rhs"], subst=False) for s in paths.stores(al) if s["path"].startswith("link->")}
    ctx.check(j6, st == {"link->from": "from", "link->to": "to", "link->atom": "atom"}, key(al, "fields"), al.where(al.root), "link is recorded as %s" % st)

    # ---- J7 scanner start conditions ------------------------------------------------------------------------------------
    j7 = ctx.rule("TABLE.J7-scanner-states", "the generated scanner's BEGIN actions agree rule by rule with jsgf_scanner.l, and a comment opened in start condition S returns to S when it closes; `;` ends a declaration", floor=8)
    lpath = os.path.join(build.REPO, "src", "jsgf_scanner.l")
    if not os.path.exists(lpath):
        raise AnalysisIncomplete("src/jsgf_scanner.l is missing")
    txt = open(lpath).read()
    parts = txt.split("\n%%\n")
    if len(parts) < 2:
        parts = re.split(r"\n%%[ \t]*\n", txt)
    rules_txt = parts[1] if len(parts) > 1 else ""
    rules = []
    for line in rules_txt.splitlines():
        if not line.strip() or line.startswith(("/*", " ", "\t")):
            continue
        m = re.match(r"^(?:<(\w+)>)?(\S+)\s*(.*)$", line)
        if not m:
            continue
        sc, pat, act = m.group(1), m.group(2), m.group(3)
        b = re.search(r"BEGIN\((\w+)\)", act)
        rules.append({"sc": sc, "pat": pat, "begin": b.group(1) if b else None})
    ys = P.fn("yylex", "jsgf_scanner.c")
    ctx.touch(ys)
    sws = [s for s in ys.find("Switch") if ys.canon(ys.ch(s)[0], subst=False) == "yy_act"]
    if len(sws) != 1:
        raise AnalysisIncomplete("yylex: action switch not found")
    body = ys.ch(sws[0])[1]
    gen = {}
    cur = None
    for stn in ys.ch(body):
        j = stn
        while ys.k(j) in ("Case", "Default"):
            cur = ys.nodes[j].get("v") if ys.k(j) == "Case" else None
            j = ys.ch(j)[-1]
        for s in paths.stores(ys, stn):
            if s["field"] == "yy_start" and cur is not None and s["rhs"] is not None:
                v = ys.nodes[ys.strip(s["rhs"])].get("cv", ys.nodes[ys.strip(s["rhs"])].get("v"))
                gen[cur] = v
    codes = {"INITIAL": 0}
    ctext = open(os.path.join(build.REPO, "src", "jsgf_scanner.c")).read()
    for m in re.finditer(r"^#define (COMMENT|DECL|DECLCOMMENT) (\d+)", ctext, re.M):
        codes[m.group(1)] = int(m.group(2))
    nb = 0
    for k, r in enumerate(rules, start=1):
        if r["begin"] is None:
            ctx.check(j7, k not in gen, "scanner:rule%d" % k, "src/jsgf_scanner.c", "generated rule %d changes the start condition but jsgf_scanner.l rule `%s` does not" % (k, r["pat"]))
            continue
        nb += 1
        want = 1 + 2 * codes.get(r["begin"], -99)
        ctx.check(j7, gen.get(k) == want, "scanner:rule%d" % k, "src/jsgf_scanner.c", "rule %d (`<%s>%s`): jsgf_scanner.l says BEGIN(%s) but the compiled scanner sets yy_start = %s" % (k, r["sc"], r["pat"], r["begin"], gen.get(k)))
    ctx.check(j7, nb >= 8 and len(codes) == 4, "scanner:table", "src/jsgf_scanner.l", "expected >= 8 start-condition changes and 3 declared start conditions")
    opens = [r for r in rules if r["pat"] == r"\/\*" and r["begin"]]
    for r in opens:
        closes = [c for c in rules if c["sc"] == r["begin"] and c["pat"] == r"\*\/"]
        ok = len(closes) == 1 and closes[0]["begin"] == (r["sc"] or "INITIAL")
        ctx.check(j7, ok, "scanner:comment@%s" % r["sc"], "src/jsgf_scanner.l", "a block comment opened in <%s> closes into <%s>: the rest of the rule body would be scanned in the wrong mode" % (r["sc"], closes[0]["begin"] if closes else "?"))
    ctx.check(j7, len(opens) == 2, "scanner:comment-rules", "src/jsgf_scanner.l", "expected comment rules for INITIAL and DECL")
    semi = [r for r in rules if r["sc"] == "DECL" and r["pat"] == ";"]
    ctx.check(j7, len(semi) == 1 and semi[0]["begin"] == "INITIAL", "scanner:semicolon", "src/jsgf_scanner.l", "`;` does not end the declaration mode")
    starters = [r for r in rules if r["sc"] == "INITIAL" and r["begin"] == "DECL"]
    ctx.check(j7, len(starters) == 5, "scanner:starters", "src/jsgf_scanner.l", "expected 5 rules entering declaration mode (header, grammar, import, public, rule name), found %d" % len(starters))

    # the link -> word transition step gives a token its word id by text: tokens that differ in letter case are
    # different words of the language (seed C05-11 looked them up in a case-folding table)
    from . import c13
    j8 = ctx.rule("TABLE.J8-word-ids", "word ids are given to tokens by exact text: every table of the grammar code keyed by word text is created case-sensitive, and fsg_model_word_id compares with strcmp", floor=1)
    c13.case_tables(ctx, ctx.P, j8)
    wi = ctx.P.fn("fsg_model_word_id", "fsg_model.c")
    ctx.touch(wi)
    cmpc = [wi.nodes[c].get("callee") for c in wi.find("Call") if wi.nodes[c].get("callee") in ("strcmp", "strcasecmp", "strncmp", "strncasecmp", "strcmp_nocase", "hash_table_lookup", "hash_table_lookup_int32")]
    ctx.check(j8, cmpc and all(c in ("strcmp", "hash_table_lookup", "hash_table_lookup_int32") for c in cmpc), "fsg_model_word_id:exact", wi.where(wi.root), "fsg_model_word_id compares labels with %s" % cmpc)
