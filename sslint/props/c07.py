"""C07 — decoding independent of chunking and buffering mode.

Decides RING (index discipline of the cepstrum ring, the feature ring and the
live dynamic-feature buffer; capacity handed to the front end), TWIN (int16 /
float32 and streaming / whole-utterance entry points agree), STATE (writers of
the utterance state, the begin-of-utterance coupling with frames consumed,
begin/end flags passed to the feature module), REWIND (refused on a wrapped
buffer, result checked, counts restored).  Not decided: equality of results
across chunkings; growth arithmetic.
"""
import re

from .. import lin, paths, ring, twin
from ..prog import AnalysisIncomplete

FIXTURES = ["ring_fx.c"]
U = "acmod.c"
AREC = "acmod_s"

MFC = ring.RingSpec("cepstrum ring", AREC, "n_mfc_alloc", cursors=["mfc_outidx"], storages=[], rows=["mfc_buf"])
FEAT = ring.RingSpec("feature ring", AREC, "n_feat_alloc", cursors=["feat_outidx"], storages=["framepos"], rows=["feat_buf"])
FEAT.index_funcs = {"calc_feat_idx"}


def live_len(fn, j):
    nd = fn.nodes[j]
    return fn.constval(j) is not None and "LIVEBUFBLOCKSIZE" in nd.get("mac", []) and fn.k(j) == "Int"


LIVE = ring.RingSpec("live feature buffer", "feat_s", None, cursors=["bufpos", "curpos"], storages=[], rows=["cepbuf"], extra_len=live_len)


def key(fn, what):
    return "%s:%s" % (fn.name, what)


def ring_rule(ctx, rid, fn, spec, allow_raw=()):
    n = 0
    for ob in ring.analyse(fn, spec):
        if ob["kind"] == "cursor-advance":
            continue
        if ob["kind"] == "cursor-exit":
            n += 1
            ctx.bad(rid, key(fn, "cursor-exit:" + ob["storage"]), fn.where(ob["node"]), "cursor `%s` of the %s may leave the function outside [0, length): an increment is not followed by its wrap on every path" % (ob["storage"], spec.name))
            continue
        idx = fn.canon(ob["index"], subst=False)
        k = key(fn, "%s[%s]" % (ob["storage"], idx))
        if (fn.name, ob["storage"], idx) in allow_raw:
            continue
        if ob["state"] == ring.N:
            ctx.ok(rid, k, fn.where(ob["node"]), "index %s in [0,len)" % idx)
        else:
            n += 1
            ctx.bad(rid, k, fn.where(ob["node"]), "%s storage `%s` is indexed with `%s`, which is %s on some path" % (spec.name, ob["storage"], idx, ring.NAMES[ob["state"]]))
    return n


def cmn_order_rule(ctx, P):
    r = ctx.rule("ORDER.cmn-after-limit", "in feat_s2mfc2feat_live the in-place mean normalisation is applied to exactly the frames that are consumed: the count and the end-of-utterance flag it is given are final (no store to *inout_ncep or endutt can follow the call), so frames handed back to the caller are not normalised twice", floor=2)
    f = P.fn("feat_s2mfc2feat_live", "feat.c")
    ctx.touch(f)
    calls = f.calls("feat_cmn")
    if not calls:
        raise AnalysisIncomplete("anchor vanished: the feat_cmn call of feat_s2mfc2feat_live")
    ctx.check(r, len(calls) == 1, "feat_s2mfc2feat_live:once", f.where(calls[0]), "the block is normalised %d times in one call" % len(calls))
    for c in calls:
      args = [f.canon(a, subst=False) for a in f.args(c)]
      for x in ("*inout_ncep", "endutt"):
        later = [s_ for s_ in paths.stores(f) if s_["path"] == x and paths.may_reach(f, c, lambda e, n_=s_["node"]: e == n_)]
        ctx.check(r, x in args and not later, "feat_s2mfc2feat_live:final:%s@%d" % (x, calls.index(c)), f.where(c), "feat_cmn is called before `%s` gets its final value (line %s): the block is normalised over more frames than are consumed, and the frames handed back are normalised again by the next call" % (x, f.line(later[0]["node"]) if later else "?"))
    live_mean_rule(ctx, P, r)


def live_mean_rule(ctx, P, r):
    """within an utterance the mean that live normalisation subtracts stays put from block to block: cmn_live
    re-estimates it only under its high-water test on the frame count, not at the end of every block (the
    block boundaries are the caller's chunking)"""
    import re as _re
    f = P.fn("cmn_live", "cmn_live.c")
    ctx.touch(f)
    writers = set()
    for g in [x for u_ in ("cmn.c", "cmn_live.c") for x in P.functions(u_) if x.file.endswith(u_)]:
        if any(s_["kind"] == "Subscript" and _re.search(r"(->|\.)cmn_mean\[", s_["path"]) for s_ in paths.stores(g)):
            writers.add(g.name)
    sites = [c for c in f.calls() if f.nodes[c].get("callee") in writers] + [s_["node"] for s_ in paths.stores(f) if s_["kind"] == "Subscript" and _re.search(r"(->|\.)cmn_mean\[", s_["path"])]
    if not sites:
        raise AnalysisIncomplete("cmn_live no longer re-estimates the mean anywhere")

    def hwm(fn, cc, pol):
        rr = paths.rel(fn, cc, pol, subst=False)
        return rr is not None and rr[1] in ("<", "<=") and rr[2].endswith("->nframe") and _re.match(r"^\d+$", rr[0]) is not None and int(rr[0]) >= 1
    for n_, c in enumerate(sites):
        ctx.check(r, paths.guarded(f, c, hwm), "cmn_live:mean-only-past-high-water#%d" % n_, f.where(c), "cmn_live re-estimates the mean here without the high-water test on the frame count: the mean subtracted from the next block then depends on where this block ended, so the features (and scores) of an utterance depend on how the caller chunks it")


def rewind_restore_rule(ctx, P):
    """a partial alignment re-reads the utterance from its start and must leave the acoustic model where the
    main search had got to: frames buffered but not yet searched (no_search) stay for the main search"""
    r = ctx.rule("PAIR.rewind-restore", "decoder_alignment saves the output position before it rewinds the acoustic model and advances it again only inside a loop bounded by that saved position; nothing else it calls advances the acoustic model", floor=3)
    f = P.fn("decoder_alignment", "decoder.c")
    ctx.touch(f)
    rw = f.calls("acmod_rewind")
    if len(rw) != 1:
        raise AnalysisIncomplete("decoder_alignment: expected one acmod_rewind (found %d)" % len(rw))
    # functions of decoder.c from which acmod_advance is reachable
    adv = {"acmod_advance"}
    grew = True
    dfs = [g for g in P.functions("decoder.c") if g.file.endswith("decoder.c")]
    while grew:
        grew = False
        for g in dfs:
            if g.name not in adv and any(g.nodes[c_].get("callee") in adv for c_ in g.calls()):
                adv.add(g.name)
                grew = True
    after = [c for c in f.calls() if f.nodes[c].get("callee") in adv and f.cfg.path_exists(paths.pos_of(f, rw[0]), lambda e, c=c: e == c)]
    if not after:
        raise AnalysisIncomplete("decoder_alignment no longer advances the acoustic model after the rewind")
    for n_, c in enumerate(after):
        cal = f.nodes[c].get("callee")
        if cal != "acmod_advance":
            ctx.bad(r, "decoder_alignment:advance-through:%s" % cal, f.where(c), "after the rewind decoder_alignment advances the acoustic model through %s, which is not bounded by the position saved before the rewind: frames that were buffered for the main search are consumed by the aligner and the main search never sees them" % cal)
            continue
        lp = f.enclosing(c, ("While", "For", "Do"))
        ok, why = False, "not in a loop"
        if lp is not None:
            cn = f.ch(lp)[{"While": 0, "For": 1, "Do": 1}[f.k(lp)]]
            rr = paths.rel(f, cn, True, subst=False)
            why = "loop condition %s" % (rr,)
            if rr is not None and rr[1] == "<" and rr[0].endswith("->output_frame"):
                L = rr[2]
                ds = [s_ for s_ in paths.stores(f) if s_["path"] == L]
                ok = len(ds) == 1 and ds[0]["rhs"] is not None and f.canon(ds[0]["rhs"], subst=False) == rr[0] and paths.always_before(f, rw[0], lambda e, n=ds[0]["node"]: e == n)
                why = "`%s` is not the output position saved once before the rewind" % L
        ctx.check(r, ok, "decoder_alignment:bounded-advance#%d" % n_, f.where(c), "the acoustic model is advanced after the rewind but %s" % why)
    ctx.check(r, True, "decoder_alignment:rewind", f.where(rw[0]), "")
    ctx.check(r, True, "decoder_alignment:advancers:%d" % len(adv), f.where(f.root), "")


def consume_all_rule(ctx, P):
    r = ctx.rule("PAIR.consume-all", "the decoder's processing entry points hand every sample to the acoustic model: acmod_process_raw / acmod_process_float32 take at most what the cepstrum ring holds per call, so each call sits in a loop that runs while the remaining count it decrements is not zero (also when the frames are only buffered)", floor=2)
    for name, inner in (("decoder_process_int16", "acmod_process_raw"), ("decoder_process_float32", "acmod_process_float32")):
        f = P.fn(name, "decoder.c")
        ctx.touch(f)
        cs = f.calls(inner)
        if not cs:
            raise AnalysisIncomplete("%s no longer calls %s" % (name, inner))
        for c in cs:
            a = f.args(c)
            cnt = f.canon(a[2], subst=False).lstrip("&") if len(a) > 2 else "?"
            lp = f.enclosing(c, ("While", "For", "Do"))
            ok = False
            while lp is not None and not ok:
                cond = {"While": 0, "For": 1, "Do": 1}[f.k(lp)]
                cn = f.ch(lp)[cond]
                if f.k(cn) != "Absent" and cnt in [f.nodes[i_]["name"] for i_ in f.walk(cn) if f.k(i_) == "DeclRef"]:
                    ok = True
                lp = f.enclosing(lp, ("While", "For", "Do"))
            ctx.check(r, ok, key(f, "%s@%d" % (inner, f.line(c))), f.where(c), "%s is called outside a loop over the remaining samples `%s`: a block longer than the cepstrum ring is cut short and the rest of the audio is dropped" % (inner, cnt))


def run(ctx):
    P = ctx.P
    cmn_order_rule(ctx, P)
    consume_all_rule(ctx, P)
    rewind_restore_rule(ctx, P)
    ac = {f.name: f for f in P.functions(U) if f.file.endswith(U)}
    need = ["acmod_process_raw", "acmod_process_float32", "acmod_process_full_raw", "acmod_process_full_float32", "acmod_process_mfcbuf", "acmod_process_cep",
            "acmod_process_full_cep", "acmod_rewind", "acmod_advance", "acmod_start_utt", "acmod_end_utt", "calc_feat_idx", "acmod_set_grow"]
    for n in need:
        if n not in ac:
            raise AnalysisIncomplete("anchor vanished: %s" % n)
        ctx.touch(ac[n])
    ft = P.fn("feat_s2mfc2feat_live", "feat.c")
    ctx.touch(ft)
    dec = {f.name: f for f in P.functions("decoder.c") if f.file.endswith("decoder.c")}

    # ---- RING ------------------------------------------------------------------------------
    r1 = ctx.rule("RING.index", "every row offset / subscript into mfc_buf, feat_buf, framepos and the live cepstrum buffer whose index derives from a ring cursor is in [0, length) on every path; every cursor increment is wrapped before the function returns", floor=10)
    for n in ("acmod_process_raw", "acmod_process_float32", "acmod_process_mfcbuf", "acmod_end_utt"):
        ring_rule(ctx, r1, ac[n], MFC)
    # whole-utterance paths fill mfc_buf linearly from 0 (nvec), outside the ring rule
    for n in ("acmod_process_cep", "acmod_advance", "acmod_rewind"):
        ring_rule(ctx, r1, ac[n], FEAT)
    for n in ("acmod_score", "acmod_flags2list", "acmod_activate_hmm"):
        if n in ac:
            ring_rule(ctx, r1, ac[n], FEAT)
    ring_rule(ctx, r1, ft, LIVE)
    # calc_feat_idx: negative-modulo repair
    cf = ac["calc_feat_idx"]
    rv = [r for r in cf.find("Return") if not paths.is_const(cf, cf.ch(r)[0], -1)]
    fi = [s for s in paths.stores(cf) if s["path"] == "feat_idx"]
    ok = len(fi) == 2 and "% acmod->n_feat_alloc" in cf.canon(fi[0]["rhs"], subst=False) and fi[1]["op"] == "+=" and cf.canon(fi[1]["rhs"], subst=False) == "acmod->n_feat_alloc" and paths.guarded(cf, fi[1]["node"], lambda fn, cc, pol: paths.rel(fn, cc, pol, subst=False) == ("feat_idx", "<", "0"))
    ctx.check(r1, ok and len(rv) == 1 and cf.canon(cf.ch(rv[0])[0], subst=False) == "feat_idx", key(cf, "wrap-repair"), cf.where(cf.root), "feature index is not reduced modulo the allocation with the negative remainder repaired")
    ctx.check(r1, lin.poly(cf, cf.nodes[cf.strip(fi[0]["rhs"])]["ch"][0], subst=False) == {("acmod->feat_outidx",): 1, ("frame_idx",): 1, ("acmod->output_frame",): -1} if fi else False, key(cf, "index-form"), cf.where(cf.root), "feature index is not feat_outidx + (frame_idx - output_frame)")
    # window guard in the live feature computation
    for c in [x for x in ft.find("Call") if ft.nodes[x].get("slot") == ["feat_s", "compute_feat"]]:
        a = ft.canon(ft.args(c)[1], subst=False)
        if a == "(fcb->cepbuf + fcb->curpos)":
            lo = paths.guarded(ft, c, lambda fn, cc, pol: paths.rel(fn, cc, pol, subst=False) == ("0", "<=", "(fcb->curpos - win)"))
            hi = paths.guarded(ft, c, lambda fn, cc, pol: (lambda r: r is not None and r[0] == "(fcb->curpos + win)" and r[1] == "<" and r[2] == "256")(paths.rel(fn, cc, pol, subst=False)))
            ctx.check(r1, lo and hi, key(ft, "window-in-place"), ft.where(c), "dynamic features are computed in place without both window bounds (curpos - win >= 0 and curpos + win < LIVEBUFBLOCKSIZE)")
    # positive control
    fx = {f.name: f for f in P.functions("fixture:ring_fx.c")}
    sub = type(ctx)(ctx.prop, ctx.tier)
    sub._known = []
    rr = sub.rule("ctl", "control")
    FX = ring.RingSpec("fixture", "fx_ring_s", "maxlen", cursors=["pos"], storages=["flags"], strided={"buf": "frame_size"})
    nb = ring_rule(sub, rr, fx["fx_ring_bad"], FX)
    ng = ring_rule(sub, rr, fx["fx_ring_good"], FX)
    ctx.control(r1, nb >= 1 and ng == 0, "fixture fx_ring_bad must be reported, fx_ring_good must not (got %d / %d)" % (nb, ng))

    # ---- capacity handed to the front end ---------------------------------------------------------
    r2 = ctx.rule("RING.capacity", "the number of frames the front end may write at ring position inptr is at most the free slots and at most the distance to the end of the ring, established by the dominating loop condition", floor=4)
    for n, cal in (("acmod_process_raw", "fe_process_int16"), ("acmod_process_float32", "fe_process_float32")):
        f = ac[n]
        for c in f.calls(cal):
            a = f.args(c)
            if f.canon(a[3], subst=False) != "(acmod->mfc_buf + inptr)":
                ctx.bad(r2, key(f, "dest"), f.where(c), "front end writes to `%s`" % f.canon(a[3], subst=False))
                continue
            K = lin.poly(f, a[4], subst=False)
            ALLOC, INP, NCEP = ("acmod->n_mfc_alloc",), ("inptr",), ("ncep",)
            wrapping = paths.guarded(f, c, lambda fn, cc, pol: paths.rel(fn, cc, pol, subst=False) == ("acmod->n_mfc_alloc", "<", "(inptr + ncep)"))
            fits = paths.guarded(f, c, lambda fn, cc, pol: paths.rel(fn, cc, pol, subst=False) == ("(inptr + ncep)", "<=", "acmod->n_mfc_alloc"))
            # D1 = free - K >= 0 ; D2 = alloc - inptr - K >= 0
            D1 = lin.p_add({NCEP: 1}, K, -1)
            D2 = lin.p_add({ALLOC: 1, INP: -1}, K, -1)
            fact = {INP: 1, NCEP: 1, ALLOC: -1}        # > 0 when wrapping, <= 0 when it fits
            def nonneg(D):
                if not D:
                    return True
                if wrapping and D == fact:
                    return True
                if fits and D == {m: -c_ for m, c_ in fact.items()}:
                    return True
                return False
            ok = nonneg(D1) and nonneg(D2)
            ctx.check(r2, ok, key(f, "capacity:" + lin.p_str(K)), f.where(c), "front end may write up to `%s` frames at ring position inptr: not provably <= free slots (ncep) and <= n_mfc_alloc - inptr under the dominating loop condition; unconsumed frames would be overwritten" % lin.p_str(K))
        acc = [s for s in paths.stores(f) if s["path"] == "acmod->n_mfc_frame" and s["op"] == "+="]
        ctx.check(r2, len(acc) == 2 and all(f.canon(s["rhs"], subst=False) == "nvec" for s in acc), key(f, "count"), f.where(f.root), "frames written are not added to n_mfc_frame")

    feat_capacity_rule(ctx, P)

    # ---- TWIN -------------------------------------------------------------------------------------
    r3 = ctx.rule("TWIN.entry-points", "the int16 and float32 entry points (streaming and whole-utterance, acoustic model and decoder level) are the same algorithm up to the front-end call", floor=3)
    def neutral(t):
        def n(x):
            if isinstance(x, str):
                for a, b in (("fe_process_int16", "fe_process_X"), ("fe_process_float32", "fe_process_X"), ("acmod_process_full_raw", "acmod_process_full_X"), ("acmod_process_full_float32", "acmod_process_full_X"),
                             ("acmod_process_raw", "acmod_process_X"), ("acmod_process_float32", "acmod_process_X")):
                    x = x.replace(a, b)
            return x
        return tuple(n(x) for x in t)
    for a_, b_, src in (("acmod_process_raw", "acmod_process_float32", ac), ("acmod_process_full_raw", "acmod_process_full_float32", ac), ("decoder_process_int16", "decoder_process_float32", dec)):
        fa, fb = src.get(a_), src.get(b_)
        if fa is None or fb is None:
            raise AnalysisIncomplete("anchor vanished: %s / %s" % (a_, b_))
        ctx.touch(fa)
        ctx.touch(fb)
        sa = set(neutral(t) for t in twin.summary(fa))
        sb = set(neutral(t) for t in twin.summary(fb))
        oa, ob = sorted(sa - sb), sorted(sb - sa)
        ctx.check(r3, not oa and not ob and len(sa) >= 4, key(fa, "twin"), fa.where(fa.root), "%s only: %s; %s only: %s" % (a_, oa[:3], b_, ob[:3]), "%d summary items agree" % len(sa))

    # ---- STATE ------------------------------------------------------------------------------------
    r4 = ctx.rule("CENSUS.utt-state", "the utterance state is written only as IDLE (create), STARTED (start), ENDED (end), STARTED->PROCESSING once input frames were consumed, and the temporary ENDED->PROCESSING mask that is restored on every path; the feature module is told begin/end of utterance from that state", floor=8)
    table = {"acmod_start_utt": ["ACMOD_STARTED"], "acmod_end_utt": ["ACMOD_ENDED"], "acmod_process_cep": ["ACMOD_PROCESSING"], "acmod_process_mfcbuf": ["ACMOD_PROCESSING", "saved_state"]}
    P.load_all()
    for f in P.repo_functions():
        ws = [s for s in paths.field_stores(f, AREC, "state")]
        if not ws:
            continue
        vals = [f.canon(s["rhs"], subst=False) for s in ws]
        if f.name in ("acmod_init", "acmod_create"):
            ctx.check(r4, all(v in ("ACMOD_IDLE", "0") for v in vals), key(f, "idle"), f.where(ws[0]["node"]), "state initialised to %s" % vals)
            continue
        ctx.check(r4, table.get(f.name) == vals, key(f, "writers"), f.where(ws[0]["node"]), "`%s` writes the utterance state as %s (table: %s)" % (f.name, vals, table.get(f.name)))
    pc = ac["acmod_process_cep"]
    ws = [s for s in paths.field_stores(pc, AREC, "state")]
    for s in ws:
        g1 = paths.guarded(pc, s["node"], lambda fn, cc, pol: paths.rel(fn, cc, pol, subst=False) == ("ACMOD_STARTED", "==", "acmod->state"))
        def consumed(fn, cc, pol):
            r = paths.rel(fn, cc, pol)
            if r is None:
                return False
            if r[1] == "<" and r[0] == "0":
                p = None
                j = fn.strip(cc)
                nd = fn.nodes[j]
                side = nd["ch"][0] if nd["op"] in (">", ">=") else nd["ch"][1]
                pl = lin.poly(fn, side)
                return pl == {("*inout_n_frames",): -1, ("orig_n_frames",): 1} or pl == {("orig_n_frames",): 1, ("*inout_n_frames",): -1}
            if r[1] == "<" and r[0] == "*inout_n_frames" and r[2] in ("orig_n_frames",):
                return True
            return False
        g2 = paths.guarded(pc, s["node"], consumed)
        ctx.check(r4, g1, key(pc, "started-only"), pc.where(s["node"]), "PROCESSING is entered from a state other than STARTED")
        ctx.check(r4, g2, key(pc, "after-consuming"), pc.where(s["node"]), "the state leaves STARTED although no input frame was consumed in this call: the feature module replicates the first frame only when it is told begin-of-utterance together with at least one frame, so a first chunk shorter than a window loses the start-of-utterance padding")
    # begin/end flags at the feature calls
    calls = pc.calls("feat_s2mfc2feat_live")
    flags = [(pc.canon(pc.args(c)[3], subst=False), pc.canon(pc.args(c)[4], subst=False)) for c in calls]
    ctx.check(r4, flags == [("(ACMOD_STARTED == acmod->state)", "0"), ("(ACMOD_STARTED == acmod->state)", "(ACMOD_ENDED == acmod->state)")], key(pc, "begin-end-flags"), pc.where(pc.root), "begin/end-of-utterance flags passed to the feature module are %s" % flags)
    # lazy reset in feat under beginutt
    lz = [s for s in paths.stores(ft) if s["path"] == "fcb->bufpos" and s["rhs"] is not None and ft.canon(s["rhs"], subst=False) == "fcb->curpos"]
    ctx.check(r4, len(lz) == 1 and paths.guarded(ft, lz[0]["node"], lambda fn, cc, pol: paths.cond_atoms(fn, cc, pol, subst=False) == ("beginutt", True)), key(ft, "lazy-reset"), ft.where(ft.root), "the live buffer is not emptied exactly under begin-of-utterance")
    rep = [l for l in ft.find("For") if "uttcep[0]" in " ".join(ft.canon(ft.args(c)[1], subst=False) for c in ft.calls("memcpy", root=l))]
    ok = len(rep) == 1 and paths.guarded(ft, rep[0], lambda fn, cc, pol: paths.cond_atoms(fn, cc, pol, subst=False) == ("beginutt", True)) and paths.guarded(ft, rep[0], lambda fn, cc, pol: paths.rel(fn, cc, pol, subst=False) == ("0", "<", "*inout_ncep"))
    ctx.check(r4, ok, key(ft, "replicate-first"), ft.where(ft.root), "first-frame replication is not under (begin-of-utterance && at least one input frame)")
    mb = ac["acmod_process_mfcbuf"]
    ws = [s for s in paths.field_stores(mb, AREC, "state")]
    if len(ws) == 2:
        mask, restore = ws
        g = paths.guarded(mb, mask["node"], lambda fn, cc, pol: paths.rel(fn, cc, pol, subst=False) == ("ACMOD_ENDED", "==", "acmod->state"))
        sv = [v for v in mb.find("Var") if mb.nodes[v]["name"] == "saved_state"]
        ok = g and len(sv) == 1 and mb.canon(mb.ch(sv[0])[0], subst=False) == "acmod->state" and paths.always_before(mb, mask["node"], lambda e: e == sv[0] or e == mb.parent[sv[0]]) and paths.must_pass(mb, mask["node"], lambda e: e == restore["node"])
        ctx.check(r4, ok, key(mb, "mask-restore"), mb.where(mask["node"]), "the temporary ENDED->PROCESSING mask is not saved before and restored on every path after the first half of a wrapped read")
    # API gate readers
    for name, want in (("decoder_start_utt", {("ACMOD_STARTED", True), ("ACMOD_PROCESSING", True)}), ("decoder_end_utt", {("ACMOD_ENDED", True), ("ACMOD_IDLE", True)})):
        f = dec.get(name)
        if f is None:
            raise AnalysisIncomplete("anchor vanished: %s" % name)
        ctx.touch(f)
        # the states in which nothing of the utterance is touched (per-state CFG reachability, see C09)
        got = set()
        work = [c for c in f.calls() if f.nodes[c].get("callee") in ("acmod_start_utt", "acmod_end_utt", "search_module_start", "search_module_finish")]
        for sv, stn in enumerate(("ACMOD_IDLE", "ACMOD_STARTED", "ACMOD_PROCESSING", "ACMOD_ENDED")):
            ex = paths.edges_excluded_when(f, lambda fn, n: fn.canon(n).endswith("->state"), sv)
            if work and not f.cfg.path_exists((f.cfg.entry, 0), lambda e: e in work, start_after=False, removed_edges=ex):
                got.add((stn, True))
        ctx.check(r4, got == want, key(f, "gate"), f.where(f.root), "%s rejects states %s, expected %s" % (name, sorted(got), sorted(want)))

    # ---- REWIND -----------------------------------------------------------------------------------
    r5 = ctx.rule("GUARD.rewind", "rewinding is refused once the feature buffer has wrapped, restores the available-frame count as consumed + available before resetting the output position, and its result is checked by the second pass", floor=4)
    rw = ac["acmod_rewind"]
    refuse = [r for r in rw.find("Return") if paths.is_const(rw, rw.ch(r)[0], -1) and paths.guarded(rw, r, lambda fn, cc, pol: paths.rel(fn, cc, pol, subst=False) == ("acmod->n_feat_alloc", "<", "acmod->output_frame"))]
    ctx.check(r5, len(refuse) == 1, key(rw, "refuse-wrapped"), rw.where(rw.root), "rewind of a wrapped (circular) feature buffer is not refused")
    nf = [s for s in paths.field_stores(rw, AREC, "n_feat_frame")]
    ok = len(nf) == 1 and lin.new_value(rw, nf[0]) == {("acmod->output_frame",): 1, ("acmod->n_feat_frame",): 1}
    ctx.check(r5, ok, key(rw, "restore-count"), rw.where(nf[0]["node"]) if nf else rw.where(rw.root), "available frames after rewind are `%s`, expected frames consumed (output_frame) + frames still available (n_feat_frame)" % (lin.p_str(lin.new_value(rw, nf[0])) if nf else "?"))
    rs = {s["path"]: rw.canon(s["rhs"], subst=False) for s in paths.stores(rw) if s["path"] != "acmod->n_feat_frame"}
    ctx.check(r5, rs == {"acmod->feat_outidx": "0", "acmod->output_frame": "0", "acmod->senscr_frame": "-1", "acmod->mgau->frame_idx": "0"}, key(rw, "reset-output"), rw.where(rw.root), "output position is reset as %s" % rs)
    if nf:
        of = [s for s in paths.field_stores(rw, AREC, "output_frame")]
        ctx.check(r5, all(not paths.may_reach(rw, s["node"], lambda e: e == nf[0]["node"]) for s in of), key(rw, "order"), rw.where(rw.root), "output_frame is reset before it was used to restore the frame count")
    sg = ac["acmod_set_grow"]
    st = [s for s in paths.field_stores(sg, AREC, "grow_feat")]
    ctx.check(r5, len(st) == 1 and sg.canon(st[0]["rhs"], subst=False) == "grow_feat", key(sg, "latch"), sg.where(sg.root), "buffering mode is not latched from the argument")
    for name in ("decoder_process_int16", "decoder_process_float32"):
        f = dec[name]
        gs = f.calls("acmod_set_grow")
        ctx.check(r5, len(gs) == 1 and f.canon(f.args(gs[0])[1], subst=False) == "1" and paths.guarded(f, gs[0], lambda fn, cc, pol: paths.cond_atoms(fn, cc, pol, subst=False) == ("no_search", True)), key(f, "grow-when-buffering"), f.where(f.root), "buffer-only processing does not switch the feature buffer to growing mode")
        fw = f.calls("search_module_forward")
        ctx.check(r5, len(fw) == 1 and paths.guarded(f, fw[0], lambda fn, cc, pol: paths.cond_atoms(fn, cc, pol, subst=False) == ("no_search", False)), key(f, "search-unless-buffering"), f.where(f.root), "search is not skipped exactly when no_search is set")


def feat_capacity_rule(ctx, P):
    """the quantity the feature ring is grown / clamped for is the quantity its
    wrap-around tests use: all comparisons of a write position against
    n_feat_alloc in acmod_process_cep are about inptr + nfeat"""
    rid = ctx.rule("RING.feat-capacity", "in acmod_process_cep the growing loop, the drop-at-end test and the two-part write test all compare the same quantity (write position + features to be produced) with the allocation, so that growing mode never reaches the branch that drops the trailing frames", floor=3)
    pc = P.fn("acmod_process_cep", "acmod.c")
    ctx.touch(pc)
    forms = []
    for (s0, d0, cc, pol) in pc.cfg.cond_edges():
        if not pol:
            continue
        r = paths.rel(pc, cc, True, subst=False)
        if r is None:
            continue
        for side, other in ((r[0], r[2]), (r[2], r[0])):
            if other == "acmod->n_feat_alloc" and "inptr" in side:
                forms.append((side, pc.line(cc)))
    want = "(inptr + nfeat)"
    ctx.check(rid, len(forms) >= 3, "acmod_process_cep:tests", pc.where(pc.root), "expected the grow loop, the drop test and the two-part test (found %d position tests)" % len(forms))
    seen = set()
    for (side, line) in forms:
        k = "acmod_process_cep:test#%d" % (len([x for x in seen if x == side]) + len(seen) + 1)
        seen.add((side, line))
        ctx.check(rid, side == want, k, "src/acmod.c:%d" % line, "this test compares `%s` with the allocation while the others use `%s`: the buffer is grown (or the write split) for a different number of frames than will be produced, and the end-of-utterance frames can be dropped" % (side, want))
    # growing happens in a loop until the write fits
    gl = [w for w in pc.find("While") if pc.calls("acmod_grow_feat_buf", root=w)]
    ctx.check(rid, len(gl) == 1 and paths.rel(pc, pc.ch(gl[0])[0], True, subst=False) == ("acmod->n_feat_alloc", "<=", want), "acmod_process_cep:grow-loop", pc.where(pc.root), "the feature buffer is not grown while inptr + nfeat >= n_feat_alloc")
