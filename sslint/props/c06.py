"""C06 — features independent of chunking and encoding.

Decides F1 (int16 and float32 paths are the same algorithm up to the sample
conversion), F2 (the scale is one exact power of two, divided on the way into
the carry-over buffer and multiplied on the way out), F3 (every advance of the
input pointer is paired with the same decrement of the sample count), F4 (no
assertion bounds a caller-supplied size by a constant), I1 (carry-over
bookkeeping: what is claimed buffered is what was copied; the compaction
offset accounts for every consumed shift), I2 (frame loop: one output frame
per iteration, counts agree with the frame-count query).  Not decided:
chunk-partition invariance and bit-identity as such (arithmetic over runtime
lengths).
"""
import re

from .. import lin, paths, twin
from ..prog import AnalysisIncomplete

U = "fe_interface.c"
SG = "fe_sigproc.c"
SEL = r"encoding"


def key(fn, what):
    return "%s:%s" % (fn.name, what)


def enc_ifs(fn):
    out = []
    for i in fn.find("If"):
        c = fn.canon(fn.ch(i)[0], subst=False)
        if c in ("(FE_FLOAT32 == encoding)", "(FE_PCM16 == encoding)"):
            fl, it = (fn.ch(i)[1], fn.ch(i)[2]) if "FLOAT32" in c else (fn.ch(i)[2], fn.ch(i)[1])
            out.append((i, fl, it))
    return out


def run(ctx):
    P = ctx.P
    fi = {f.name: f for f in P.functions(U) if f.file.endswith(U)}
    sg = {f.name: f for f in P.functions(SG) if f.file.endswith(SG)}
    helpers = ["overflow_append", "read_overflow_frame", "create_overflow_frame", "append_overflow_frame", "fe_process"]
    for n in helpers + ["output_frame_count", "fe_end", "fe_process_int16", "fe_process_float32"]:
        if n not in fi:
            raise AnalysisIncomplete("anchor vanished: %s" % n)
        ctx.touch(fi[n])
    for n in ("fe_read_frame_int16", "fe_read_frame_float32", "fe_shift_frame_int16", "fe_shift_frame_float32"):
        if n not in sg:
            raise AnalysisIncomplete("anchor vanished: %s" % n)
        ctx.touch(sg[n])

    # ---- F1 twins ----------------------------------------------------------------------
    f1 = ctx.rule("TWIN.F1-encodings", "the int16 and float32 branches / functions perform the same range copies (destination, source, count), advances, counter updates, calls and returns; only the sample conversion differs", floor=9)
    nb = 0
    summaries = {}
    for n in helpers:
        f = fi[n]
        for (i, fl, it) in enc_ifs(f):
            nb += 1
            a = twin.summary(f, fl, selector=SEL)
            b = twin.summary(f, it, selector=SEL)
            summaries[(n, i)] = (a, b)
            oa, ob = twin.compare(a, b)
            ctx.check(f1, not oa and not ob and len(a) >= 1, key(f, "branches@%d" % nb), f.where(i), "float32 branch only: %s; int16 branch only: %s" % (oa[:3], ob[:3]), "%d summary items agree" % len(a))
    ctx.check(f1, nb == 6, "fe_interface:encoding-branches", "src/fe_interface.c", "expected 6 encoding branch points (4 helpers + 2 in fe_process), found %d" % nb)
    for a_, b_ in (("fe_read_frame_int16", "fe_read_frame_float32"), ("fe_shift_frame_int16", "fe_shift_frame_float32")):
        fa, fb = sg[a_], sg[b_]
        sa, sb = twin.summary(fa, selector=r"dither|swap"), twin.summary(fb, selector=r"dither|swap")
        oa, ob = twin.compare(sa, sb)
        ctx.check(f1, not oa and not ob and any(t[0] == "RANGE" for t in sa), key(fa, "twin"), fa.where(fa.root), "%s only: %s; %s only: %s" % (a_, oa[:3], b_, ob[:3]), "%d summary items agree" % len(sa))
    wa, wb = fi["fe_process_int16"], fi["fe_process_float32"]
    ra = [wa.canon(wa.ch(r)[0], subst=False) for r in wa.find("Return")]
    rb = [wb.canon(wb.ch(r)[0], subst=False) for r in wb.find("Return")]
    ctx.check(f1, ra == ["fe_process(fe, inout_spch, inout_nsamps, buf_cep, nframes, FE_PCM16)"] and rb == ["fe_process(fe, inout_spch, inout_nsamps, buf_cep, nframes, FE_FLOAT32)"], key(wa, "wrappers"), wa.where(wa.root), "entry points forward as %s / %s" % (ra, rb))

    # ---- F2 scale --------------------------------------------------------------------------
    f2 = ctx.rule("TABLE.F2-scale", "int16 samples enter the carry-over buffer divided by, and float samples leave it multiplied by, one and the same constant, an exact power of two", floor=6)
    consts = []
    for f in list(fi.values()) + list(sg.values()):
        for i in f.find("Bin"):
            nd = f.nodes[i]
            if nd["op"] in ("/", "*"):
                for side in (0, 1):
                    o = f.strip(nd["ch"][side])
                    if f.k(o) == "Float" and "sample" in f.canon(nd["ch"][1 - side], subst=False):
                        consts.append((f, i, nd["op"], float(f.nodes[o]["v"])))
    vals = set(c[3] for c in consts)
    okp = len(vals) == 1 and list(vals)[0] > 0 and (int(list(vals)[0]) & (int(list(vals)[0]) - 1)) == 0 and float(int(list(vals)[0])) == list(vals)[0]
    ctx.check(f2, okp, "fe:scale-constant", "src/fe_interface.c", "sample scale constants are %s: a single exact power of two is required" % sorted(vals), str(sorted(vals)))
    for (f, i, op, v) in consts:
        want = "/" if f.file.endswith(U) else "*"
        ctx.check(f2, op == want, key(f, "scale@%d" % f.line(i)), f.where(i), "sample is %s by the scale here; samples are divided on the way into the carry-over buffer (fe_interface.c) and multiplied when read as float (fe_sigproc.c)" % ("multiplied" if op == "*" else "divided"))
    ctx.check(f2, len(consts) >= 6, "fe:scale-sites", "src/fe_interface.c", "expected >= 6 scaling sites (found %d)" % len(consts))

    # ---- F3 advance / count pairing ------------------------------------------------------------
    f3 = ctx.rule("PAIR.F3-consume", "every advance of the caller's sample pointer by k is paired with a decrement of the remaining-sample count by the same k (or the count is zeroed when everything was consumed): every sample is consumed exactly once", floor=8)
    for n in helpers:
        f = fi[n]
        whole = twin.summary(f, selector=SEL)
        adv = [t for t in whole if t[0] == "STORE" and t[1] == "*spch" and t[2] == "+="]
        dec = [t for t in whole if t[0] == "STORE" and t[1] == "*inout_nsamps" and t[2] in ("-=", "=")]
        for t in adv:
            k = t[3]
            ok = ("STORE", "*inout_nsamps", "-=", k) in whole
            if not ok and k == "*inout_nsamps":
                ok = ("STORE", "*inout_nsamps", "=", "0") in whole
            if not ok and n == "fe_process" and k.startswith("fe_read_frame_"):
                # first full frame: the callee returns min(len, frame_size) with len == frame_size
                ok = ("STORE", "*inout_nsamps", "-=", "fe->frame_size") in whole and "fe->frame_size)" in k
            if not ok and n == "fe_process" and k.startswith("fe_shift_frame_"):
                ok = any(d[2] == "-=" and d[3] == k for d in dec)
            ctx.check(f3, ok, key(f, "advance:" + k[:40]), f.where(f.root), "input pointer advances by `%s` but the remaining-sample count is not reduced by the same amount (decrements: %s)" % (k, [d[3] for d in dec]))
        for d in dec:
            if d[2] == "-=":
                k = d[3]
                ok = any(a[3] == k for a in adv) or (n == "fe_process" and k == "fe->frame_size")
                ctx.check(f3, ok, key(f, "count:" + k[:40]), f.where(f.root), "remaining-sample count is reduced by `%s` without advancing the input pointer by the same amount" % k)
    # callee contract used above: readers return min(len, frame_size/shift)
    for n_, lim in (("fe_read_frame_int16", "fe->frame_size"), ("fe_read_frame_float32", "fe->frame_size"), ("fe_shift_frame_int16", "fe->frame_shift"), ("fe_shift_frame_float32", "fe->frame_shift")):
        f = sg[n_]
        cl = [s for s in paths.stores(f) if s["path"] == "len" and f.canon(s["rhs"], subst=False) == lim and paths.guarded(f, s["node"], lambda fn, cc, pol, lim=lim: paths.rel(fn, cc, pol, subst=False) == (lim, "<", "len"))]
        ctx.check(f3, len(cl) == 1, key(f, "clamp"), f.where(f.root), "length is not clamped to %s" % lim)

    # ---- F4 asserts on caller-supplied sizes ----------------------------------------------------------
    f4 = ctx.rule("GUARD.F4-size-asserts", "no assertion compares a caller-supplied sample count with a constant (assert-enabled builds would abort on long single calls)", floor=1)
    PD = ctx.PD
    nas = 0
    for f in PD.functions(U):
        if not f.file.endswith(U):
            continue
        for c in f.calls("__assert_fail"):
            nas += 1
            # the asserted condition: the Cond / If guarding the call
            par = f.enclosing(c, ("Cond", "If"))
            cond = f.ch(par)[0] if par is not None else None
            txt = f.canon(cond, subst=False) if cond is not None else "?"
            r = paths.rel(f, cond, True, subst=False) if cond is not None else None
            bad = r is not None and any("inout_nsamps" in x or x == "nsamps" for x in (r[0], r[2])) and any(re.match(r"^-?\d+$", x) for x in (r[0], r[2]))
            ctx.check(f4, not bad, key(f, "assert:" + txt[:50]), f.where(c), "assert(%s) bounds a caller-supplied size by a constant: a single call with more samples aborts an assert-enabled build although the arithmetic below is size_t-safe" % txt)
    ctx.check(f4, nas >= 2, "fe_interface:asserts", "src/fe_interface.c", "assert census found %d sites in the DEBUG configuration" % nas)

    # ---- I1 carry-over bookkeeping ---------------------------------------------------------------------
    i1 = ctx.rule("PAIR.I1-carry-over", "num_overflow_samps counts exactly the samples copied into the carry-over buffer: appends land at offset num_overflow_samps and add their count; a rebuilt buffer claims what it copies and is skipped only when that count is zero; compaction shifts by (count at entry - count now), i.e. by everything consumed since entry", floor=8)
    OV, NUM = "fe->overflow_samps", "fe->num_overflow_samps"
    for n in ("overflow_append", "append_overflow_frame"):
        f = fi[n]
        s = twin.summary(f, selector=SEL)
        app = [t for t in s if t[0] == "RANGE" and t[1] == "%s + %s" % (NUM, OV)]
        ok = len(app) == 1
        if ok:
            cnt = app[0][3]
            ok = any(t[0] == "STORE" and t[1] == NUM and t[2] == "+=" and t[3] == cnt for t in s)
        ctx.check(i1, ok, key(f, "append"), f.where(f.root), "samples appended at the end of the carry-over buffer (%s) are not added to its count" % [t[3] for t in app])
    f = fi["read_overflow_frame"]
    s = twin.summary(f, selector=SEL)
    app = [t for t in s if t[0] == "RANGE" and t[1] == "%s + %s" % (NUM, OV)]
    ctx.check(i1, len(app) == 1 and app[0][3] == "fe->frame_size + -1*%s" % NUM, key(f, "complete-frame"), f.where(f.root), "the carried-over samples are not completed to exactly one frame (copied %s)" % [t[3] for t in app])
    ctx.check(i1, ("CALL", "fe_read_frame_float32", "fe", OV, "fe->frame_size") in s and ("STORE", NUM, "-=", "fe->frame_shift") in s, key(f, "consume-shift"), f.where(f.root), "the completed frame is not read from the start of the buffer / the count is not reduced by one shift")
    f = fi["create_overflow_frame"]
    s = twin.summary(f, selector=SEL)
    claim = [t for t in paths.stores(f) if t["path"] == NUM and t["op"] == "="]
    okc = len(claim) == 1 and lin.poly(f, claim[0]["rhs"], subst=False) == {("fe->frame_size",): 1, ("fe->frame_shift",): -1, ("n_overflow",): 1}
    ctx.check(i1, okc, key(f, "claim"), f.where(f.root), "rebuilt carry-over does not claim frame_size - frame_shift + n_overflow samples")
    cp = [t for t in s if t[0] == "RANGE" and t[1] == OV]
    ctx.check(i1, len(cp) == 1 and cp[0][3] == NUM and cp[0][2] == "*inout_spch + fe->frame_shift + -1*fe->frame_size", key(f, "copy=claim"), f.where(f.root), "rebuilt carry-over copies %s from %s; it must copy exactly the claimed count starting frame_size - frame_shift samples behind the input position" % ([t[3] for t in cp], [t[2] for t in cp]))
    conds = [t[1] for t in s if t[0] == "COND"]
    extra = [c for c in conds if c not in ("(0 < %s)" % NUM, "(*inout_nsamps < fe->frame_shift)") and "n_overflow" not in c or c.startswith("(0 < n_overflow") or c.startswith("(n_overflow")]
    skip = [c for c in conds if c not in ("(*inout_nsamps < fe->frame_shift)",)]
    ctx.check(i1, skip == ["(0 < %s)" % NUM], key(f, "skip-only-when-empty"), f.where(f.root), "the copy into the carry-over buffer is conditional on %s; the only admissible condition is that the claimed count is positive" % skip)
    no = [t for t in paths.stores(f) if t["path"] == "n_overflow"]
    ctx.check(i1, [f.canon(t["rhs"], subst=False) for t in no] == ["*inout_nsamps"] and any(t[0] == "STORE" and t[1] == "*inout_nsamps" and t[3] == "n_overflow" for t in s), key(f, "lookahead"), f.where(f.root), "look-ahead is not min(frame_shift, remaining samples) consumed from the input")
    f = fi["append_overflow_frame"]
    mv = f.calls("memmove")
    ok = len(mv) == 1
    if ok:
        a = f.args(mv[0])
        ok = twin.P(f, a[0], subst=False) == OV and lin.poly(f, a[1], subst=False) == {(OV,): 1, ("orig_n_overflow",): 1, (NUM,): -1} and twin.P(f, a[2], subst=False) == "4*%s" % NUM
        ok = ok and all(not paths.may_reach(f, s_["node"], lambda e: e == mv[0]) for s_ in paths.stores(f) if s_["path"] == NUM)
    ctx.check(i1, ok, key(f, "compaction"), f.where(mv[0]) if mv else f.where(f.root), "compaction is memmove(%s): the live samples start at offset (count at entry - count now), whatever number of frames was emitted" % (", ".join(f.canon(x, subst=False) for x in f.args(mv[0])) if mv else "?"))
    fp = fi["fe_process"]
    cal = fp.calls("append_overflow_frame")
    ok = len(cal) == 1
    if ok:
        a = [fp.canon(x, subst=False) for x in fp.args(cal[0])]
        on = [t for t in paths.stores(fp) if t["path"] == "orig_n_overflow"]
        os_ = [t for t in paths.stores(fp) if t["path"] == "orig_spch"]
        consumers = fp.calls({"read_overflow_frame", "fe_read_frame_float32", "fe_read_frame_int16", "fe_shift_frame_float32", "fe_shift_frame_int16"})
        ok = a[2] == "orig_spch" and a[4] == "orig_n_overflow" and len(on) == 1 and fp.canon(on[0]["rhs"], subst=False) == NUM and len(os_) == 1 and fp.canon(os_[0]["rhs"], subst=False) == "*inout_spch"
        ok = ok and all(not paths.may_reach(fp, c, lambda e: e in (on[0]["node"], os_[0]["node"])) for c in consumers) and all(paths.always_before(fp, c, lambda e: e == on[0]["node"]) for c in consumers)
        decs = [t for t in paths.stores(fp) if t["path"] == NUM]
        ok = ok and all(not paths.may_reach(fp, t["node"], lambda e: e == on[0]["node"]) for t in decs)
    ctx.check(i1, ok, key(fp, "entry-snapshot"), fp.where(fp.root), "the carry-over count and input position passed to the compaction are not the ones captured at entry, before any sample was consumed")
    g = paths.guarded(fp, cal[0], lambda fn, cc, pol: paths.rel(fn, cc, pol, subst=False) == ("0", "<", NUM)) if cal else False
    cr = fp.calls("create_overflow_frame")
    g2 = paths.guarded(fp, cr[0], lambda fn, cc, pol: paths.rel(fn, cc, pol, subst=False) == (NUM, "<=", "0")) if cr else False
    ctx.check(i1, g and g2 and len(cr) == 1, key(fp, "create-vs-append"), fp.where(fp.root), "rebuild / append of the carry-over is not selected by whether carried-over samples remain")
    fe = fi["fe_end"]
    rd = fe.calls("fe_read_frame_float32")
    z = [t for t in paths.stores(fe) if t["path"] == NUM and paths.is_const(fe, t["rhs"], 0)]
    ok = len(rd) == 1 and [fe.canon(x, subst=False) for x in fe.args(rd[0])] == ["fe", OV, NUM] and len(z) == 1 and paths.entry_must_pass(fe, lambda e: e == z[0]["node"]) and not paths.may_reach(fe, z[0]["node"], lambda e: e == rd[0])
    ok = ok and paths.guarded(fe, rd[0], lambda fn, cc, pol: paths.rel(fn, cc, pol, subst=False) == ("0", "<", NUM))
    ctx.check(i1, ok, key(fe, "flush"), fe.where(fe.root), "fe_end does not flush exactly the carried-over samples and then reset the count on every path")

    # ---- I2 frame loop -------------------------------------------------------------------------------------
    i2 = ctx.rule("PAIR.I2-frames", "the number of frames produced is 1 + (samples + carried - frame_size) / frame_shift, limited by the output space, the same formula the frame-count query uses; every frame written advances the output index once and the index is what is returned", floor=5)
    fc = [t for t in paths.stores(fp) if t["path"] == "frame_count"]
    form = fp.canon(fc[0]["rhs"], subst=False) if fc else ""
    oc = fi["output_frame_count"]
    nf = [t for t in paths.stores(oc) if t["path"] == "n_full_frames" and not paths.is_const(oc, t["rhs"], 0)]
    form2 = oc.canon(nf[0]["rhs"], subst=False).replace("nsamps", "*inout_nsamps") if nf else "?"
    def quot(fn, node, ren=None):
        for d in fn.walk(node):
            if fn.k(d) == "Bin" and fn.nodes[d]["op"] == "/":
                num = lin.poly(fn, fn.nodes[d]["ch"][0], subst=False)
                if ren:
                    num = {tuple(sorted(ren.get(a, a) for a in m)): c for m, c in num.items()}
                return (lin.p_str(num), fn.canon(fn.nodes[d]["ch"][1], subst=False), lin.p_str(lin.p_add(lin.poly(fn, node, subst=False), lin.p_atom(fn.canon(d, subst=False)), -1)))
        return None
    q1 = quot(fp, fc[0]["rhs"]) if fc else None
    q2 = quot(oc, nf[0]["rhs"], {"nsamps": "*inout_nsamps"}) if nf else None
    ctx.check(i2, q1 is not None and q1 == q2 and q1[1] == "fe->frame_shift" and q1[2] == "1" and q1[0] == "*inout_nsamps + -1*fe->frame_size + fe->num_overflow_samps", key(fp, "frame-count"), fp.where(fp.root), "frame count is `%s`, the query computes `%s`" % (form, form2))
    lim = [t for t in fc[1:] if fp.canon(t["rhs"], subst=False) == "nframes" and paths.guarded(fp, t["node"], lambda fn, cc, pol: paths.rel(fn, cc, pol, subst=False) == ("nframes", "<", "frame_count"))]
    ctx.check(i2, len(lim) == 1, key(fp, "limit"), fp.where(fp.root), "frame count is not limited to the output space")
    wr = fp.calls("fe_write_frame")
    for n_, c in enumerate(wr):
        a = fp.canon(fp.args(c)[1], subst=False)
        inc = [t for t in paths.stores(fp) if t["path"] == "outidx" and t["op"] == "++" and paths.same_block(fp, t["node"], c) and paths.pos_of(fp, t["node"])[1] > paths.pos_of(fp, c)[1]]
        ctx.check(i2, a == "buf_cep[outidx]" and len(inc) == 1, key(fp, "write%d" % n_), fp.where(c), "frame is written to `%s` without advancing the output index exactly once" % a)
    ctx.check(i2, len(wr) == 2, key(fp, "writes"), fp.where(fp.root), "expected the first-frame and the loop write")
    rets = [fp.canon(fp.ch(r)[0], subst=False) for r in fp.find("Return")]
    ctx.check(i2, "outidx" in rets, key(fp, "return"), fp.where(fp.root), "the number of frames written is not returned")
    # ---- F5 byte-swap targets --------------------------------------------------------------------------
    f5 = ctx.rule("PROV.F5-swap-target", "a float32 sample is byte-swapped in place through a byte view of that very sample: the byte pointer is a cast of the complete element address (pointer arithmetic done in float32 units, not in bytes), and for a buffer element it is the element just stored", floor=8)
    for g in list(fi.values()) + [x for x in P.functions(SG) if x.file.endswith(SG)]:
        for v in g.find("Var"):
            nd = g.nodes[v]
            if "*" not in nd.get("ct", nd.get("t", "")) or "char" not in nd.get("ct", "") or not g.ch(v):
                continue
            ini = g.strip(g.ch(v)[0], casts=False)
            uses = [u for u in g.find("Subscript") if g.k(g.strip(g.ch(u)[0])) == "DeclRef" and g.nodes[g.strip(g.ch(u)[0])].get("decl") == nd["decl"]]
            if len([u for u in uses if g.k(g.up(u)) == "Assign" and g.strip(g.ch(g.up(u))[0]) == u]) < 2:
                continue        # not a byte-exchange view
            ctx.touch(g)
            inner = g.ch(ini)[0] if g.k(ini) == "Cast" else None
            it = g.nodes[g.strip(inner, casts=False)].get("ct", g.nodes[g.strip(inner, casts=False)].get("t", "")) if inner is not None else ""
            okc = inner is not None and "float" in it and "*" in it
            ctx.check(f5, okc, key(g, "view@%d" % g.line(v)), g.where(v), "the byte view `%s` is not a cast of a float32 element address: the offset is added in bytes, so other bytes than the sample's are exchanged" % g.canon(g.ch(v)[0], subst=False, casts=True))
            if okc:
                # the element stored just before, in the same block
                b, idx = paths.pos_of(g, v)
                prev = [s_ for s_ in paths.stores(g) if s_["kind"] == "Subscript" and s_["op"] == "=" and "float" in g.nodes[s_["lhs"]].get("ct", g.nodes[s_["lhs"]].get("t", "")) and paths.always_before(g, v, lambda e, n_=s_["node"]: e == n_)]
                ij = g.strip(inner)
                if prev and not (g.k(ij) == "Un" and g.nodes[ij]["op"] == "&" and g.k(g.strip(g.ch(ij)[0])) == "DeclRef"):
                    last = max(prev, key=lambda s_: g.line(s_["node"]))
                    lb, li = g.nodes[last["lhs"]]["ch"]
                    want = lin.p_add(lin.poly(g, lb, subst=False), lin.poly(g, li, subst=False))
                    ctx.check(f5, lin.poly(g, inner, subst=False) == want, key(g, "element@%d" % g.line(v)), g.where(v), "the sample swapped is at `%s`, the one just stored is `%s`" % (g.canon(inner, subst=False), g.canon(last["lhs"], subst=False)))

    # the loop writes the frames after the first: its counter equals the number of frames already written
    # when the loop is reached (one), runs below frame_count and moves once per frame written
    from .. import symx
    lp = [l for l in fp.find("For") + fp.find("While") if fp.calls("fe_write_frame", root=l)]
    okl, whyl = len(lp) == 1, "expected one loop writing the remaining frames"
    if okl:
        cond = fp.ch(lp[0])[1] if fp.k(lp[0]) == "For" else fp.ch(lp[0])[0]
        r = paths.rel(fp, cond, True, subst=False)
        if not r or r[1] != "<" or r[2] != "frame_count":
            okl, whyl = False, "the loop does not run while its counter is below frame_count (%s)" % (r,)
        else:
            X = r[0]
            hdr = [b for b, blk in fp.cfg.blocks.items() if blk.get("term") == lp[0] and blk.get("cond") is not None]
            reach = [pt for pt in symx.run_paths(fp, P, stops={hdr[0]: "loop"}) if pt.end == "loop"] if len(hdr) == 1 else []
            if not reach:
                okl, whyl = False, "loop not reached"
            for pt in reach:
                nw = len([c_ for c_ in pt.calls if c_[0] == "fe_write_frame"])
                if pt.get(X) != lin.p_const(nw) or nw != 1:
                    okl, whyl = False, "the loop is entered with counter %s after %d frame(s) were written" % (lin.p_str(pt.get(X)), nw)
            for pt in symx.loop_paths(fp, lp[0], P):
                if pt.end != "next":
                    continue
                nw = len([c_ for c_ in pt.calls if c_[0] == "fe_write_frame"])
                if nw != 1 or pt.get(X) != lin.p_add(lin.p_atom(X), lin.p_const(1)):
                    okl, whyl = False, "an iteration writes %d frame(s) and leaves the counter at %s" % (nw, lin.p_str(pt.get(X)))
    ctx.check(i2, okl, key(fp, "loop"), fp.where(fp.root), whyl)
    # a call emits at least one frame unless it is the size query, the samples at hand (carried over + given)
    # do not make a frame, or there is no room for one: path by path over values, every path that writes no
    # frame carries one of these three reasons (a call with nothing new to give still has to drain a frame
    # that was left complete in the carry-over when the output was the limit)
    bufp = fp.params[3][0]
    reasons = {"query": 0, "short": 0, "no-room": 0}
    lazy = None
    for pt in symx.run_paths(fp, P):
        if pt.end != "exit" or any(c_[0] == "fe_write_frame" for c_ in pt.calls):
            continue
        why_ = None
        if pt.atoms.get(("nz", bufp)) is False:
            why_ = "query"
        for k_, pol in pt.atoms.items():
            if why_ or k_[0] != "<":
                continue
            E = lin.p_add(lin.p_parse(k_[1]), lin.p_parse(k_[2]), -1) if pol else lin.p_add(lin.p_add(lin.p_parse(k_[2]), lin.p_parse(k_[1]), -1), lin.p_const(1), -1)
            if pol and E == lin.p_parse("*inout_nsamps + %s + -1*fe->frame_size" % NUM):
                why_ = "short"
            elif E == lin.p_parse("-1 + %s" % fp.params[4][0]):
                why_ = "no-room"
        if why_:
            reasons[why_] += 1
        else:
            lazy = sorted("%s%s" % ("" if v_ else "not ", " ".join(k_)) for k_, v_ in pt.atoms.items())
    ctx.check(i2, lazy is None and all(reasons.values()), key(fp, "emit-when-possible"), fp.where(fp.root), "fe_process can return without writing a frame although it is not the size query, the samples at hand make a frame and there is room (path: %s): a frame left complete in the carry-over is never drained and the frame count depends on how the caller chunks and limits" % (lazy,))
    few = [r for r in fp.find("Return") if "overflow_append(" in fp.canon(fp.ch(r)[0], subst=False)]
    ctx.check(i2, len(few) == 1 and paths.guarded(fp, few[0], lambda fn, cc, pol: paths.rel(fn, cc, pol, subst=False) == ("(*inout_nsamps + %s)" % NUM, "<", "fe->frame_size")), key(fp, "short-input"), fp.where(fp.root), "input shorter than one window is not just appended to the carry-over")
