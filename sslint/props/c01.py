"""C01 — recognition results are sentences of the active grammar.

Decides the path-connectivity obligations O1..O11 of DESIGN.md §4 C01: every
history entry is created with a link that leaves the state its predecessor
entry arrived in, HMM entry carries the right predecessor index, exit choice
honours the final-state constraint, and the back-trace walks `pred`.
Not decided: that pruning keeps a path alive; completeness of the null
closure (C13); which sentence wins.
"""
import re

from .. import paths
from ..prog import AnalysisIncomplete, cbin

U = "fsg_search.c"


def key(fn, what):
    return "%s:%s" % (fn.name, what)


def entry_expr(v):
    return "fsg_history_entry_get(fsgs->history, %s)" % v


def dest_state(E):
    return "(%s->fsglink ? %s->fsglink->to_state : fsgs->fsg->start_state)" % (E, E)


def S(fn):
    """canonical name of the search object in fn: `fsgs` when it is a
    parameter, else the parameter a local `fsgs` is cast from"""
    for p in fn.params:
        if p[0] == "fsgs":
            return "fsgs"
    return fn.params[0][0]


def iter_defs(fn, node):
    """for a local used at `node`: (root forms, step forms) of all its
    definitions in the function"""
    j = fn.strip(node)
    nd = fn.nodes[j]
    if nd["k"] != "DeclRef" or nd["ref"] != "local":
        return None, None, None
    name = nd["name"]
    roots, steps = [], []
    for (dn, form) in fn.local_defs(nd["decl"]):
        if form in (None, "uninit", "param"):
            if form != "uninit":
                roots.append(form)
            continue
        if re.search(r"(?<![\w>.])%s(?![\w(])" % re.escape(name), form):
            steps.append(form)
        else:
            roots.append(form)
    return name, roots, steps


def run(ctx):
    P = ctx.P
    fns = {f.name: f for f in P.functions(U) if f.file.endswith(U)}
    need = ["fsg_search_null_prop", "fsg_search_word_trans", "fsg_search_pnode_trans", "fsg_search_pnode_exit", "fsg_search_find_exit",
            "fsg_search_hyp", "fsg_search_seg_iter", "fsg_seg_bp2itor", "fsg_search_start", "fsg_search_step", "fsg_search_hmm_prune_prop"]
    for n in need:
        if n not in fns:
            raise AnalysisIncomplete("anchor vanished: %s in %s" % (n, U))
        ctx.touch(fns[n])
        if fns[n].params[0][0] not in ("fsgs", "search", "seg"):
            raise AnalysisIncomplete("%s: first parameter renamed (%s); rule forms assume `fsgs`" % (n, fns[n].params[0][0]))
    hist = P.fn("fsg_history_entry_add", "fsg_history.c")
    ctx.touch(hist)

    # ---- O1 null propagation --------------------------------------------------------
    o1 = ctx.rule("PROV.O1-null-prop", "null propagation adds an entry whose link comes from the arc iterator opened on the state the predecessor entry arrived in (start state iff its link is NULL), with that entry's frame / index / contexts, and only for arcs with wid == -1", floor=6)
    f = fns["fsg_search_null_prop"]
    adds = f.calls("fsg_history_entry_add")
    ctx.check(o1, len(adds) == 1, key(f, "one-add"), f.where(f.root), "expected one fsg_history_entry_add in null propagation (found %d)" % len(adds))
    for c in adds:
        a = f.args(c)
        predv = f.canon(a[4], subst=False)
        E = entry_expr(predv)
        ctx.check(o1, paths.local_of(f, a[4]) is not None and f.canon(a[2]) == E + "->frame" and f.canon(a[5]) == E + "->lc" and f.canon(a[6]) == E + "->rc",
                  key(f, "pred-frame-ctx"), f.where(c), "entry added with pred `%s` but frame/contexts `%s`, `%s`, `%s` are not those of entry %s" % (predv, f.canon(a[2]), f.canon(a[5]), f.canon(a[6]), predv))
        # link provenance
        lform = f.canon(a[1])
        m = re.match(r"^fsg_arciter_get\((\w+)\)$", lform)
        ctx.check(o1, m is not None, key(f, "link-from-iterator"), f.where(c), "link argument is `%s`, not the arc the iterator yields" % lform)
        if m:
            # find the iterator variable's definitions
            lnode = f.strip(a[1])
            v = f.rd.unique_def_value(lnode) if f.k(lnode) == "DeclRef" else None
            itn = f.args(f.strip(v))[0] if v is not None and f.k(f.strip(v)) == "Call" else None
            name, roots, steps = iter_defs(f, itn) if itn is not None else (None, [], [])
            want_root = "fsg_model_arcs(fsgs->fsg, %s)" % dest_state(E)
            ctx.check(o1, roots == [want_root], key(f, "iterator-state"), f.where(c), "arc iterator is opened as %s; the path stays connected only if it is opened on the state entry `%s` arrived in: %s" % (roots, predv, want_root))
            ctx.check(o1, steps == ["fsg_arciter_next(%s)" % name], key(f, "iterator-step"), f.where(c), "arc iterator is stepped by %s" % steps)
        # only null arcs
        lname = f.canon(a[1], subst=False)
        g = paths.guarded(f, c, lambda fn, cc, pol: paths.rel(fn, cc, pol, subst=False) in (("-1", "==", lname + "->wid"), (lname + "->wid", "==", "-1")))
        ctx.check(o1, g, key(f, "null-arcs-only"), f.where(c), "a word arc can be propagated as if it were a null transition (no dominating wid == -1 test)")
        # score: link prob once (also C02)
        ctx.check(o1, f.canon(a[3]) == "((%s->logs2prob >> 10) + %s->score)" % (lform, E), key(f, "score"), f.where(c), "new entry score is `%s`" % f.canon(a[3]))
    # loop covers entries of this frame
    conds = [paths.rel(f, c, pol) for (s, d, c, pol) in f.cfg.cond_edges()]
    ctx.check(o1, any(r and r[1] == "<" and r[2] == "fsg_history_n_entries(fsgs->history)" for r in conds), key(f, "range"), f.where(f.root), "loop does not range up to the entries present when propagation starts")

    # ---- O2 cross-word transition ----------------------------------------------------------
    o2 = ctx.rule("PROV.O2-word-trans", "cross-word transition enters only lextree roots of the state the history entry arrived in, passing that entry's index as history, under the left/right context compatibility tests", floor=5)
    f = fns["fsg_search_word_trans"]
    ents = f.calls("hmm_enter")
    ctx.check(o2, len(ents) == 1, key(f, "one-enter"), f.where(f.root), "expected one hmm_enter (found %d)" % len(ents))
    for c in ents:
        a = f.args(c)
        predv = f.canon(a[2], subst=False)
        E = entry_expr(predv)
        m = re.match(r"^&(\w+)->hmm$", f.canon(a[0], subst=False))
        ctx.check(o2, m is not None and paths.local_of(f, a[2]) is not None, key(f, "target"), f.where(c), "hmm_enter(%s, .., %s, ..)" % (f.canon(a[0]), predv))
        if not m:
            continue
        rname = m.group(1)
        rootvar = [i for i in f.walk(a[0]) if f.k(i) == "DeclRef" and f.nodes[i]["name"] == rname][0]
        name, roots, steps = iter_defs(f, rootvar)
        want = "fsgs->lextree->root[%s]" % dest_state(E)
        ctx.check(o2, roots == [want], key(f, "roots-of-dest-state"), f.where(c), "roots entered are %s; a grammar path needs the roots of the state entry `%s` arrived in: %s" % (roots, predv, want))
        ctx.check(o2, steps == ["%s->sibling" % rname], key(f, "sibling-chain"), f.where(c), "root chain stepped by %s" % steps)
        ctx.check(o2, f.canon(a[1]) == "(%s->score + %s->logs2prob)" % (E, rname), key(f, "score"), f.where(c), "entry score is `%s`" % f.canon(a[1]))
        ctx.check(o2, f.canon(a[3]) == "(1 + fsgs->frame)", key(f, "next-frame"), f.where(c), "entered for frame `%s`" % f.canon(a[3]))
        # context compatibility tests
        bit = lambda arr, c_: cbin("&", "%s[%s]" % (arr, cbin(">>", c_, "5")), cbin("<<", "1", cbin("&", c_, "31")))
        lcbit = bit("%s->ctxt.bv" % rname, "%s->lc" % E)
        rcbit = bit("%s->rc.bv" % E, "%s->ci_ext" % rname)
        for nm, bit in (("lc", lcbit), ("rc", rcbit)):
            g = paths.guarded(f, c, lambda fn, cc, pol, bit=bit: paths.cond_atoms(fn, cc, pol) == (bit, True))
            ctx.check(o2, g, key(f, "ctx-" + nm), f.where(c), "transition is made without the dominating %s context test %s" % (nm, bit))

    # ---- O3 within-tree transition -------------------------------------------------------------
    o3 = ctx.rule("PROV.O3-pnode-trans", "phone transition enters only successors (succ / sibling chain) of the node whose HMM supplies the exit score and history", floor=3)
    f = fns["fsg_search_pnode_trans"]
    pn = f.params[1][0]
    for c in f.calls("hmm_enter"):
        a = f.args(c)
        m = re.match(r"^&(\w+)->hmm$", f.canon(a[0], subst=False))
        if not m:
            ctx.bad(o3, key(f, "target"), f.where(c), "hmm_enter target `%s`" % f.canon(a[0]))
            continue
        cname = m.group(1)
        var = [i for i in f.walk(a[0]) if f.k(i) == "DeclRef" and f.nodes[i]["name"] == cname][0]
        name, roots, steps = iter_defs(f, var)
        ctx.check(o3, roots == ["%s->next.succ" % pn] and steps == ["%s->sibling" % cname], key(f, "children"), f.where(c), "nodes entered are %s stepped by %s, not the successors of `%s`" % (roots, steps, pn))
        ctx.check(o3, f.canon(a[2]) == "%s->hmm.out_history" % pn, key(f, "history"), f.where(c), "history passed on is `%s`, not the exit history of the node being left" % f.canon(a[2]))
        ctx.check(o3, f.canon(a[1]) == "(%s->logs2prob + %s->hmm.out_score)" % (cname, pn) and f.canon(a[3]) == "(1 + fsgs->frame)", key(f, "score"), f.where(c), "entry score/frame `%s` / `%s`" % (f.canon(a[1]), f.canon(a[3])))
    ctx.check(o3, len(f.calls("hmm_enter")) == 1, key(f, "one-enter"), f.where(f.root), "expected one hmm_enter")

    # ---- O4 word exit -------------------------------------------------------------------------------
    o4 = ctx.rule("PROV.O4-word-exit", "a word exit records the leaf's own grammar link, exit score, exit history and context, in the current frame", floor=2)
    f = fns["fsg_search_pnode_exit"]
    pn = f.params[1][0]
    exits = f.calls("fsg_history_entry_add")
    # exactly one entry per exit, whichever way the context is chosen: every path through the function
    # passes an add, and none passes two
    once = bool(exits) and not f.cfg.path_exists((f.cfg.entry, 0), "exit", is_barrier=lambda e: e in exits, start_after=False) \
        and not any(f.cfg.path_exists(paths.pos_of(f, c), lambda e: e in exits) for c in exits)
    ctx.check(o4, once, key(f, "two-adds"), f.where(f.root), "a word exit does not add exactly one history entry on every path (%d call sites)" % len(exits))
    for n_, c in enumerate(exits):
        a = [f.canon(x) for x in f.args(c)]
        want = ["fsgs->history", "%s->next.fsglink" % pn, "fsgs->frame", "%s->hmm.out_score" % pn, "%s->hmm.out_history" % pn, "%s->ci_ext" % pn]
        ctx.check(o4, a[:6] == want and a[6] in ("ctxt", "%s->ctxt" % pn), key(f, "exit%d" % n_), f.where(c), "word exit recorded as (%s), expected (%s, ctxt)" % (", ".join(a), ", ".join(want)))
    # exits only from leaves, transitions only from non-leaves (prune_prop)
    f = fns["fsg_search_hmm_prune_prop"]
    for cal, leaf in (("fsg_search_pnode_exit", True), ("fsg_search_pnode_trans", False)):
        for c in f.calls(cal):
            pa = f.canon(f.args(c)[1], subst=False)
            g = paths.guarded(f, c, lambda fn, cc, pol: paths.cond_atoms(fn, cc, pol, subst=False) == (pa + "->leaf", leaf))
            ctx.check(o4, g, key(f, cal), f.where(c), "%s is called without the dominating leaf == %s test" % (cal, leaf))

    # ---- O7 final-state constraint ----------------------------------------------------------------------
    o7 = ctx.rule("GUARD.O7-final-state", "every store that selects the exit entry is control-dependent on (!final || to_state(link) == final_state) for the entry at the index stored; nothing selected -> -1", floor=4)
    f = fns["fsg_search_find_exit"]
    final = f.params[2][0]
    rets = [r for r in f.find("Return")]
    best = None
    for r in rets:
        d = paths.local_of(f, f.ch(r)[0])
        if d is not None and f.canon(f.ch(r)[0], subst=False) not in ("bpidx",):
            if paths.always_before(f, r, lambda e: f.k(e) == "Assign" and f.canon(f.nodes[e]["ch"][0], subst=False) == f.canon(f.ch(r)[0], subst=False)):
                best = f.canon(f.ch(r)[0], subst=False)
    if best is None:
        raise AnalysisIncomplete("fsg_search_find_exit: cannot identify the selected-exit variable")
    # what the function hands back is what was selected in this call under the constraint asked for in this call:
    # the selected-exit local, its score, or a constant - never something kept in the search object from an earlier
    # call (which may have been made with another `final`)
    for r in rets:
        rv = f.ch(r)[0] if f.ch(r) else None
        if rv is None or f.k(rv) == "Absent":
            continue
        remembered = [j for j in f.walk(rv) if f.k(j) == "Member" and re.match(r"^%s->" % re.escape(f.params[0][0]), f.canon(j, subst=False)) and not f.canon(j, subst=False).startswith("%s->history" % f.params[0][0])]
        ctx.check(o7, not remembered, key(f, "return:this-call#%d" % rets.index(r)), f.where(r), "the exit search returns `%s`, a value kept in the search object: an entry selected by an earlier call (without the final-state constraint, or before more frames were searched) is handed back as the answer to this one" % f.canon(rv, subst=False))
    sel = [s for s in paths.stores(f) if s["path"] == best]
    ninit = 0
    for s in sel:
        val = f.canon(s["rhs"], subst=False)
        if paths.is_const(f, s["rhs"], -1):
            ninit += 1
            ctx.ok(o7, key(f, best + "=-1"), f.where(s["node"]), "initial: nothing selected")
            continue
        idxv = val
        def okedge(fn, cc, pol):
            if paths.cond_atoms(fn, cc, pol, subst=False) == (final, False):
                return True
            r = paths.rel(fn, cc, pol)
            return r is not None and r[1] == "==" and set((r[0], r[2])) == {"hist_entry->fsglink->to_state", "fsgs->fsg->final_state"}
        g = paths.guarded(f, s["node"], okedge)
        ctx.check(o7, g, key(f, "%s=%s@%s" % (best, val, "tie" if paths.guarded(f, s["node"], lambda fn, cc, pol: (paths.rel(fn, cc, pol, subst=False) or (0, 0, 0))[1] == "==" and "bestscore" in fn.canon(cc, subst=False)) else "better")), f.where(s["node"]),
                  "exit entry is selected (`%s = %s`) on a path that does not pass the test (!%s || to_state == final_state): a final result could end outside the final state" % (best, val, final))
        # the entry tested is the entry at the index stored
        forms = set(x[1] for x in f.def_forms([i for i in f.walk() if f.k(i) == "DeclRef" and f.nodes[i]["name"] == "hist_entry" and paths.pos_of(f, i)[0] == paths.pos_of(f, s["node"])[0]][0] if [i for i in f.walk() if f.k(i) == "DeclRef" and f.nodes[i]["name"] == "hist_entry" and paths.pos_of(f, i)[0] == paths.pos_of(f, s["node"])[0]] else f.root)) if False else None
    ctx.check(o7, ninit == 1 and len(sel) >= 2, key(f, "stores"), f.where(f.root), "expected one initialisation to -1 and at least one guarded selection of `%s`" % best)
    # index/entry coherence: every definition of hist_entry is entry_get(history, bpidx) and bpidx is only changed right before it
    he = [s for s in paths.stores(f) if s["path"] == "hist_entry" and s["rhs"] is not None]
    forms = set(f.canon(s["rhs"], subst=False) for s in he)
    ctx.check(o7, forms == {"fsg_history_entry_get(fsgs->history, bpidx)"}, key(f, "entry-at-index"), f.where(f.root), "the entry examined is fetched as %s, not at the index that is stored" % sorted(forms))
    decs = [s for s in paths.stores(f) if s["path"] == "bpidx" and s["op"] == "--"]
    selloops = set(f.enclosing(x["node"], ("While", "For", "Do")) for x in sel if not paths.is_const(f, x["rhs"], -1))
    decs = [s for s in decs if f.enclosing(s["node"], ("While", "For", "Do")) in selloops]
    for s in decs:
        # after each decrement, the entry is refetched before the next selection store (or the loop leaves)
        selnodes = set(x["node"] for x in sel if not paths.is_const(f, x["rhs"], -1))
        refetch = set(x["node"] for x in he)
        ctx.check(o7, not f.cfg.path_exists(paths.pos_of(f, s["node"]), lambda e: e in selnodes, is_barrier=lambda e: e in refetch), key(f, "refetch-after-dec"), f.where(s["node"]), "index is decremented and an exit is selected without refetching the entry: the final-state test would apply to a different entry")
    nosel = [r for r in rets if paths.is_const(f, f.ch(r)[0], -1) and paths.guarded(f, r, lambda fn, cc, pol: paths.rel(fn, cc, pol, subst=False) in (("-1", "==", best), (best, "==", "-1")))]
    ctx.check(o7, len(nosel) == 1, key(f, "no-exit"), f.where(f.root), "no `return -1` under `%s == -1` (no hypothesis instead of a non-sentence)" % best)
    # best-of direction (also C02 ORDER): selection under score BETTER_THAN bestscore
    bs = [s for s in paths.stores(f) if s["path"] == "bestscore" and s["rhs"] is not None and not paths.is_const(f, s["rhs"])]
    for s in bs:
        g = paths.guarded(f, s["node"], lambda fn, cc, pol: paths.rel(fn, cc, pol) == ("bestscore", "<", "hist_entry->score"))
        ctx.check(o7, g and f.canon(s["rhs"]) == "hist_entry->score", key(f, "max-merge"), f.where(s["node"]), "bestscore is updated without the dominating `score > bestscore` test")

    # ---- O8 back-trace --------------------------------------------------------------------------------------
    o8 = ctx.rule("PROV.O8-backtrace", "every back-trace loop starts at the exit index, fetches the entry at the walk index, continues with that entry's pred, stops at index <= 0, and takes the word from that entry's link", floor=4)
    nloops = 0
    for fname in ("fsg_search_hyp", "fsg_search_seg_iter"):
        f = fns[fname]
        for w in f.find("While"):
            cond, body = f.ch(w)
            r = paths.rel(f, cond, True, subst=False)
            if not r or r[0] != "0" or r[1] != "<":
                continue
            walk = r[2]
            nloops += 1
            k = key(f, "loop%d" % nloops)
            # entry fetched at walk index
            vs = [v for v in f.find("Var", root=body) if f.ch(v) and f.canon(f.ch(v)[0], subst=False).startswith("fsg_history_entry_get(")]
            ok = len(vs) == 1 and f.canon(f.ch(vs[0])[0]) == "fsg_history_entry_get(%s->history, %s)" % (S(f), walk)
            ctx.check(o8, ok, k + ":fetch", f.where(w), "back-trace does not fetch the entry at its walk index `%s`" % walk)
            if not ok:
                continue
            en = f.nodes[vs[0]]["name"]
            steps = [s for s in paths.stores(f, body) if s["path"] == walk]
            ctx.check(o8, len(steps) == 1 and steps[0]["rhs"] is not None and f.canon(steps[0]["rhs"], subst=False) == "%s->pred" % en, k + ":step", f.where(w), "back-trace continues with %s, not with the predecessor of the entry just fetched" % [f.canon(s["rhs"], subst=False) if s["rhs"] is not None else s["op"] for s in steps])
            # initial value of walk: the exit index
            wd = [i for i in f.walk(cond) if f.k(i) == "DeclRef" and f.nodes[i]["name"] == walk][0]
            inits = [form for (dn, form) in f.def_forms(wd, calls=True) if form is None or "->pred" not in form]
            ctx.check(o8, inits == ["fsg_search_find_exit(%s, %s->frame, %s->final, %s)" % (S(f), S(f), S(f), "out_score" if fname == "fsg_search_hyp" else "&out_score")], k + ":start", f.where(w), "back-trace starts from %s" % inits)
            # word source
            for v in f.find("Var", root=body):
                if f.nodes[v]["name"] in ("wid",) or (f.ch(v) and "->wid" in f.canon(f.ch(v)[0])):
                    pass
            # as values at the start of the step (symx.loop_paths): the walk index may be moved on before
            # or after the word is looked at
            from .. import symx, lin as _lin8
            wantw = "(fsg_history_entry_get(%s->history, %s))->fsglink->wid" % (S(f), walk)
            gotw = set()
            for pt in symx.loop_paths(f, w, P):
                for (pth, v_, n_) in pt.stores:
                    vs_ = _lin8.p_str(v_)
                    if pth == "wid" or (vs_.endswith("->wid") and pth not in (walk,)):
                        gotw.add(vs_)
            if gotw:
                okw = any(gotw == {"(fsg_history_entry_get(%s->history, %s))->fsglink->wid" % (nm_, walk)} for nm_ in (S(f), "fsgs", "search"))
                ctx.check(o8, okw, k + ":word", f.where(w), "word is taken from `%s`, not from the link of the entry on the path" % sorted(gotw))
            hs = [s for s in paths.stores(f, body) if s["kind"] == "Subscript" and "hist" in s["path"]]
            for s in hs:
                ctx.check(o8, f.canon(s["rhs"], subst=False) == en, k + ":record", f.where(s["node"]), "segment list records `%s`, not the entry on the path" % f.canon(s["rhs"], subst=False))
    ctx.check(o8, nloops == 4, "backtrace:loops", fns["fsg_search_hyp"].where(fns["fsg_search_hyp"].root), "expected 4 back-trace loops (2 in hyp, 2 in seg_iter), found %d" % nloops)

    # ---- O9 entry creation stores parameters unmodified --------------------------------------------------------
    o9 = ctx.rule("PROV.O9-entry-fields", "fsg_history_entry_add stores its link, frame, score, pred and lc parameters unmodified into the new entry on both creation paths", floor=10)
    f = hist
    news = [s for s in paths.stores(f) if s["rec"] == "fsg_hist_entry_s" and s["path"].startswith("new_entry->")]
    per = {}
    for s in news:
        b = paths.pos_of(f, s["node"])[0]
        per.setdefault(b, {})[s["field"]] = s
    ctx.check(o9, len(per) == 2, key(f, "two-creation-paths"), f.where(f.root), "expected two creation paths (dummy entry, normal entry), found %d" % len(per))
    pmap = {"fsglink": "link", "frame": "frame", "score": "score", "pred": "pred", "lc": "lc"}
    for b, fl in per.items():
        for fld, par in pmap.items():
            s = fl.get(fld)
            ok = s is not None and f.canon(s["rhs"], subst=False) == par
            if ok:
                # parameter not reassigned before
                r = f.strip(s["rhs"])
                ok = all(dn == "param" for (dn, v) in f.rd.def_values(r))
            ctx.check(o9, ok, key(f, "B%d:%s" % (b, fld)), f.where(s["node"]) if s else f.where(f.root), "new entry's `%s` is not the unmodified `%s` parameter" % (fld, par))
    # the state bucket is the link's destination
    sdef = [s for s in paths.stores(f) if s["path"] == "s" and s["rhs"] is not None]
    ctx.check(o9, len(sdef) == 1 and f.canon(sdef[0]["rhs"], subst=False) == "link->to_state", key(f, "bucket-state"), f.where(f.root), "per-state list is selected by `%s`" % [f.canon(s["rhs"], subst=False) for s in sdef])

    # ---- O10 who may write history entries / HMM history -------------------------------------------------------------
    o10 = ctx.rule("CENSUS.O10-writers", "fields of history entries are written only by fsg_history_entry_add; HMM history slots only inside hmm.c and by the state aligner's bookkeeping", floor=3)
    P.load_all()
    allowed_hist = {"fsg_history_entry_add"}
    allowed_hmm = None
    n = 0
    for g in P.repo_functions():
        for s in paths.stores(g):
            if s["rec"] == "fsg_hist_entry_s" and s["field"] in ("fsglink", "frame", "score", "pred", "lc"):
                n += 1
                ctx.check(o10, g.name in allowed_hist, key(g, "hist." + s["field"]), g.where(s["node"]), "history entry field `%s` is written outside fsg_history_entry_add" % s["field"])
            if (s["rec"] == "hmm_s" and s["field"] == "out_history") or (s["kind"] == "Subscript" and re.search(r"(->|\.)history\[", s["path"]) and "hmm" in g.file):
                n += 1
            if s["rec"] == "hmm_s" and s["field"] == "out_history" or (s["kind"] == "Subscript" and re.search(r"(->|\.)history\[[^\]]*\]$", s["path"]) and _is_hmm_hist(g, s)):
                ctx.check(o10, g.file.endswith("hmm.c") or g.file.endswith("hmm.h") or g.name == "record_transitions", key(g, "hmm.history"), g.where(s["node"]), "HMM history slot `%s` is written outside hmm.c" % s["path"])

    # ---- O11 partial results share the exit search ----------------------------------------------------------------------
    o11 = ctx.rule("PROV.O11-final-flag", "the final/partial distinction reaches the exit search only through its `final` argument sourced from fsgs->final; final is FALSE from utterance start and TRUE only from fsg_search_finish", floor=4)
    callers = []
    for g in fns.values():
        for c in g.calls("fsg_search_find_exit"):
            callers.append((g, c))
    for g, c in callers:
        a = [g.canon(x) for x in g.args(c)]
        ctx.check(o11, a[2] == "%s->final" % S(g) or a[2] in ("0",), key(g, "final-arg"), g.where(c), "fsg_search_find_exit called with final = `%s`" % a[2])
    ctx.check(o11, len(callers) >= 2, "find_exit:callers", fns["fsg_search_find_exit"].where(fns["fsg_search_find_exit"].root), "expected >= 2 callers of the exit search")
    for g in P.repo_functions():
        for s in paths.field_stores(g, "fsg_search_s", "final"):
            v = g.canon(s["rhs"]) if s["rhs"] is not None else s["op"]
            ok = (g.name == "fsg_search_start" and v == "0") or (g.name == "fsg_search_finish" and v == "1")
            ctx.check(o11, ok, key(g, "final=" + v), g.where(s["node"]), "unexpected writer of fsgs->final (`= %s`)" % v)

    # ---- start of utterance: the root entry ---------------------------------------------------------------------------------
    o12 = ctx.rule("PROV.root-entry", "the utterance starts from one root entry (no link, frame -1, no predecessor) which is propagated through null and word transitions from index 0; each frame propagates exactly the entries created in it", floor=4)
    f = fns["fsg_search_start"]
    adds = f.calls("fsg_history_entry_add")
    ok = len(adds) == 1 and [f.canon(x) for x in f.args(adds[0])][:5] == ["%s->history" % S(f), "0", "-1", "0", "-1"]
    ctx.check(o12, ok, key(f, "root"), f.where(adds[0]) if adds else f.where(f.root), "root entry is created as (%s)" % (", ".join(f.canon(x) for x in f.args(adds[0])) if adds else "missing"))
    if adds:
        rs = f.calls("fsg_history_reset")
        ctx.check(o12, len(rs) == 1 and paths.always_before(f, adds[0], lambda e: e == rs[0]), key(f, "reset-first"), f.where(adds[0]), "history is not reset before the root entry is created")
        np_ = f.calls("fsg_search_null_prop")
        wt = f.calls("fsg_search_word_trans")
        bs = [s for s in paths.field_stores(f, "fsg_search_s", "bpidx_start")]
        ok = len(np_) == 1 and len(wt) == 1 and len(bs) == 1 and paths.is_const(f, bs[0]["rhs"], 0) and paths.may_reach(f, adds[0], lambda e: e == np_[0]) and paths.may_reach(f, np_[0], lambda e: e == wt[0]) and paths.always_before(f, np_[0], lambda e: e == bs[0]["node"])
        ctx.check(o12, ok, key(f, "propagate-root"), f.where(f.root), "root entry is not propagated (bpidx_start = 0; null_prop; word_trans) in that order")
    f = fns["fsg_search_step"]
    bs = [s for s in paths.field_stores(f, "fsg_search_s", "bpidx_start")]
    order = [f.calls(n_) for n_ in ("fsg_search_hmm_prune_prop", "fsg_search_null_prop", "fsg_search_word_trans")]
    ok = len(bs) == 1 and f.canon(bs[0]["rhs"]) == "fsg_history_n_entries(%s->history)" % S(f) and all(len(o) == 1 for o in order)
    if ok:
        seq = [bs[0]["node"], order[0][0], order[1][0], order[2][0]]
        ok = all(paths.always_before(f, seq[i + 1], lambda e, i=i: e == seq[i]) for i in range(3))
        ef = f.calls("fsg_history_end_frame")
        # survivors made permanent after exits and after null propagation, before word transitions
        ok = ok and len(ef) == 2 and paths.always_before(f, order[1][0], lambda e: e == ef[0]) and paths.always_before(f, order[2][0], lambda e: e == ef[1]) and paths.always_before(f, ef[1], lambda e: e == order[1][0])
    ctx.check(o12, ok, key(f, "frame-order"), f.where(f.root), "per-frame order must be: mark bpidx_start; prune/exit; end_frame; null_prop; end_frame; word_trans")
    incs = [s for s in paths.field_stores(f, "fsg_search_s", "frame")]
    ctx.check(o12, len(incs) == 1 and incs[0]["op"] == "++" and paths.entry_must_pass(f, lambda e: e == incs[0]["node"]), key(f, "frame++"), f.where(f.root), "frame counter is not advanced exactly once per step")
    extra_rules(ctx, P, fns)
    # the active grammar of a JSGF text is what its compilation yields: a compilation that lets two references to a
    # rule share one expansion accepts cross-combinations, and what is reported is then a sentence of the compiled
    # automaton but not of the grammar that was given (seed C01-10)
    from . import c05
    from ..report import Only
    c05.run(Only(ctx, ("GUARD.J5-recursion",)))


def _is_hmm_hist(g, s):
    lhs = g.nodes[s["lhs"]]
    b = g.strip(lhs["ch"][0])
    nd = g.nodes[b]
    return nd["k"] == "Member" and nd.get("rec") == "hmm_s" and nd["field"] == "history"


def extra_rules(ctx, P, fns):
    # ---- O13 no hypothesis instead of a stale / non-sentence one ---------------------------------
    o13 = ctx.rule("GUARD.O13-no-exit-null", "when the exit search finds no entry (index <= 0) the hypothesis and segmentation functions return NULL; a hypothesis string is returned only after it was rebuilt in this call", floor=4)
    for fname in ("fsg_search_hyp", "fsg_search_seg_iter"):
        f = fns[fname]
        sv = S(f)
        noexit = lambda fn, c, pol: (lambda r: r is not None and r[1] == "<=" and r[2] == "0" and "fsg_search_find_exit(" in r[0])(paths.rel(fn, c, pol, calls=True) if False else _rel_calls(fn, c, pol))
        rets = f.find("Return")
        early = [r for r in rets if paths.guarded(f, r, noexit)]
        ctx.check(o13, len(early) == 1, key(f, "no-exit-return"), f.where(f.root), "expected one return under `exit index <= 0` (found %d)" % len(early))
        for r in early:
            ctx.check(o13, paths.is_const(f, f.ch(r)[0], 0), key(f, "no-exit-null"), f.where(r), "with no surviving exit the function returns `%s` instead of NULL (a stale or partial non-sentence could be reported)" % f.canon(f.ch(r)[0], subst=False))
        for r in rets:
            if r in early or paths.is_const(f, f.ch(r)[0], 0):
                continue
            # every other return happens after the index > 0 test
            ok = paths.guarded(f, r, lambda fn, c, pol: (lambda q: q is not None and q[1] == "<" and q[0] == "0" and "fsg_search_find_exit(" in q[2])(_rel_calls(fn, c, pol)))
            ctx.check(o13, ok, key(f, "result-needs-exit:%s" % f.canon(f.ch(r)[0], subst=False)[:30]), f.where(r), "a result is returned without the dominating `exit index > 0` test")
            rv = f.canon(f.ch(r)[0], subst=False)
            if rv.endswith("->hyp_str"):
                sts = [s["node"] for s in paths.stores(f) if s["field"] == "hyp_str"]
                ctx.check(o13, paths.always_before(f, r, lambda e: e in sts), key(f, "hyp-rebuilt"), f.where(r), "the hypothesis string returned was not rebuilt in this call")
    # ---- O14 index width ----------------------------------------------------------------------------------------
    o14 = ctx.rule("TABLE.O14-index-width", "fields that carry history-table indices, frames and scores are at least 32 bits wide (the table can hold more than 2^15 entries in one utterance)", floor=5)
    want = [("fsg_hist_entry_s", "pred"), ("fsg_hist_entry_s", "frame"), ("fsg_hist_entry_s", "score"), ("hmm_s", "history"), ("hmm_s", "out_history"), ("fsg_search_s", "bpidx_start")]
    for rec, fld in want:
        if rec not in P.records:
            raise AnalysisIncomplete("anchor vanished: struct %s" % rec)
        fl = {x[0]: x[2] for x in P.records[rec]["fields"]}
        if fld not in fl:
            raise AnalysisIncomplete("anchor vanished: field %s.%s" % (rec, fld))
        base = re.sub(r"\s*\[.*$", "", fl[fld])
        ctx.check(o14, base in ("int", "unsigned int", "long", "unsigned long", "long long"), "%s.%s" % (rec, fld), P.records[rec]["file"].split("/repo/")[-1], "`%s.%s` is declared `%s`: indices / frames / scores beyond 16 bits are truncated silently" % (rec, fld, fl[fld]), fl[fld])
    for name in ("fsg_history_entry_add", "fsg_history_entry_get", "fsg_history_n_entries"):
        g = P.fn(name, "fsg_history.c")
        for pr in g.params:
            if pr[0] in ("pred", "id", "frame", "score"):
                ctx.check(o14, pr[3] in ("int", "long"), "%s(%s)" % (name, pr[0]), g.where(g.root), "parameter `%s` of %s is `%s`" % (pr[0], name, pr[3]))
        if name != "fsg_history_entry_add":
            ctx.check(o14, g.ret in ("int", "long", "struct fsg_hist_entry_s *"), "%s:ret" % name, g.where(g.root), "%s returns `%s`" % (name, g.ret))

    # ---- O15 the tree of one state shares nodes with no other state's ------------------------------------------
    o15 = ctx.rule("SCOPE.O15-roots-per-state", "the table by which psubtree_add_trans reuses root nodes (keyed by a word's first two phones) lives for one call of fsg_psubtree_init, that is for one source state: a word is only ever attached under roots built for its own state, so a history entry that ends in a state can only enter words that leave that state", floor=2)
    li = P.fn("fsg_psubtree_init", "fsg_lextree.c")
    ctx.touch(li)
    adds = li.calls("psubtree_add_trans")
    if not adds:
        raise AnalysisIncomplete("fsg_psubtree_init no longer calls psubtree_add_trans")
    for n_, c in enumerate(adds):
        a = li.strip(li.args(c)[2])
        tgt = li.strip(li.ch(a)[0]) if li.k(a) == "Un" and li.nodes[a]["op"] == "&" else None
        local = tgt is not None and li.k(tgt) == "DeclRef" and li.nodes[tgt].get("ref") == "local"
        fresh = False
        if local:
            nm = li.nodes[tgt]["name"]
            inits = [v for v in li.find("Var") if li.nodes[v].get("name") == nm]
            sts = [s_ for s_ in paths.stores(li) if s_["path"] == nm and s_["node"] not in inits]
            fresh = len(inits) == 1 and ((li.ch(inits[0]) and paths._is_zero(li, li.ch(inits[0])[0])) or any(s_["rhs"] is not None and paths._is_zero(li, s_["rhs"]) and paths.always_before(li, c, lambda e, n=s_["node"]: e == n) for s_ in sts)) and all(s_["rhs"] is not None and paths._is_zero(li, s_["rhs"]) for s_ in sts)
        ctx.check(o15, local and fresh, "fsg_psubtree_init:root-table#%d" % n_, li.where(c), "the root-reuse table handed to psubtree_add_trans (`%s`) is not a table that starts empty in this call of fsg_psubtree_init: roots built for one state are reused for words leaving another, and a path can continue from a state with a word that does not leave it" % li.canon(li.args(c)[2], subst=False))
    lx = P.fn("fsg_lextree_init", "fsg_lextree.c")
    ctx.touch(lx)
    ci = lx.calls("fsg_psubtree_init")
    okr = len(ci) == 1
    if okr:
        par = lx.up(ci[0])
        while par is not None and lx.k(par) in ("Paren", "ICast", "Cast"):
            par = lx.parent[par]
        okr = par is not None and lx.k(par) == "Assign" and re.match(r"^lextree->root\[(\w+)\]$", lx.canon(lx.ch(par)[0], subst=False)) is not None and lx.canon(lx.args(ci[0])[2], subst=False) == re.match(r"^lextree->root\[(\w+)\]$", lx.canon(lx.ch(par)[0], subst=False)).group(1)
    ctx.check(o15, okr, "fsg_lextree_init:root-of-state", lx.where(ci[0]) if ci else lx.where(lx.root), "root[s] is not the tree fsg_psubtree_init builds for state s")
    # words are told from fillers by their place in the dictionary (dict_filler_word / dict_real_word compare the
    # id with [filler_start, filler_end]): run-time words are appended behind that range, so the range is fixed
    # by the constructor.  A later write would turn words already added into fillers - dropped from the
    # hypothesis, looped on every grammar state (seed C01-11)
    o16 = ctx.rule("CENSUS.O16-filler-range", "the filler range of the dictionary (filler_start, filler_end), by which hypothesis words are told from fillers, is written by the dictionary constructor only", floor=2)
    P.load_all()
    nw = 0
    for g in P.functions():
        if not g.file.startswith("/repo/") and "/src/" not in g.file:
            continue
        for fld in ("filler_start", "filler_end"):
            for st in paths.stores(g):
                if st.get("field") == fld and "dict" in (st.get("rec") or ""):
                    nw += 1
                    ctx.touch(g)
                    ctx.check(o16, g.name == "dict_init_s3file", "%s:write:%s" % (g.name, fld), g.where(st["node"]), "`%s` is written in %s: words added to the dictionary before this point that now fall inside the range become fillers (left out of the hypothesis, given self-loops on every grammar state)" % (g.canon(st["lhs"], subst=False), g.name))
    ctx.check(o16, nw >= 2, "census:filler-range-writers", "src", "writers of the filler range not found (%d)" % nw)


def _rel_calls(fn, cond, pol):
    """like paths.rel, with provenance through the exit-search call"""
    j = fn.strip(cond)
    nd = fn.nodes[j]
    if nd["k"] == "Un" and nd["op"] == "!":
        return _rel_calls(fn, nd["ch"][0], not pol)
    if nd["k"] != "Bin" or nd["op"] not in ("<", ">", "<=", ">=", "==", "!="):
        return None
    a = fn.canon(nd["ch"][0], calls=True)
    b = fn.canon(nd["ch"][1], calls=True)
    op = nd["op"]
    if not pol:
        op = {"<": ">=", ">": "<=", "<=": ">", ">=": "<", "==": "!=", "!=": "=="}[op]
    if op == ">":
        a, b, op = b, a, "<"
    elif op == ">=":
        a, b, op = b, a, "<="
    return (a, op, b)
