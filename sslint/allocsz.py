"""ALLOCSZ: allocation size vs pointee type.

For every ckd_calloc / ckd_malloc / ckd_realloc (and libc equivalents) whose
result initialises a `T *` with sizeof(T) > 1, the byte size in polynomial
normal form must contain sizeof(T) as a factor of at least one term.  A size
with no such term (e.g. strlen(s) bytes for an array of 2-byte ids) cannot
hold the elements the pointer type promises.
"""
import re

from . import lin

BUILTIN = {"char": 1, "signed char": 1, "unsigned char": 1, "short": 2, "unsigned short": 2, "int": 4, "unsigned int": 4, "long": 8, "unsigned long": 8,
           "long long": 8, "unsigned long long": 8, "float": 4, "double": 8, "_Bool": 1}
ALLOCS = {"__ckd_calloc__": ("n", 0, 1), "__ckd_malloc__": ("s", 0), "__ckd_realloc__": ("s", 1), "calloc": ("n", 0, 1), "malloc": ("s", 0), "realloc": ("s", 1)}


def pointee_size(prog, ctype):
    t = ctype.strip()
    if not t.endswith("*"):
        return None
    t = t[:-1].strip()
    t = re.sub(r"\bconst\b|\bvolatile\b", "", t).strip()
    if t.endswith("*"):
        return 8
    if t in BUILTIN:
        return BUILTIN[t]
    m = re.match(r"^(?:struct|union) (\w+)$", t)
    if m and m.group(1) in prog.records:
        return prog.records[m.group(1)].get("size")
    if t in prog.records:
        return prog.records[t].get("size")
    return None


def sites(fn):
    """(call_node, lhs_ctype, lhs_text, size_poly)"""
    out = []
    for c in fn.calls(set(ALLOCS)):
        spec = ALLOCS[fn.nodes[c]["callee"]]
        a = fn.args(c)
        if spec[0] == "n":
            size = lin.p_mul(lin.poly(fn, a[spec[1]], subst=False), lin.poly(fn, a[spec[2]], subst=False))
        else:
            size = lin.poly(fn, a[spec[1]], subst=False)
        # where does the result go?
        par = fn.up(c, casts=True)
        lhs_t, lhs_s = None, None
        if par is not None and fn.k(par) == "Assign" and c in list(fn.walk(fn.nodes[par]["ch"][1])):
            l = fn.strip(fn.nodes[par]["ch"][0])
            lhs_t = fn.nodes[l].get("ct", fn.nodes[l].get("t"))
            lhs_s = fn.canon(l, subst=False)
        elif par is not None and fn.k(par) == "Var":
            lhs_t = fn.nodes[par].get("ct")
            lhs_s = fn.nodes[par]["name"]
        if lhs_t is None:
            continue
        out.append((c, lhs_t, lhs_s, size))
    return out


def check(prog, fn):
    """yields (call, lhs, elem_size, size_poly, ok)"""
    for (c, t, lhs, size) in sites(fn):
        es = pointee_size(prog, t)
        if es is None or es <= 1:
            continue
        ok = any(co % es == 0 for co in size.values())
        yield (c, lhs, es, size, ok)
