"""Generic forward must-dataflow over the CFG with branch-edge refinement."""
from collections import deque


def must_forward(fn, init, transfer, edge=None, cap=20000, meet=None):
    """transfer(state:frozenset, elem) -> frozenset
    edge(state, cond_node, polarity) -> frozenset or None (edge infeasible)
    Returns (IN, at) where at(node) is the state just before `node`."""
    cfg = fn.cfg
    IN = {b: None for b in cfg.blocks}
    IN[cfg.entry] = frozenset(init)
    econd = {}
    for (s, d, c, pol) in cfg.cond_edges():
        econd.setdefault((s, d), []).append((c, pol))

    def out_of(b, upto=None):
        st = IN[b]
        if st is None:
            return None
        for e in cfg.blocks[b]["elems"]:
            if e < 0:
                continue
            if upto is not None and e == upto:
                return st
            st = transfer(st, e)
        return st

    wl = deque([cfg.entry])
    n = 0
    while wl:
        b = wl.popleft()
        n += 1
        if n > cap:
            break
        o = out_of(b)
        if o is None:
            continue
        for s in cfg.succs[b]:
            if s is None:
                continue
            st = o
            conds = econd.get((b, s), [])
            if edge is not None and len(conds) == 1 and cfg.succs[b].count(s) == 1:
                st = edge(o, conds[0][0], conds[0][1])
                if st is None:
                    continue
            new = st if IN[s] is None else (meet(IN[s], st) if meet is not None else (IN[s] & st))
            if IN[s] is None or new != IN[s]:
                IN[s] = new
                wl.append(s)

    def at(node):
        pos = cfg.position(node)
        if pos is None:
            return None
        b, idx = pos
        st = IN[b]
        if st is None:
            return None
        els = cfg.blocks[b]["elems"]
        for j in range(min(idx, len(els))):
            e = els[j]
            if e >= 0:
                st = transfer(st, e)
        return st

    return IN, at
