"""Obligation bookkeeping, known findings, evidence and exit codes."""
import json
import os
import sys
import time

from .build import VERIF, AnalysisIncomplete

# scratch analyses (self-test, seeded and benign edits) keep their evidence out of /verif/evidence
EVIDENCE_DIR = os.environ.get("SS_EVIDENCE") or os.path.join(VERIF, "evidence")
KNOWN = os.path.join(VERIF, "known_findings.json")


class Only:
    """view of a context through which another property's rule set is run for a few of its rules only: the
    clauses named in `only` are necessary conditions of this property too (a seeded change showed the
    dependency), every other rule of the borrowed module is evaluated and dropped"""

    def __init__(self, ctx, only):
        self._ctx = ctx
        self._only = set(only)
        self._dropped = set()

    def __getattr__(self, name):
        return getattr(self._ctx, name)

    def rule(self, rid, desc, floor=0):
        if rid in self._only:
            return self._ctx.rule(rid, desc, floor)
        self._dropped.add(rid)
        return rid

    def ok(self, rid, *a, **k):
        if rid not in self._dropped:
            self._ctx.ok(rid, *a, **k)

    def bad(self, rid, *a, **k):
        if rid not in self._dropped:
            self._ctx.bad(rid, *a, **k)

    def check(self, rid, cond, *a, **k):
        if rid not in self._dropped:
            return self._ctx.check(rid, cond, *a, **k)
        return cond

    def control(self, rid, *a, **k):
        if rid not in self._dropped:
            self._ctx.control(rid, *a, **k)

    def missing(self, msg):
        # an anchor of a dropped rule is not this property's business; one of a kept rule is
        self._ctx.missing(msg)


class Ctx:
    def __init__(self, prop, tier, seed=0):
        self.prop = prop
        self.tier = tier
        self.seed = seed
        self.t0 = time.time()
        self.rules = {}          # rule id -> dict
        self.order = []
        self.violations = []     # dict(rule,key,where,what)
        self.known_hits = []
        self.incomplete = []
        self.controls = []
        self.notes = []
        self.assumptions = []
        self.units = set()
        self.functions = set()
        self._known = None
        self.P = None
        self._PD = None

    # ---- programs ----------------------------------------------------------
    @property
    def PD(self):
        if self._PD is None:
            from .prog import Program
            self._PD = Program("DEBUG")
        return self._PD

    # ---- rules ---------------------------------------------------------------
    def rule(self, rid, desc, floor=0):
        if rid not in self.rules:
            self.rules[rid] = {"desc": desc, "floor": floor, "n": 0, "ok": 0, "known": 0, "viol": 0, "samples": []}
            self.order.append(rid)
        return rid

    def touch(self, fn):
        self.units.add(fn.unit)
        self.functions.add(fn.name)

    def ok(self, rid, key, where, detail=""):
        r = self.rules[rid]
        r["n"] += 1
        r["ok"] += 1
        if len(r["samples"]) < 4:
            r["samples"].append({"key": key, "where": where, "detail": detail[:300], "result": "discharged"})

    def bad(self, rid, key, where, what, fn=None):
        """a violated obligation.  key identifies the instance independent of
        line numbers (function + anchor)."""
        r = self.rules[rid]
        r["n"] += 1
        kf = self.match_known(rid, key)
        rec = {"rule": rid, "key": key, "where": where, "what": what}
        if kf is not None:
            r["known"] += 1
            self.known_hits.append((rec, kf))
            if len(r["samples"]) < 6:
                r["samples"].append({"key": key, "where": where, "detail": what[:300], "result": "known-finding"})
        else:
            r["viol"] += 1
            self.violations.append(rec)
            r["samples"].insert(0, {"key": key, "where": where, "detail": what[:300], "result": "VIOLATION"})

    def check(self, rid, cond, key, where, what_bad, detail_ok=""):
        if cond:
            self.ok(rid, key, where, detail_ok)
        else:
            self.bad(rid, key, where, what_bad)
        return cond

    def missing(self, msg):
        """analysis-incomplete (exit 2): vanished anchor, floor not met, cap"""
        self.incomplete.append(msg)

    def control(self, rid, fired, what):
        self.controls.append({"rule": rid, "fired": bool(fired), "what": what})
        if not fired:
            self.incomplete.append("positive control of rule %s did not fire: %s" % (rid, what))

    # ---- known findings -------------------------------------------------------
    def known(self):
        if self._known is None:
            self._known = []
            if os.path.exists(KNOWN):
                with open(KNOWN) as f:
                    self._known = json.load(f)["findings"]
        return self._known

    def match_known(self, rid, key):
        for kf in self.known():
            if kf.get("status", "known") != "known":
                continue
            if self.prop not in kf["property"].split(","):
                continue
            if kf["rule"] == rid and kf["key"] == key:
                return kf
        return None

    # ---- finish ----------------------------------------------------------------
    # ---- restructured functions -------------------------------------------------------------
    def drifted(self):
        """functions whose body is no longer the one the rules were confirmed against, because code was moved
        between it and functions that did not exist then: {name: reason}.  The rules read such a function with
        the new helper's body presented at the call (inline.py); where that presentation and a rule disagree
        the rule's verdict is not trusted either way."""
        out = {}
        try:
            from .prog import _anchors
            A = _anchors()
            progs = [p for p in (self.P, self._PD) if p is not None]
            for P in progs:
                for u, d in P.units.items():
                    if u.startswith("fixture:"):
                        continue
                    known = set(k.split(":", 1)[1] for k in A["functions"] if k.startswith(u + ":")) if A else None
                    for fd in d.get("functions", []):
                        why = []
                        if fd.get("inlined"):
                            why.append("code moved into new helper(s) %s" % ", ".join(sorted(set(fd["inlined"]))[:4]))
                        if known is not None:
                            if fd["name"] not in known:
                                why.append("function did not exist when the rules were confirmed")
                            else:
                                newcal = sorted(set(nd.get("callee") for nd in fd["nodes"] if nd.get("k") == "Call" and nd.get("callee") and "%s" % nd.get("callee") not in known and any(g["name"] == nd.get("callee") for g in d.get("functions", []))))
                                if newcal:
                                    why.append("calls new function(s) %s" % ", ".join(newcal[:4]))
                        if why:
                            out[fd["name"]] = "; ".join(why)
        except Exception as e:      # the gate must never turn a verdict into a crash
            self.notes.append("drift gate unavailable: %r" % (e,))
        return out

    def _gate_restructured(self):
        if os.environ.get("SS_NO_DRIFT_GATE") or not self.violations:
            return
        D = self.drifted()
        if not D:
            return
        keep = []
        for v in self.violations:
            fn = v["key"].split(":")[0]
            if fn in D:
                self.rules[v["rule"]]["viol"] -= 1
                for s_ in self.rules[v["rule"]]["samples"]:
                    if s_.get("key") == v["key"] and s_.get("result") == "VIOLATION":
                        s_["result"] = "unconfirmed (restructured function)"
                self.incomplete.append("%s was restructured (%s): rule %s instance %s at %s cannot be confirmed on the restructured code and is not reported as a violation [%s]" % (fn, D[fn], v["rule"], v["key"], v["where"], v["what"][:160]))
            else:
                keep.append(v)
        self.violations = keep

    def finish(self):
        wall = time.time() - self.t0
        self._gate_restructured()
        for rid in self.order:
            r = self.rules[rid]
            if r["n"] < r["floor"]:
                self.incomplete.append("rule %s found %d instances, below its confirmed floor %d" % (rid, r["n"], r["floor"]))
        n = sum(r["n"] for r in self.rules.values())
        ok = sum(r["ok"] for r in self.rules.values())
        known = sum(r["known"] for r in self.rules.values())
        samples = []
        for rid in self.order:
            for s in self.rules[rid]["samples"][:3]:
                samples.append(dict(s, rule=rid))
        os.makedirs(os.path.join(EVIDENCE_DIR, "replay"), exist_ok=True)
        # replay files for violations
        lines = []
        for kf_rec, kf in self.known_hits:
            lines.append("KNOWN-FINDING: property=%s %s %s at %s: %s" % (self.prop, kf_rec["rule"], kf_rec["key"], kf_rec["where"], kf_rec["what"]))
        for idx, v in enumerate(self.violations):
            rp = os.path.join(EVIDENCE_DIR, "replay", "%s-%d.json" % (self.prop, idx))
            with open(rp, "w") as f:
                json.dump({"property": self.prop, "rule": v["rule"], "key": v["key"], "where": v["where"], "what": v["what"], "rule_text": self.rules[v["rule"]]["desc"]}, f, indent=1)
            lines.append("VIOLATION property=%s replay=%s" % (self.prop, rp))
            lines.append("  rule %s [%s]" % (v["rule"], self.rules[v["rule"]]["desc"]))
            lines.append("  at %s  instance %s" % (v["where"], v["key"]))
            lines.append("  %s" % v["what"])
        for m in self.incomplete:
            lines.append("ANALYSIS-INCOMPLETE property=%s %s" % (self.prop, m))
        distinct = len({(rid, s) for rid in self.order for s in range(self.rules[rid]["n"])})
        ev = {
            "property_id": self.prop,
            "tier": self.tier,
            "seed": self.seed,
            "level": "other",
            "coverage": {
                "explanation": "static analysis of /repo's current source (clang 14 typed AST + CFG facts, NDEBUG configuration%s): every instance each rule enumerates is an obligation; an obligation is discharged when the rule's structural condition holds at that site on all paths" % (" and DEBUG" if self._PD is not None else ""),
                "obligations": n,
                "discharged": ok,
                "known_findings": known,
                "violated": len(self.violations),
                "evaluations": max(n, 1),
                "distinct_nontrivial": distinct,
                "rule": "one case = one rule instance (call site, store, path, table line) enumerated from the resolved program; distinct by (rule, site); all are non-trivial (each corresponds to code that exists in /repo)",
                "units_analysed": sorted(self.units),
                "functions_analysed": len(self.functions),
                "function_names": sorted(self.functions)[:200],
                "rules": {rid: {"text": self.rules[rid]["desc"], "instances": self.rules[rid]["n"], "discharged": self.rules[rid]["ok"], "known_findings": self.rules[rid]["known"], "violated": self.rules[rid]["viol"], "floor": self.rules[rid]["floor"]} for rid in self.order},
                "positive_controls": self.controls,
                "samples": samples or [{"note": "no instance"}],
                "checker_cmd": "./check %s --tier %s" % (self.prop, self.tier),
                "trusted_base": ["clang 14 parser/type checker/macro expander/CFG builder", "tools/ssfacts.cc", "sslint rule code and its reasoned instance tables"],
                "exhaustive": True,
                "incomplete": self.incomplete,
                "notes": self.notes,
            },
            "assumptions": self.assumptions + [
                "decides the named structural clauses (necessary conditions), not the behavioural property as a whole; see DESIGN.md",
                "asserts are not guards (NDEBUG build)"],
            "wall_s": round(wall, 3),
            "violations": len(self.violations),
        }
        with open(os.path.join(EVIDENCE_DIR, "%s.json" % self.prop), "w") as f:
            json.dump(ev, f, indent=1)
        try:
            self._print_summary(wall, n, ok, known, lines)
        except BrokenPipeError:
            pass
        if self.violations:
            return 1
        if self.incomplete:
            return 2
        return 0

    def _print_summary(self, wall, n, ok, known, lines):
        print("%s tier=%s rules=%d obligations=%d discharged=%d known=%d violated=%d functions=%d wall=%.2fs" % (
            self.prop, self.tier, len(self.order), n, ok, known, len(self.violations), len(self.functions), wall))
        for rid in self.order:
            r = self.rules[rid]
            print("  %-10s n=%-4d ok=%-4d known=%-2d viol=%-2d  %s" % (rid, r["n"], r["ok"], r["known"], r["viol"], r["desc"][:110]))
        for l in lines:
            print(l)
        if self.violations:
            return 1
        if self.incomplete:
            return 2
        return 0
