"""debug helper: python3 -m sslint.dbg <function> [config]  -> prints canonical statements and CFG"""
import sys
from .prog import Program

def dump(f, subst=True):
    print("==", f.name, f.relfile(), f.loc)
    for i in f.walk():
        nd = f.nodes[i]
        p = f.parent[i]
        if nd["k"] in ("Assign", "CompoundAssign", "Call", "Return", "Var") or (nd["k"] == "Un" and nd["op"] in ("post++","post--","pre++","pre--")):
            print("%5d L%-5d %-8s %s   %s" % (i, f.line(i), nd["k"], f.canon(i, subst=subst), nd.get("mac", "")))
    cfg = f.cfg
    for b in sorted(cfg.blocks, reverse=True):
        blk = cfg.blocks[b]
        c = blk.get("cond")
        print("B%d succs=%s cond=%s term=%s" % (b, cfg.succs[b], f.src(c) if c is not None and c >= 0 else None, blk.get("termk")))

if __name__ == "__main__":
    P = Program(sys.argv[2] if len(sys.argv) > 2 else "NDEBUG")
    dump(P.fn(sys.argv[1]))
