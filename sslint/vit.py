"""VIT: Viterbi cell analysis of the specialised HMM evaluators (hmm.c).

A small abstract interpreter over the *structured* AST of a loop-free
evaluator.  Values are symbolic terms:

  SC(j)        score slot j as loaded            SEN(j)   -senone score of state j
  OLD(j)       SC(j) + SEN(j)                    TP(i,k)  -tp[i*W + k]
  CAND(j,i,k)  OLD(j) + TP(i,k)                  ABSENT   WORST_SCORE / INT_MIN
  NEW          a value chosen for a slot in this frame

Paths are enumerated inside one top-level statement (fork at every If) and
merged (set union per variable) after it, so the cost stays linear in the
number of top-level statements.  Clauses A, B, C, H are checked per path of
each comparison tree, clause W structurally on the CFG (DESIGN.md §4 C02,
Appendix C).
"""
from . import paths
from .prog import AnalysisIncomplete

WORST = -536870912
INTMIN = -2147483648
CAP = 4096


class Vit:
    def __init__(self, fn, n_emit, mpx):
        self.fn = fn
        self.n = n_emit
        self.W = n_emit + 1
        self.mpx = mpx
        self.findings = []      # (clause, key, node, text)
        self.oks = []           # (clause, key, node, text)
        self.slot_stores = []   # (node, k, var)
        self._prescan()

    # ---- helpers -------------------------------------------------------------
    def bad(self, clause, key, node, text):
        if (clause, key) not in [(c, k) for (c, k, n, t) in self.findings]:
            self.findings.append((clause, key, node, text))

    def ok(self, clause, key, node, text=""):
        if (clause, key) not in [(c, k) for (c, k, n, t) in self.oks]:
            self.oks.append((clause, key, node, text))

    def slot_of(self, i):
        """score slot index of an lvalue: hmm->score[j] -> j, out_score -> 'out'"""
        fn = self.fn
        j = fn.strip(i)
        nd = fn.nodes[j]
        if nd["k"] == "Member" and nd.get("rec") == "hmm_s" and nd["field"] == "out_score":
            return ("score", "out")
        if nd["k"] == "Member" and nd.get("rec") == "hmm_s" and nd["field"] == "out_history":
            return ("hist", "out")
        if nd["k"] == "Subscript":
            b = fn.strip(nd["ch"][0])
            bn = fn.nodes[b]
            idx = fn.nodes[fn.strip(nd["ch"][1])]
            iv = idx.get("v", idx.get("cv"))
            if bn["k"] == "Member" and bn.get("rec") == "hmm_s" and bn["field"] in ("score", "history") and iv is not None:
                return ("score" if bn["field"] == "score" else "hist", iv)
            if bn["k"] == "DeclRef" and iv is not None:
                # local alias arrays: ssid[j]
                v = fn.rd.unique_def_value(b)
                if v is not None and fn.canon(v, subst=False).endswith("->senid") and fn.nodes[b]["name"] == "ssid":
                    return ("ssid", iv)
        return None

    def _prescan(self):
        fn = self.fn
        for s in paths.stores(fn):
            sl = self.slot_of(s["lhs"])
            if sl and sl[0] == "score" and s["rhs"] is not None:
                v = fn.strip(s["rhs"])
                if fn.k(v) == "DeclRef" and fn.nodes[v]["ref"] == "local":
                    self.slot_stores.append((s["node"], sl[1], fn.nodes[v]["name"]))
        if not self.slot_stores:
            raise AnalysisIncomplete("%s: no score slot stores found" % fn.name)

    def target_of(self, var, node):
        """slot the value assigned to `var` at `node` is stored into: first
        slot store of var after node (source order)"""
        fn = self.fn
        best = None
        for (sn, k, v) in self.slot_stores:
            if v == var and fn.line(sn) >= fn.line(node) and sn > node:
                if best is None or sn < best[0]:
                    best = (sn, k)
        return best[1] if best else None

    # ---- evaluation ----------------------------------------------------------------
    def ev(self, i, env):
        """-> frozenset of terms"""
        fn = self.fn
        nd = fn.nodes[i]
        k = nd["k"]
        if k in ("Paren", "ICast", "Cast"):
            if k == "Cast" and "cv" in nd:
                return frozenset([("CONST", nd["cv"])])
            return self.ev(nd["ch"][0], env)
        if k == "Int":
            return frozenset([("CONST", nd["v"])])
        if "cv" in nd and k != "DeclRef":
            return frozenset([("CONST", nd["cv"])])
        if k == "DeclRef":
            if nd["ref"] == "local":
                return env.get(nd["name"], frozenset([("UNDEF", nd["name"])]))
            return frozenset([("OPAQUE", nd["name"])])
        sl = self.slot_of(i)
        if sl and sl[0] == "score":
            return frozenset([("SC", sl[1])])
        if k == "Un" and nd["op"] == "-":
            t = self._neg_term(nd["ch"][0])
            if t is not None:
                return frozenset([t])
        if k == "Bin" and nd["op"] == "+":
            a = self.ev(nd["ch"][0], env)
            b = self.ev(nd["ch"][1], env)
            out = set()
            for x in a:
                for y in b:
                    out.add(self._add(x, y, i))
            return frozenset(out)
        if k == "Assign":
            return self.assign(i, env)
        return frozenset([("OPAQUE", fn.canon(i, subst=False)[:40])])

    def _neg_term(self, i):
        """-senscore[...]  or  -tp[c]"""
        fn = self.fn
        j = fn.strip(i)
        nd = fn.nodes[j]
        if nd["k"] != "Subscript":
            return None
        b = fn.strip(nd["ch"][0])
        name = fn.nodes[b].get("name")
        if name == "tp":
            idx = fn.nodes[fn.strip(nd["ch"][1])]
            c = idx.get("cv", idx.get("v"))
            if c is None:
                return ("BAD", "transition index is not constant")
            return ("TP", c // self.W, c % self.W)
        if name == "senscore":
            # nonmpx: sseq[j]   mpx: sseq[ssid[j]][j]
            idxs = []
            for d in fn.walk(nd["ch"][1]):
                dn = fn.nodes[d]
                if dn["k"] == "Int":
                    idxs.append(dn["v"])
            if not idxs:
                return ("BAD", "senone index is not constant")
            if len(set(idxs)) != 1:
                return ("BAD", "senone looked up for states %s in one expression" % sorted(set(idxs)))
            return ("SEN", idxs[0])
        return None

    def _add(self, x, y, node):
        for (a, b) in ((x, y), (y, x)):
            if a[0] == "SC" and b[0] == "SEN":
                if a[1] == b[1] or (a[1] == 0 and b[1] == 0):
                    return ("OLD", a[1])
                return ("BAD", "score of state %s is combined with the senone score of state %s" % (a[1], b[1]))
            if a[0] == "OLD" and b[0] == "TP":
                return ("CAND", a[1], b[1], b[2])
            if a[0] == "NEW" and b[0] == "TP":
                return ("BAD", "a candidate is built from a score already updated in this frame (state %s)" % (a[1],))
            if a[0] == "SC" and b[0] == "TP":
                return ("BAD", "a candidate is built from a score without its senone score")
        if x[0] == "BAD":
            return x
        if y[0] == "BAD":
            return y
        return ("OPAQUE", "sum")

    def assign(self, i, env):
        fn = self.fn
        nd = fn.nodes[i]
        lhs = fn.strip(nd["ch"][0])
        ln = fn.nodes[lhs]
        if ln["k"] == "DeclRef" and ln["ref"] == "local":
            val = self.ev(nd["ch"][1], env)
            name = ln["name"]
            # choice event?
            rj = fn.strip(nd["ch"][1])
            is_choice = any(t[0] in ("CAND",) for t in val) and (fn.k(rj) == "DeclRef" or name in [v for (_, _, v) in self.slot_stores])
            tk = self.target_of(name, i)
            if is_choice and tk is not None and name in [v for (_, _, v) in self.slot_stores]:
                src = fn.nodes[rj]["name"] if fn.k(rj) == "DeclRef" else None
                self.cur["events"].append(("choice", tk, val, src, i))
                env[name] = frozenset([("NEW", tk)])
            else:
                env[name] = val
            return val
        # stores to hmm fields
        sl = self.slot_of(lhs)
        if sl is not None:
            if sl[0] in ("hist", "ssid"):
                rs = self.slot_of(nd["ch"][1])
                self.cur["events"].append((sl[0], sl[1], rs[1] if rs and rs[0] == sl[0] else None, i))
            elif sl[0] == "score":
                self.cur["events"].append(("store", sl[1], fn.canon(nd["ch"][1], subst=False), i))
        return frozenset([("OPAQUE", "store")])

    # ---- statements ------------------------------------------------------------------
    def run(self):
        fn = self.fn
        body = fn.nodes[fn.root]
        state = {"env": {}, "facts": [], "events": [], "cmpvars": set()}
        for st in body["ch"]:
            states = self.stmt(st, [state])
            if len(states) > CAP:
                raise AnalysisIncomplete("%s: path cap exceeded" % fn.name)
            for s in states:
                self.check_path(s)
            # merge
            env = {}
            for s in states:
                for v, ts in s["env"].items():
                    env[v] = env.get(v, frozenset()) | ts
            # a variable missing on some path keeps what it had there (already in s["env"] copies)
            state = {"env": env, "facts": [], "events": [], "cmpvars": set()}
        self.structural()
        return self

    def stmt(self, i, states):
        fn = self.fn
        nd = fn.nodes[i]
        k = nd["k"]
        out = []
        if k == "Compound":
            cur = states
            for c in nd["ch"]:
                cur = self.stmt(c, cur)
                if len(cur) > CAP:
                    raise AnalysisIncomplete("%s: path cap exceeded" % fn.name)
            return cur
        if k == "If":
            cond, th, el = nd["ch"]
            for s in states:
                special = self.special_if(i, s)
                if special is not None:
                    out.extend(special)
                    continue
                fa, fb = self.cond_facts(cond, s)
                s1 = {"env": dict(s["env"]), "facts": s["facts"] + fa[0], "events": list(s["events"]), "cmpvars": set(s["cmpvars"]) | fa[1]}
                s2 = {"env": dict(s["env"]), "facts": s["facts"] + fb[0], "events": list(s["events"]), "cmpvars": set(s["cmpvars"]) | fb[1]}
                self.refine(cond, s1["env"], True)
                self.refine(cond, s2["env"], False)
                out.extend(self.stmt(th, [s1]))
                if fn.k(el) != "Absent":
                    out.extend(self.stmt(el, [s2]))
                else:
                    out.append(s2)
            return out
        if k in ("Decl",):
            for s in states:
                self.cur = s
                for c in nd["ch"]:
                    vn = fn.nodes[c]
                    if vn["k"] == "Var" and vn["ch"]:
                        s["env"][vn["name"]] = self.ev(vn["ch"][0], s["env"])
            return states
        if k == "Return":
            return states
        if k in ("Null", "Absent"):
            return states
        if k == "CompoundAssign":
            for s in states:
                self.cur = s
                lhs = fn.strip(nd["ch"][0])
                ln = fn.nodes[lhs]
                if ln["k"] == "DeclRef" and nd["op"] == "+=":
                    a = s["env"].get(ln["name"], frozenset([("UNDEF", ln["name"])]))
                    b = self.ev(nd["ch"][1], s["env"])
                    val = frozenset(self._add(x, y, i) for x in a for y in b)
                    tk = self.target_of(ln["name"], i)
                    if any(t[0] == "CAND" for t in val) and tk is not None:
                        s["events"].append(("choice", tk, val, None, i))
                        s["env"][ln["name"]] = frozenset([("NEW", tk)])
                    else:
                        s["env"][ln["name"]] = val
            return states
        # expression statement
        cv = self.clamp_assign(i)
        if cv is not None:
            # v = (v < WORST) ? WORST : v   - the clamp written as a conditional expression (or the
            # body of a clamp function presented in place of its call)
            for s in states:
                s["events"].append(("clamp", cv, i))
            return states
        for s in states:
            self.cur = s
            self.ev(i, s["env"])
        return states

    def clamp_assign(self, i):
        fn = self.fn
        j = fn.strip(i)
        if fn.k(j) != "Assign" or fn.nodes[j].get("op") != "=":
            return None
        l, r = fn.strip(fn.ch(j)[0]), fn.strip(fn.ch(j)[1])
        if fn.k(l) != "DeclRef" or fn.k(r) != "Cond":
            return None
        v = fn.nodes[l]["name"]
        c, a, b = fn.ch(r)
        cj = fn.nodes[fn.strip(c)]
        if cj["k"] != "Bin" or cj["op"] not in ("<", ">"):
            return None
        x, y = fn.strip(cj["ch"][0]), fn.strip(cj["ch"][1])
        isv = lambda n: fn.k(n) == "DeclRef" and fn.nodes[n]["name"] == v
        below = (cj["op"] == "<" and isv(x) and fn.constval(cj["ch"][1]) == WORST) or (cj["op"] == ">" and isv(y) and fn.constval(cj["ch"][0]) == WORST)
        if below and fn.constval(a) == WORST and isv(fn.strip(b)):
            return v
        return None

    def special_if(self, i, s):
        """clamp: if (v < WORST) v = WORST;   best: if (v > best) best = v;"""
        fn = self.fn
        cond, th, el = fn.nodes[i]["ch"]
        if fn.k(el) != "Absent":
            return None
        c = fn.nodes[fn.strip(cond)]
        t = fn.strip(th)
        if fn.k(t) == "Compound" and len(fn.ch(t)) == 1:
            t = fn.strip(fn.ch(t)[0])
        if c["k"] != "Bin" or fn.k(t) != "Assign":
            return None
        a, b = fn.strip(c["ch"][0]), fn.strip(c["ch"][1])
        tl, tr = fn.strip(fn.nodes[t]["ch"][0]), fn.strip(fn.nodes[t]["ch"][1])
        if fn.k(a) == "DeclRef" and fn.k(tl) == "DeclRef":
            av = fn.nodes[a]["name"]
            bconst = fn.constval(c["ch"][1])
            if c["op"] == "<" and bconst == WORST and fn.nodes[tl]["name"] == av and fn.constval(fn.nodes[t]["ch"][1]) == WORST:
                s["events"].append(("clamp", av, i))
                return [s]
            if c["op"] == ">" and fn.k(b) == "DeclRef" and fn.nodes[tl]["name"] == fn.nodes[b]["name"] and fn.k(tr) == "DeclRef" and fn.nodes[tr]["name"] == av:
                s["events"].append(("best", av, i))
                return [s]
        return None

    def refine(self, cond, env, pol):
        """`v != CONST` / `v == CONST`: drop / keep the constant term"""
        fn = self.fn
        c = fn.nodes[fn.strip(cond)]
        if c["k"] != "Bin" or c["op"] not in ("==", "!="):
            return
        a, b = fn.strip(c["ch"][0]), fn.strip(c["ch"][1])
        if fn.k(a) != "DeclRef" or fn.nodes[a]["ref"] != "local":
            return
        cv = fn.constval(c["ch"][1])
        if cv is None:
            return
        name = fn.nodes[a]["name"]
        cur = env.get(name)
        if cur is None:
            return
        equal = (c["op"] == "==") == pol
        if equal:
            keep = frozenset(t for t in cur if t == ("CONST", cv))
        else:
            keep = frozenset(t for t in cur if t != ("CONST", cv))
        if keep:
            env[name] = keep

    def cond_facts(self, cond, s):
        """((facts_true, vars), (facts_false, vars)); a fact (x, y) means x >= y"""
        fn = self.fn
        c = fn.nodes[fn.strip(cond)]
        if c["k"] == "Bin" and c["op"] in (">", "<", ">=", "<="):
            a, b = fn.strip(c["ch"][0]), fn.strip(c["ch"][1])
            if fn.k(a) == "DeclRef" and fn.k(b) == "DeclRef" and fn.nodes[a]["ref"] == "local" and fn.nodes[b]["ref"] == "local":
                x, y = fn.nodes[a]["name"], fn.nodes[b]["name"]
                if c["op"] in ("<", "<="):
                    x, y = y, x
                return (([(x, y)], {x, y}), ([(y, x)], {x, y}))
        return (([], set()), ([], set()))

    # ---- per-path checks ---------------------------------------------------------------
    def preds(self, k):
        n = self.n
        if k == "out":
            return {n - 1, n - 2} & set(range(n))
        return {k, k - 1, k - 2} & set(range(n))

    def check_path(self, s):
        fn = self.fn
        ev = s["events"]
        choices = [e for e in ev if e[0] == "choice"]
        for (_, k, val, src, node) in choices:
            kk = self.n if k == "out" else k
            where = node
            key = "state%s" % k
            # A: candidate terms of every compared variable
            cand_terms = set(val)
            for v in s["cmpvars"]:
                cand_terms |= set(s["env"].get(v, ()))
            # (after the choice the chosen var was rewritten to NEW; use the event's value)
            js = set()
            for t in cand_terms:
                if t[0] == "BAD":
                    self.bad("C" if "updated" in t[1] else "A", key + ":bad-term", where, "state %s: %s" % (k, t[1]))
                elif t[0] == "CAND":
                    _, j, i2, k2 = t
                    if j != i2:
                        self.bad("A", key + ":mismatch", where, "state %s: candidate adds the score of state %s to the transition probability %s->%s" % (k, j, i2, k2))
                    elif k2 != kk:
                        self.bad("A", key + ":stale", where, "state %s: a candidate for state %s (score of state %s + tp[%s][%s]) is compared as a candidate for state %s (stale value from an earlier block)" % (k, k2, j, i2, k2, k))
                    elif j not in self.preds(k):
                        self.bad("A", key + ":topology", where, "state %s: candidate from state %s is not a left-to-right predecessor" % (k, j))
                    else:
                        js.add(j)
                elif t[0] in ("CONST",):
                    if t[1] not in (WORST, INTMIN):
                        self.bad("A", key + ":const", where, "state %s: constant %s compared as a candidate" % (k, t[1]))
                elif t[0] in ("NEW", "OLD", "SC", "UNDEF", "OPAQUE"):
                    if t[0] != "NEW":
                        self.bad("A", key + ":form", where, "state %s: a compared value is not of the form score+senone+transition (%s)" % (k, t[0]))
            self.cand_js.setdefault(k, set()).update(js)
            # B: chosen >= every compared variable
            if src is not None:
                ge = {}
                for (x, y) in s["facts"]:
                    ge.setdefault(x, set()).add(y)
                reach = {src}
                st = [src]
                while st:
                    x = st.pop()
                    for y in ge.get(x, ()):
                        if y not in reach:
                            reach.add(y)
                            st.append(y)
                for v in s["cmpvars"]:
                    if v not in reach:
                        self.bad("B", key + ":not-max", where, "state %s: on the path choosing `%s` nothing establishes %s >= %s: the stored score is not the maximum over the candidates" % (k, src, src, v))
                self.ok("B", key + ":%s" % src, where)
            # H: history of the winner
            chosen_js = set(t[1] for t in val if t[0] == "CAND")
            hist = [e for e in ev if e[0] == "hist" and e[1] == k]
            ssid = [e for e in ev if e[0] == "ssid" and e[1] == k]
            for j in chosen_js:
                if k != "out" and j == k:
                    if hist:
                        self.bad("H", key + ":self-history", where, "state %s: the self transition wins but the history slot is overwritten from state %s" % (k, hist[0][2]))
                else:
                    want = j
                    if len(hist) != 1 or hist[0][2] != want:
                        self.bad("H", key + ":history", where, "state %s: the candidate from state %s wins but the history slot is %s" % (k, j, "not updated" if not hist else "taken from state %s" % hist[0][2]))
                    if self.mpx and k != "out":
                        if len(ssid) != 1 or ssid[0][2] != want:
                            self.bad("H", key + ":ssid", where, "state %s: the candidate from state %s wins but the senone-sequence id is %s" % (k, j, "not co-assigned" if not ssid else "taken from state %s" % ssid[0][2]))
            self.ok("H", key + ":" + "/".join(str(j) for j in sorted(chosen_js)), where)
            self.ok("A", key, where)

    cand_js = None

    def structural(self):
        """candidate completeness and clause W on the CFG"""
        fn = self.fn
        for k in [x for x in self.cand_js]:
            want = self.preds(k)
            if self.cand_js[k] != want:
                self.bad("A", "state%s:missed" % k, fn.root, "state %s: predecessors considered %s, the left-to-right topology has %s" % (k, sorted(self.cand_js[k]), sorted(want)))
        targets = set(k for (_, k, _) in self.slot_stores)
        want_t = set(range(self.n)) | {"out"}
        if targets != want_t:
            self.bad("A", "slots", fn.root, "score slots written: %s, expected %s" % (sorted(map(str, targets)), sorted(map(str, want_t))))
        # W: clamp before store; bestscore merge; return
        for (sn, k, var) in self.slot_stores:
            clamps = []
            bests = []
            for i in fn.find("If"):
                st = {"events": []}
                if self.special_if(i, st) is not None and st["events"] and st["events"][0][1] == var:
                    (clamps if st["events"][0][0] == "clamp" else bests).append(i)
            tern = [i for i in fn.find("Assign") if self.clamp_assign(i) == var]
            direct = [s["node"] for s in paths.stores(fn) if s["path"] == "bestScore" and s["rhs"] is not None and fn.canon(s["rhs"], subst=False) == var and fn.enclosing(s["node"], ("If",)) not in bests]
            # every path from a definition of var to the store passes a clamp
            defs = [d for d in paths.defs_of_local(fn, [n_["decl"] for n_ in fn.nodes if n_.get("k") in ("Var",) and n_.get("name") == var][0])]
            clampconds = set()
            for c in clamps:
                clampconds.add(fn.strip(fn.ch(c)[0]))
                clampconds.update(fn.walk(fn.ch(c)[0]))
            clampassign = set()
            for c in clamps:
                clampassign.update(x for x in fn.walk(fn.ch(c)[1]) if fn.k(x) == "Assign")
            for t_ in tern:
                # the clamping assignment re-defines the variable with its clamped value
                clampassign.add(t_)
                clampconds.add(t_)
            okc = True
            for d in defs:
                if d in clampassign:
                    continue
                if fn.cfg.path_exists(paths.pos_of(fn, d), lambda e: e == sn, is_barrier=lambda e: e in clampconds or (e in defs and e != d)):
                    # a definition that is the constant WORST itself needs no clamp
                    dn = fn.nodes[d]
                    rhs = dn["ch"][1] if dn["k"] == "Assign" else (dn["ch"][0] if dn["ch"] else None)
                    if rhs is not None and fn.constval(rhs) == WORST:
                        continue
                    okc = False
            if not okc:
                self.bad("W", "state%s:clamp" % k, sn, "state %s: the stored score does not pass the `WORSE_THAN WORST_SCORE` clamp on every path" % k)
            else:
                self.ok("W", "state%s:clamp" % k, sn)
            bestconds = set()
            for c in bests:
                bestconds.update(fn.walk(fn.ch(c)[0]))
            bestconds.update(direct)
            if not (bests or direct) or fn.cfg.path_exists(paths.pos_of(fn, sn), "exit", is_barrier=lambda e: e in bestconds) and not paths.always_before(fn, sn, lambda e: e in bestconds):
                self.bad("W", "state%s:best" % k, sn, "state %s: the stored score is not merged into the best score of the HMM" % k)
            else:
                self.ok("W", "state%s:best" % k, sn)
        rets = [fn.canon(fn.ch(r)[0], subst=False) for r in fn.find("Return")]
        bs = [s for s in paths.stores(fn) if s["field"] == "bestscore"]
        if rets != ["bestScore"] or len(bs) != 1 or fn.canon(bs[0]["rhs"], subst=False) != "bestScore":
            self.bad("W", "return", fn.root, "the evaluator does not return / record the best score (returns %s)" % rets)
        else:
            self.ok("W", "return", fn.root)


def analyse(fn, n_emit, mpx):
    v = Vit(fn, n_emit, mpx)
    v.cand_js = {}
    v.cur = None
    return v.run()
