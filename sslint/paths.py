"""GUARD / PAIR primitives over the CFG and small AST utilities shared by the
property modules."""
from .prog import AnalysisIncomplete


def pos_of(fn, node):
    p = fn.cfg.position(node)
    if p is None:
        raise AnalysisIncomplete("node %d of %s has no CFG position" % (node, fn.name))
    return p


def cond_holds(fn, c, pol, pred):
    """pred is implied by condition c having truth value pol.  Conditions that
    the CFG does not split (a logical expression under `!` or parentheses, as
    in `if (!(a || b))`) are decomposed here: a true disjunction implies pred
    when every disjunct does, a false one when any negated disjunct does;
    dually for conjunctions."""
    j = fn.strip(c)
    nd = fn.nodes[j]
    if nd["k"] == "Un" and nd["op"] == "!":
        inner = fn.strip(nd["ch"][0])
        if fn.nodes[inner]["k"] == "Bin" and fn.nodes[inner]["op"] in ("&&", "||"):
            return cond_holds(fn, inner, not pol, pred)
    if nd["k"] == "Bin" and nd["op"] in ("&&", "||"):
        parts = nd["ch"]
        if (nd["op"] == "||") == pol:
            # true disjunction / false conjunction: any one of the parts may be the reason
            return all(cond_holds(fn, p, pol, pred) for p in parts)
        return any(cond_holds(fn, p, pol, pred) for p in parts)
    return bool(pred(fn, c, pol))


def guard_edges(fn, pred):
    """edges (src,dst) whose branch condition satisfies pred(fn, cond, polarity)"""
    out = []
    for (s, d, c, pol) in fn.cfg.cond_edges():
        if fn.cfg.succs[s][0] == fn.cfg.succs[s][1]:
            continue
        if cond_holds(fn, c, pol, pred):
            out.append((s, d))
    return out


def guarded(fn, node, pred):
    """True iff every path from the function entry to `node` takes an edge
    whose condition satisfies pred (GUARD dominance with edge refinement:
    disjunctive and conjunctive forms are handled by the CFG's splitting of
    && and ||)."""
    edges = guard_edges(fn, pred)
    b, _ = pos_of(fn, node)
    reach = fn.cfg.reachable_blocks(removed_edges=edges)
    return b not in reach


def guarded_from(fn, start_node, node, pred):
    """like guarded(), but paths start after start_node (e.g. the last
    redefinition of the guarded value)"""
    edges = set(guard_edges(fn, pred))
    return not fn.cfg.path_exists(pos_of(fn, start_node), lambda e: e == node, removed_edges=edges)


def must_pass(fn, start_node, via, removed_edges=(), to=None):
    """every path from just after start_node to the function exit (or to an
    element satisfying `to`) passes an element satisfying via(e)"""
    return not fn.cfg.path_exists(pos_of(fn, start_node), "exit" if to is None else to, is_barrier=via, removed_edges=removed_edges)


def may_reach(fn, start_node, target, barrier=None):
    return fn.cfg.path_exists(pos_of(fn, start_node), target, is_barrier=barrier)


def entry_must_pass(fn, via, to="exit"):
    """every path from the function entry to exit passes via"""
    cfg = fn.cfg
    return not cfg.path_exists((cfg.entry, -1), to, is_barrier=via)


def same_block(fn, a, b):
    return pos_of(fn, a)[0] == pos_of(fn, b)[0]


# ---- condition helpers ------------------------------------------------------
def cond_atoms(fn, cond, pol=True, subst=True):
    """normalise a branch condition to (canonical string, polarity) with
    negations and comparisons against 0 / NULL folded; relational operators
    are rendered by Function.canon in terms of < and <= (a > b -> b < a)."""
    j = fn.strip(cond)
    nd = fn.nodes[j]
    if nd["k"] == "Un" and nd["op"] == "!":
        return cond_atoms(fn, nd["ch"][0], not pol, subst)
    if nd["k"] == "Bin" and nd["op"] in ("==", "!="):
        a, b = nd["ch"]
        za = _is_zero(fn, a)
        zb = _is_zero(fn, b)
        if za or zb:
            other = b if za else a
            p = pol if nd["op"] == "!=" else not pol
            return cond_atoms(fn, other, p, subst)
        if nd["op"] == "!=":
            return ("(%s)" % " == ".join(sorted([fn.canon(a, subst=subst), fn.canon(b, subst=subst)])), not pol)
        return ("(%s)" % " == ".join(sorted([fn.canon(a, subst=subst), fn.canon(b, subst=subst)])), pol)
    return (fn.canon(j, subst=subst), pol)


def _is_zero(fn, i):
    j = fn.strip(i)
    nd = fn.nodes[j]
    if nd["k"] == "Int" and nd["v"] == 0:
        return True
    if nd.get("cv") == 0 and nd["k"] != "DeclRef" and "NULL" in nd.get("mac", []):
        return True
    return False


def rel(fn, cond, pol=True, subst=True):
    """relational condition as (lhs, op, rhs) strings with op in
    {'<','<=','==','!='} after applying polarity; None if not relational"""
    j = fn.strip(cond)
    nd = fn.nodes[j]
    if nd["k"] == "Un" and nd["op"] == "!":
        return rel(fn, nd["ch"][0], not pol, subst)
    if nd["k"] != "Bin" or nd["op"] not in ("<", ">", "<=", ">=", "==", "!="):
        return None
    a = fn.canon(nd["ch"][0], subst=subst)
    b = fn.canon(nd["ch"][1], subst=subst)
    op = nd["op"]
    if not pol:
        op = {"<": ">=", ">": "<=", "<=": ">", ">=": "<", "==": "!=", "!=": "=="}[op]
    if op == ">":
        a, b, op = b, a, "<"
    elif op == ">=":
        a, b, op = b, a, "<="
    elif op in ("==", "!=") and b < a:
        a, b = b, a
    return (a, op, b)


# ---- stores ------------------------------------------------------------------
def stores(fn, root=None):
    """all stores in the function: dict(node, lhs(node), path(canonical, no
    substitution of the root variable), field, rec, rhs(node or None), op)"""
    out = []
    for i in fn.walk(root):
        nd = fn.nodes[i]
        k = nd["k"]
        if k in ("Assign", "CompoundAssign"):
            lhs = fn.strip(nd["ch"][0])
            rhs = nd["ch"][1]
            op = nd["op"]
        elif k == "Un" and nd["op"] in ("post++", "pre++", "post--", "pre--"):
            lhs = fn.strip(nd["ch"][0])
            rhs = None
            op = nd["op"][-2:]
        else:
            continue
        # equivalent spellings of an update are presented alike: x = x + e  ->  x += e ;  x += 1  ->  x++
        if k == "Assign" and op == "=":
            rj = fn.strip(rhs)
            rn = fn.nodes[rj]
            if rn["k"] == "Bin" and rn["op"] in ("+", "-"):
                lc = fn.canon(lhs, subst=False)
                a, b = rn["ch"]
                if fn.canon(a, subst=False) == lc:
                    op, rhs = rn["op"] + "=", b
                elif rn["op"] == "+" and fn.canon(b, subst=False) == lc:
                    op, rhs = "+=", a
        if op in ("+=", "-=") and rhs is not None and fn.constval(rhs) == 1:
            op, rhs = ("++" if op == "+=" else "--"), None
        ln = fn.nodes[lhs]
        out.append({"node": i, "lhs": lhs, "path": fn.canon(lhs, subst=False), "spath": fn.canon(lhs),
                    "field": ln.get("field") if ln["k"] == "Member" else None,
                    "rec": ln.get("rec") if ln["k"] == "Member" else None,
                    "rhs": rhs, "op": op, "kind": ln["k"]})
    return out


def field_stores(fn, rec, field):
    return [s for s in stores(fn) if s["rec"] == rec and s["field"] == field]


def field_reads(fn, rec, field):
    out = []
    for i, nd in enumerate(fn.nodes):
        if nd["k"] == "Member" and nd.get("rec") == rec and nd["field"] == field:
            out.append(i)
    return out


def is_const(fn, i, v=None):
    val = fn.constval(i)
    if val is None:
        j = fn.strip(i)
        nd = fn.nodes[j]
        if "cv" in nd and nd["k"] != "DeclRef":
            val = nd["cv"]
        else:
            return False
    return v is None or val == v


def paired(fn, a, b):
    """A and B occur together: every path through A also passes B (before or
    after) and vice versa, and neither can repeat without the other."""
    def one(x, y):
        after = must_pass(fn, x, lambda e: e == y)
        before = not fn.cfg.path_exists((fn.cfg.entry, -1), lambda e: e == x, is_barrier=lambda e: e == y)
        return after or before
    if not (one(a, b) and one(b, a)):
        return False
    # no repetition of one without the other
    if fn.cfg.path_exists(pos_of(fn, a), lambda e: e == a, is_barrier=lambda e: e == b):
        return False
    if fn.cfg.path_exists(pos_of(fn, b), lambda e: e == b, is_barrier=lambda e: e == a):
        return False
    return True


def always_before(fn, node, via):
    """every path from the function entry to `node` passes an element
    satisfying via"""
    return not fn.cfg.path_exists((fn.cfg.entry, -1), lambda e: e == node, is_barrier=via)


def reads_of_local(fn, decl):
    """LValueToRValue reads of a local / param"""
    out = []
    for i, nd in enumerate(fn.nodes):
        if nd["k"] == "ICast" and nd.get("ck") == "LValueToRValue":
            j = nd["ch"][0]
            while fn.nodes[j]["k"] == "Paren":
                j = fn.nodes[j]["ch"][0]
            t = fn.nodes[j]
            if t["k"] == "DeclRef" and t.get("decl") == decl:
                out.append(i)
    return out


def defs_of_local(fn, decl):
    return [d[1] for d in fn.rd.all_defs(decl) if d[1] != "param"]


def use_after(fn, call, decl):
    """reads of local `decl` reachable after `call` without an intervening
    redefinition; returns list of read nodes"""
    reads = set(reads_of_local(fn, decl))
    defs = set()
    for d in defs_of_local(fn, decl):
        defs.add(d)
        # the CFG element of a Var definition is its DeclStmt
        p = fn.parent[d]
        if p is not None and fn.nodes[p]["k"] == "Decl" and len(fn.nodes[p]["ch"]) == 1:
            defs.add(p)
    hit = []
    for r in reads:
        if fn.cfg.path_exists(pos_of(fn, call), lambda e, r=r: e == r, is_barrier=lambda e: e in defs):
            hit.append(r)
    return hit


def local_of(fn, i):
    j = fn.strip(i)
    nd = fn.nodes[j]
    if nd["k"] == "DeclRef" and nd["ref"] in ("local", "param"):
        return nd["decl"]
    return None


def edges_excluded_when(fn, is_subject, value):
    """CFG edges that cannot be taken when the expression accepted by is_subject(fn, node) has the
    integer value `value`: the wrong arm of `subject == C` / `subject != C` tests (also under !, && and
    || as the CFG splits them) and the case labels of a `switch (subject)` that do not carry the value
    (the default edge when some case does).  Independent of whether the source uses an if-chain, a
    disjunction or a switch."""
    out = set()
    for (s0, d0, c, pol) in fn.cfg.cond_edges():
        j = fn.strip(c)
        nd = fn.nodes[j]
        neg = False
        while nd["k"] == "Un" and nd["op"] == "!":
            j = fn.strip(nd["ch"][0])
            nd = fn.nodes[j]
            neg = not neg
        if nd["k"] != "Bin" or nd["op"] not in ("==", "!="):
            continue
        a, b = nd["ch"]
        for (x, y) in ((a, b), (b, a)):
            cv = fn.constval(y)
            if cv is not None and is_subject(fn, x):
                truth = ((value == cv) == (nd["op"] == "==")) != neg
                if truth != pol:
                    out.add((s0, d0))
    for (s0, d0, c, vals) in fn.cfg.switch_edges():
        if c is None or c < 0 or not is_subject(fn, c):
            continue
        allv = set()
        for (s1, d1, c1, v1) in fn.cfg.switch_edges():
            if s1 == s0 and v1 is not None:
                allv |= v1
        if vals is None:
            if value in allv:
                out.add((s0, d0))
        elif value not in vals:
            out.add((s0, d0))
    return out


def equals_edges(fn, is_subject, value):
    """CFG edges on which the expression accepted by is_subject is known to equal the integer `value`:
    the true arm of `subject == value`, the false arm of `subject != value`, the `case value:` edge of a
    switch on it (when that label carries no other value)"""
    out = set()
    for (s0, d0, c, pol) in fn.cfg.cond_edges():
        j = fn.strip(c)
        nd = fn.nodes[j]
        neg = False
        while nd["k"] == "Un" and nd["op"] == "!":
            j = fn.strip(nd["ch"][0])
            nd = fn.nodes[j]
            neg = not neg
        if nd["k"] != "Bin" or nd["op"] not in ("==", "!="):
            continue
        a, b = nd["ch"]
        for (x, y) in ((a, b), (b, a)):
            if fn.constval(y) == value and is_subject(fn, x):
                if ((nd["op"] == "==") != neg) == pol:
                    out.add((s0, d0))
    for (s0, d0, c, vals) in fn.cfg.switch_edges():
        if c is not None and c >= 0 and is_subject(fn, c) and vals == {value}:
            out.add((s0, d0))
    return out


def guarded_equal(fn, node, is_subject, value):
    """every path from the entry to `node` takes an edge on which the subject equals `value`"""
    b, _ = pos_of(fn, node)
    return b not in fn.cfg.reachable_blocks(removed_edges=equals_edges(fn, is_subject, value))
