"""Per-property registration used to generate MANIFEST.json (tools/mkmanifest.py)."""

NOTE = ("trusted base: clang 14 front end and CFG builder, tools/ssfacts.cc, the rule code under sslint/ and its reasoned instance tables; "
        "asserts are not treated as guards (the shipped build is NDEBUG); decides the named structural clauses, not the behaviour as a whole")

CHECKS = {
    "C15": {
        "technique": "custom static analysis over clang AST+CFG facts: ring-index abstract interpretation (3-point lattice), polynomial region bounds, path pairing (must-pass / exactly-once), guard dominance, writer census",
        "text": "Decides, for every path of every function of ps_endpointer.c, the structural clauses that make returned frames exact in-order excerpts with a coherent clock: ring indices in [0,maxlen) at every use, every copy inside the allocation, head advance <-> qstart_time pairing, one push and one timestamp tick per frame, in_speech written only under the strict threshold tests with speech_start/speech_end taken from the queue clock, counter index set = queued frames, linearize moves frames and flags identically. Does not decide the numeric meaning of the thresholds or timestamp values.",
        "design_ref": "DESIGN.md section 4, C15",
    },
}
