"""Per-property registration used to generate MANIFEST.json (tools/mkmanifest.py)."""

NOTE = ("trusted base: clang 14 front end and CFG builder, tools/ssfacts.cc, the rule code under sslint/ and its reasoned instance tables; "
        "asserts are not treated as guards (the shipped build is NDEBUG); decides the named structural clauses, not the behaviour as a whole")

CHECKS = {
    "C15": {
        "technique": "custom static analysis over clang AST+CFG facts: ring-index abstract interpretation (3-point lattice), polynomial region bounds, path pairing (must-pass / exactly-once), guard dominance, writer census",
        "text": "Decides, for every path of every function of ps_endpointer.c, the structural clauses that make returned frames exact in-order excerpts with a coherent clock: ring indices in [0,maxlen) at every use, every copy inside the allocation, head advance <-> qstart_time pairing, one push and one timestamp tick per frame, in_speech written only under the strict threshold tests with speech_start/speech_end taken from the queue clock, counter index set = queued frames, linearize moves frames and flags identically. Does not decide the numeric meaning of the thresholds or timestamp values.",
        "design_ref": "DESIGN.md section 4, C15",
    },
    "C20": {
        "technique": "custom static analysis over clang AST+CFG facts: path pairing (exactly-once counters), struct-copy completeness against the record's field list, release-then-read typestate on locals, guard dominance (length before bytes, head-empty invariant), sibling agreement of wrappers and traversals",
        "text": "Decides on every path of hash_table.c the bookkeeping and link-surgery clauses a chained map needs: inuse changes exactly once per inserted / deleted key and never otherwise; the head slot refilled from its successor copies every field of hash_entry_t before the successor is released; no node is read after release and every release is preceded by its unlink; a head key is cleared only when its chain is empty; lookups compare length before bytes with the comparator of the table's case mode and hashing folds case in no-case mode; all eight public wrappers hash the key they pass on; the five traversals visit head iff key != NULL and then the whole chain, the iterator advancing exactly once per bucket. Does not decide map semantics over operation histories.",
        "design_ref": "DESIGN.md section 4, C20",
    },
    "C19": {
        "technique": "custom static analysis over clang AST+CFG facts: guard dominance of the table read, width writer/reader exhaustiveness over switch labels and element-pointer casts, branch symmetry under argument exchange, canonical-form comparison of inverse conversion pairs and of the two passes of the table builder",
        "text": "Decides the structural clauses of logmath.c: every log-add table read is dominated by 0 <= d < table_size with d unchanged in between; the widths the initialiser can choose {1,2,4} are exactly the labels of all three width switches and each case accesses the table through an unsigned element pointer of that width, allocation count equals table_size; logmath_add is symmetric under exchanging its arguments (zero short-circuits mirrored and first, (d,r) = (x-y,x)/(y-x,y)); every result is r or r + unsigned entry; log() is guarded by p > 0; log/exp and ln/log10 conversions use matching constants and opposite shift directions; sizing and filling passes of the table builder compute the same value, decay and stop test. Accuracy to half a unit and the log 2 bound are numerical and not decided.",
        "design_ref": "DESIGN.md section 4, C19",
    },
    "C01": {
        "technique": "custom static analysis over clang AST+CFG facts: argument provenance (reaching definitions + canonical forms with sound forward substitution) at every history-entry creation and HMM entry, guard dominance with edge refinement for the final-state constraint, iterator root/step classification of back-trace loops, writer census over the whole library",
        "text": "Decides the path-connectivity obligations that make the history table a tree of grammar paths and the back-trace a walk in it: null propagation, cross-word and within-tree transitions and word exits pass links, states, predecessor indices, frames and contexts that belong to the same history entry / lextree node (O1-O4); every store selecting the exit entry is control-dependent on (!final || to_state == final_state) of the entry at the stored index and 'nothing selected' returns -1 (O7); all four back-trace loops start at the exit, fetch the entry at the walk index and continue with its pred (O8); entry creation stores its parameters unmodified (O9); only fsg_history_entry_add writes entries (O10); final is FALSE from start and TRUE only in finish (O11); per-frame phase order. Does not decide that pruning keeps a path alive, nor completeness of the stored null closure.",
        "design_ref": "DESIGN.md section 4, C01",
    },
    "C03": {
        "technique": "custom static analysis over clang AST+CFG facts: argument/field provenance, polynomial (linear) normal forms for the score identity, sibling agreement of the two hypothesis passes, path pairing of step/advance/counters",
        "text": "Decides: segment end = entry frame, start = predecessor entry's frame + 1 (0 without), clamped only under sf > ef; word and grammar score come from the same entry's link; ascr + lscr = score(e) - score(pred e) holds as a symbolic identity on both branches so segment scores telescope to the path score; the length pass and fill pass of the hypothesis builder skip the same (null/filler) entries, use the base form, count strlen+1 where the fill writes strlen + guarded separator, and the buffer is the counted length; each successful search step is followed by exactly one acmod_advance and one increment of each counter, processing calls return the sum from 0; the segment list is filled from the back and iterated from 0 to n_hist. Does not decide that the first segment starts at 0 or that nothing extends past the frames searched (runtime values).",
        "design_ref": "DESIGN.md section 4, C03",
    },
}
