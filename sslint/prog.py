"""Program model over the ssfacts JSON: functions, typed nodes, canonical
expression forms with forward substitution, CFG utilities (dominators,
element-granular reachability, edge conditions), reaching definitions,
call graph with indirect-call slots.
"""
import json
import os
import re
from collections import defaultdict, deque

from . import build
from .build import AnalysisIncomplete

COMMUTATIVE = {"+", "*", "==", "!=", "&", "|", "^"}
TRANSPARENT = {"Paren", "ICast"}


class Function:
    def __init__(self, d, unit, prog):
        self.d = d
        self.unit = unit
        self.prog = prog
        self.name = d["name"]
        self.file = d["file"]
        self.nodes = d["nodes"]
        self.root = d["root"]
        self.params = d["params"]           # [name, type, declid, canon]
        self.static = d["static"]
        self.ret = d["cret"]
        self.loc = d["loc"]
        self._parent = None
        self._cfg = None
        self._rd = None
        self._addr_taken = None
        self._canon_cache = {}
        self._thru_calls = False
        self.new_aliases = {}
        self._apply_recorded_names()

    # ---- names ---------------------------------------------------------
    def _apply_recorded_names(self):
        """See tools/mkanchors.py: a local, parameter or field that was only
        renamed is presented to the rules under the name recorded when the
        rules were confirmed.  Nothing but names changes; when the locals of
        a function were added to, removed or retyped the mapping is limited to
        what can be matched unambiguously by type and order."""
        A = _anchors()
        if A is None:
            return
        ref = A["functions"].get("%s:%s" % (self.unit, self.name))
        if ref is not None:
            cur = [[p[0], p[3], p[2]] for p in self.params]
            seen = set()
            for nd in self.nodes:
                if nd["k"] == "Var" and nd["decl"] not in seen and "inl" not in nd:
                    seen.add(nd["decl"])
                    cur.append([nd["name"], nd.get("ct", nd.get("t", "")), nd["decl"]])
            ren = {}
            if len(cur) == len(ref) and all(c[1] == r[1] for c, r in zip(cur, ref)):
                for c, r in zip(cur, ref):
                    if c[0] != r[0]:
                        ren[c[2]] = r[0]
            else:
                refnames = [r[0] for r in ref]
                curnames = [c[0] for c in cur]
                gone = [r for r in ref if r[0] not in curnames]
                new = [c for c in cur if c[0] not in refnames]
                # match per type, in order, only when the counts agree for that type
                for t in set(r[1] for r in gone):
                    g = [r for r in gone if r[1] == t]
                    n = [c for c in new if c[1] == t]
                    if len(g) == len(n):
                        for c, r in zip(n, g):
                            ren[c[2]] = r[0]
            if ren:
                for nd in self.nodes:
                    if nd["k"] in ("Var", "DeclRef") and nd.get("decl") in ren:
                        nd["name"] = ren[nd["decl"]]
                for p in self.params:
                    if p[2] in ren:
                        p[0] = ren[p[2]]
        # locals that did not exist when the rules were confirmed and merely name a path of the
        # program state (`acmod_t *acmod = d->acmod;`): presented as that path everywhere
        self.new_aliases = {}
        if ref is not None:
            known = set(r[0] for r in ref)
            stored = {}
            for nd in self.nodes:
                if nd["k"] in ("Assign", "CompoundAssign") or (nd["k"] == "Un" and nd.get("op") in ("post++", "pre++", "post--", "pre--", "&")):
                    t = nd["ch"][0]
                    while self.nodes[t]["k"] in ("Paren", "ICast", "Cast"):
                        t = self.nodes[t]["ch"][0]
                    if self.nodes[t]["k"] == "DeclRef":
                        stored.setdefault(self.nodes[t].get("decl"), []).append(nd["ch"][1] if (nd["k"] == "Assign" and nd.get("op") == "=") else None)
            for nd in self.nodes:
                hasinit = bool(nd.get("ch")) and nd["k"] == "Var" and self.nodes[nd["ch"][0]]["k"] != "Absent"
                # declared with the path, or declared bare and assigned it exactly once
                once = nd["k"] == "Var" and not hasinit and len(stored.get(nd.get("decl"), [])) == 1 and stored[nd["decl"]][0] is not None
                if nd["k"] == "Var" and "inl" not in nd and nd["name"] not in known and not nd.get("static") and ((hasinit and nd["decl"] not in stored) or once):
                    v = nd["ch"][0] if hasinit else stored[nd["decl"]][0]
                    j = v
                    okp = True
                    st = [j]
                    while st:
                        x = st.pop()
                        kx = self.nodes[x]["k"]
                        if kx in ("Paren", "ICast", "Cast", "Member"):
                            st.extend(self.nodes[x]["ch"])
                        elif kx == "DeclRef" and (self.nodes[x].get("ref") == "param" or self.nodes[x].get("decl") in self.new_aliases):
                            pass
                        else:
                            okp = False
                            break
                    if okp and any(self.nodes[x]["k"] == "Member" for x in self._subtree(v)):
                        self.new_aliases[nd["decl"]] = v
        fr = _field_renames(self.prog)
        if fr:
            for nd in self.nodes:
                if nd["k"] == "Member":
                    m = fr.get(nd.get("rec"))
                    if m and nd["field"] in m:
                        nd["field"] = m[nd["field"]]

    def _subtree(self, i):
        st = [i]
        while st:
            x = st.pop()
            yield x
            st.extend(self.nodes[x]["ch"])

    # ---- tree navigation ---------------------------------------------
    def n(self, i):
        return self.nodes[i]

    def k(self, i):
        return self.nodes[i]["k"]

    def ch(self, i):
        return self.nodes[i]["ch"]

    @property
    def parent(self):
        if self._parent is None:
            p = [None] * len(self.nodes)
            for i, nd in enumerate(self.nodes):
                for c in nd["ch"]:
                    p[c] = i
            self._parent = p
        return self._parent

    def walk(self, i=None):
        """preorder ids of the subtree"""
        if i is None:
            i = self.root
        st = [i]
        while st:
            x = st.pop()
            yield x
            st.extend(reversed(self.nodes[x]["ch"]))

    def ancestors(self, i):
        p = self.parent[i]
        while p is not None:
            yield p
            p = self.parent[p]

    def strip(self, i, casts=True):
        while True:
            k = self.nodes[i]["k"]
            if k in TRANSPARENT or (casts and k == "Cast"):
                i = self.nodes[i]["ch"][0]
            else:
                return i

    def up(self, i, casts=True):
        """nearest ancestor that is not a transparent wrapper"""
        p = self.parent[i]
        while p is not None:
            k = self.nodes[p]["k"]
            if k in TRANSPARENT or (casts and k == "Cast"):
                p = self.parent[p]
            else:
                return p
        return None

    def constval(self, i):
        """integer constant value of an expression (outermost folded value
        wins, so casts of literals are honoured), or None"""
        while True:
            nd = self.nodes[i]
            if "cv" in nd and nd["k"] != "DeclRef" and isinstance(nd["cv"], int):
                return nd["cv"]
            if nd["k"] in ("Int", "Char"):
                return nd["v"]
            if nd["k"] == "DeclRef" and nd.get("ref") == "enum" and "cv" in nd:
                return nd["cv"]
            if nd["k"] in ("Paren", "ICast", "Cast"):
                i = nd["ch"][0]
                continue
            return None

    def line(self, i):
        nd = self.nodes[i]
        while "l" not in nd:
            if not nd["ch"]:
                return 0
            nd = self.nodes[nd["ch"][0]]
        return nd["l"][0]

    def where(self, i):
        return "%s:%d" % (self.relfile(), self.line(i))

    def relfile(self):
        f = self.file
        if f.startswith(build.REPO + "/"):
            f = f[len(build.REPO) + 1:]
        return f

    def mac(self, i):
        return self.nodes[i].get("mac", [])

    def in_macro(self, i, name):
        return name in self.mac(i)

    def find(self, kind=None, pred=None, root=None):
        out = []
        for i in self.walk(root):
            nd = self.nodes[i]
            if kind is not None and nd["k"] != kind and (not isinstance(kind, (set, tuple, list)) or nd["k"] not in kind):
                continue
            if pred is not None and not pred(nd):
                continue
            out.append(i)
        return out

    def calls(self, callee=None, root=None):
        out = []
        for i in self.walk(root):
            nd = self.nodes[i]
            if nd["k"] == "Call":
                if callee is None or nd.get("callee") == callee or (isinstance(callee, (set, tuple, list)) and nd.get("callee") in callee):
                    out.append(i)
        return out

    def args(self, call):
        return self.nodes[call]["ch"][1:]

    def enclosing(self, i, kinds):
        for a in self.ancestors(i):
            if self.nodes[a]["k"] in kinds:
                return a
        return None

    def stmt_of(self, i):
        """the outermost expression/statement that is a direct child of a
        Compound / control statement"""
        cur = i
        for a in self.ancestors(i):
            if self.nodes[a]["k"] in ("Compound", "If", "While", "For", "Do", "Switch", "Case", "Default", "Label"):
                return cur
            cur = a
        return cur

    # ---- lvalue / access paths -------------------------------------------
    def is_lvalue_kind(self, i):
        return self.k(self.strip(i)) in ("DeclRef", "Member", "Subscript", "Un")

    def base_var(self, i):
        """the DeclRef at the root of an access path, or None"""
        i = self.strip(i)
        nd = self.nodes[i]
        k = nd["k"]
        if k == "DeclRef":
            return i
        if k in ("Member", "Subscript"):
            return self.base_var(nd["ch"][0])
        if k == "Un" and nd["op"] in ("*", "&"):
            return self.base_var(nd["ch"][0])
        if k == "Bin" and nd["op"] in ("+", "-"):
            return self.base_var(nd["ch"][0])
        return None

    # ---- address taken -------------------------------------------------
    @property
    def addr_taken(self):
        if self._addr_taken is None:
            s = set()
            for i in self.walk():       # nodes of the tree only (arguments of replaced calls are detached)
                nd = self.nodes[i]
                if nd["k"] == "Un" and nd["op"] == "&":
                    t = self.strip(nd["ch"][0])
                    if self.k(t) == "DeclRef" and self.nodes[t]["ref"] in ("local", "param"):
                        s.add(self.nodes[t]["decl"])
            self._addr_taken = s
        return self._addr_taken

    # ---- CFG ------------------------------------------------------------
    @property
    def cfg(self):
        if self._cfg is None:
            self._cfg = CFG(self)
        return self._cfg

    @property
    def rd(self):
        if self._rd is None:
            self._rd = ReachingDefs(self)
        return self._rd

    # ---- canonical rendering ----------------------------------------------
    def src(self, i):
        return self.canon(i, subst=False)

    def canon(self, i, subst=True, fold=True, casts=False, depth=6, inline_helpers=False, calls=False, _stack=None):
        """calls=True also substitutes locals defined by calls with side
        effects (provenance through a constructor / mutator call)"""
        if i is None:
            return "?"       # a store without a right-hand side (x++ / x--, also spelled x = x + 1)
        key = (i, subst, fold, casts, depth, inline_helpers, calls)
        if _stack is None and key in self._canon_cache:
            return self._canon_cache[key]
        self._thru_calls = calls
        try:
            r = self._canon(i, subst, fold, casts, depth, inline_helpers, _stack or ())
        finally:
            self._thru_calls = False
        if _stack is None:
            self._canon_cache[key] = r
        return r

    def _canon(self, i, subst, fold, casts, depth, inl, stack):
        nd = self.nodes[i]
        k = nd["k"]
        C = lambda j, d=depth: self._canon(j, subst, fold, casts, d, inl, stack)
        if k in TRANSPARENT:
            return C(nd["ch"][0])
        if k == "Cast":
            if fold and "cv" in nd and isinstance(nd["cv"], int):
                return str(nd["cv"])
            if casts:
                return "(%s)%s" % (nd.get("ct", nd["t"]), C(nd["ch"][0]))
            return C(nd["ch"][0])
        if k == "Int":
            return str(nd["v"])
        if k == "Char":
            return str(nd["v"])
        if k == "Float":
            return nd["v"]
        if k == "Str":
            return json.dumps(nd.get("v", "?"))
        if fold and "cv" in nd and k not in ("DeclRef",):
            # folded constants (macros like MAX_NEG_INT32, sizeof arithmetic)
            if not self._mentions_enum_only(i):
                return str(nd["cv"])
        if k == "DeclRef":
            if nd.get("decl") in self.new_aliases and nd["decl"] not in stack and depth > 0:
                return self._canon(self.new_aliases[nd["decl"]], subst, fold, casts, depth - 1, inl, stack + (nd["decl"],))
            if nd["ref"] in ("local", "param") and subst and depth > 0 and nd["decl"] not in self.addr_taken and nd["decl"] not in stack:
                v = self.rd.unique_def_value(i)
                if v is not None and (self._thru_calls or not self._is_alloc(v)):
                    return self._canon(v, subst, fold, casts, depth - 1, inl, stack + (nd["decl"],))
                if v is None:
                    # `if (c) x = A; else x = B;` reads like `x = c ? A : B`
                    dm = self.rd.diamond_def(i)
                    if dm is not None:
                        st2 = stack + (nd["decl"],)
                        return "(%s ? %s : %s)" % (self._truth(dm[0], subst, fold, casts, depth - 1, inl, st2), self._canon(dm[1], subst, fold, casts, depth - 1, inl, st2), self._canon(dm[2], subst, fold, casts, depth - 1, inl, st2))
            return nd["name"]
        if k == "Member":
            b = nd["ch"][0]
            bs = self.strip(b)
            bn = self.nodes[bs]
            if nd["arrow"]:
                # (&X)->f  ==> X.f
                if bn["k"] == "Un" and bn["op"] == "&":
                    return "%s.%s" % (C(bn["ch"][0]), nd["field"])
                base = C(b)
                if base.startswith("&") and self._simple_path(base[1:]):
                    return "%s.%s" % (base[1:], nd["field"])
                return "%s->%s" % (self._wrap(base), nd["field"])
            else:
                if bn["k"] == "Un" and bn["op"] == "*":
                    return "%s->%s" % (self._wrap(C(bn["ch"][0])), nd["field"])
                return "%s.%s" % (self._wrap(C(b)), nd["field"])
        if k == "Subscript":
            return "%s[%s]" % (self._wrap(C(nd["ch"][0])), C(nd["ch"][1]))
        if k == "Un":
            op = nd["op"]
            s = C(nd["ch"][0])
            if op == "*":
                if s.startswith("&") and self._simple_path(s[1:]):
                    return s[1:]
                sn = self.nodes[self.strip(nd["ch"][0])]
                if sn["k"] == "Bin" and sn["op"] == "+":
                    a, b = sn["ch"]
                    ta = self.nodes[a].get("ct", self.nodes[a].get("t", ""))
                    if "*" in ta or "[" in ta:
                        return "%s[%s]" % (self._wrap(C(a)), C(b))
                    return "%s[%s]" % (self._wrap(C(b)), C(a))
                return "*" + self._wrap(s)
            if op == "&":
                s = self._lhs(nd["ch"][0], C)
                if s.startswith("*") and self._simple_path(s[1:]):
                    return s[1:]
                return "&" + self._wrap(s)
            if op.startswith("post"):
                return "%s%s" % (self._wrap(self._lhs(nd["ch"][0], C)), op[4:])
            if op.startswith("pre"):
                return "%s%s" % (op[3:], self._wrap(self._lhs(nd["ch"][0], C)))
            if op == "+":
                return s
            return "%s%s" % (op, self._wrap(s))
        if k == "Bin":
            a = C(nd["ch"][0])
            b = C(nd["ch"][1])
            op = nd["op"]
            if op in COMMUTATIVE and b < a:
                a, b = b, a
            if op == ">":
                a, b, op = b, a, "<"
            elif op == ">=":
                a, b, op = b, a, "<="
            return "(%s %s %s)" % (a, op, b)
        if k in ("Assign", "CompoundAssign"):
            return "%s %s %s" % (self._lhs(nd["ch"][0], C), nd["op"], C(nd["ch"][1]))
        if k == "Call":
            cal = nd.get("callee")
            if cal is None:
                cal = "(" + C(nd["ch"][0]) + ")"
            if inl and nd.get("callee") and depth > 0:
                r = self.prog.inline_simple(self, i, subst, fold, casts, depth, stack)
                if r is not None:
                    return r
            return "%s(%s)" % (cal, ", ".join(C(a) for a in nd["ch"][1:]))
        if k == "Cond":
            return "(%s ? %s : %s)" % (self._truth(nd["ch"][0], subst, fold, casts, depth, inl, stack), C(nd["ch"][1]), C(nd["ch"][2]))
        if k == "Sizeof":
            return "sizeof(%s)" % nd.get("cty", nd.get("ty"))
        if k == "InitList":
            return "{%s}" % ", ".join(C(c) for c in nd["ch"])
        if k == "CompoundLiteral":
            return C(nd["ch"][0])
        if k == "Var":
            return "%s = %s" % (nd["name"], C(nd["ch"][0])) if nd["ch"] else nd["name"]
        if k == "Return":
            return "return %s" % (C(nd["ch"][0]) if nd["ch"] else "")
        if k == "Absent":
            return ""
        return "<%s>" % k

    def _truth(self, i, subst, fold, casts, depth, inl, stack):
        """an expression used for its truth value: `x != 0` reads `x`, `x == 0` reads `!x`"""
        j = self.strip(i)
        nd = self.nodes[j]
        if nd["k"] == "Bin" and nd["op"] in ("!=", "=="):
            a, b = nd["ch"]
            for (x, z) in ((a, b), (b, a)):
                zn = self.nodes[self.strip(z)]
                if zn["k"] == "Null" or (zn["k"] == "Int" and zn.get("v") == 0) or (zn.get("cv") == 0 and zn["k"] not in ("DeclRef", "Member", "Subscript", "Call", "Bin", "Un")):
                    r = self._canon(x, subst, fold, casts, depth, inl, stack)
                    return r if nd["op"] == "!=" else "!" + self._wrap(r)
        return self._canon(i, subst, fold, casts, depth, inl, stack)

    def def_forms(self, use_node, subst=True, calls=False):
        """canonical forms of every definition of a local that reaches
        use_node: list of (def_node, form|None); None = unknown value
        (parameter entry, ++/--, compound assignment, uninitialised).  A
        self-referential step like `x = x->next` is rendered unsubstituted."""
        out = []
        for (dn, val) in self.rd.def_values(use_node):
            if val in (None, "uninit", "param"):
                out.append((dn, None if val is None else val))
            else:
                out.append((dn, self.canon(val, subst=subst, calls=calls)))
        return out

    def local_defs(self, decl, subst=True):
        """canonical forms of all definitions of a local in the function"""
        out = []
        for (d, node, val) in self.rd.all_defs(decl):
            if node == "param":
                out.append((node, "param"))
            elif val in (None, "uninit"):
                out.append((node, val))
            else:
                out.append((node, self.canon(val, subst=subst)))
        return out

    def _is_alloc(self, v):
        """a value computed by a call with side effects (allocation,
        construction, mutation) is named by its variable, never re-rendered
        as the call; pure accessors are substituted"""
        for j in self.walk(v):
            nd = self.nodes[j]
            if nd["k"] == "Call":
                cal = nd.get("callee")
                if cal is None or not self.prog.is_pure(cal):
                    return True
        return False

    def _lhs(self, i, C):
        """an assigned / address-taken operand: a bare variable is never
        replaced by its reaching definition"""
        j = self.strip(i)
        if self.nodes[j]["k"] == "DeclRef":
            return self.nodes[j]["name"]
        return C(i)

    def _mentions_enum_only(self, i):
        # a bare enum constant (possibly wrapped) keeps its name
        j = self.strip(i)
        nd = self.nodes[j]
        return nd["k"] == "DeclRef" and nd["ref"] == "enum"

    @staticmethod
    def _simple_path(s):
        return re.match(r"^[\w.\->\[\]]+$", s) is not None

    @staticmethod
    def _wrap(s):
        if _postfix_safe(s) or (s.startswith("(") and s.endswith(")") and _balanced_paren(s)):
            return s
        return "(" + s + ")"

    def __repr__(self):
        return "<fn %s %s>" % (self.name, self.unit)


def _skip_balanced(s, i, o, c):
    d = 0
    while i < len(s):
        if s[i] == o:
            d += 1
        elif s[i] == c:
            d -= 1
            if d == 0:
                return i + 1
        i += 1
    return -1


def _postfix_safe(s):
    """identifier / number / call followed by ->x .x [..] (..) suffixes"""
    m = re.match(r"^-?[\w]+", s)
    if not m:
        return False
    i = m.end()
    n = len(s)
    while i < n:
        if s[i] == "(":
            i = _skip_balanced(s, i, "(", ")")
        elif s[i] == "[":
            i = _skip_balanced(s, i, "[", "]")
        elif s.startswith("->", i):
            m = re.match(r"\w+", s[i + 2:])
            if not m:
                return False
            i += 2 + m.end()
        elif s[i] == ".":
            m = re.match(r"\w+", s[i + 1:])
            if not m:
                return False
            i += 1 + m.end()
        else:
            return False
        if i < 0:
            return False
    return True


def cbin(op, a, b):
    """canonical rendering of a binary operation from canonical operands
    (same ordering rules as Function.canon)"""
    if op in COMMUTATIVE and b < a:
        a, b = b, a
    if op == ">":
        a, b, op = b, a, "<"
    elif op == ">=":
        a, b, op = b, a, "<="
    return "(%s %s %s)" % (a, op, b)


def _balanced_call(s):
    # s looks like name(...) and the first '(' closes at the end
    i = s.index("(")
    d = 0
    for j in range(i, len(s)):
        if s[j] == "(":
            d += 1
        elif s[j] == ")":
            d -= 1
            if d == 0:
                return j == len(s) - 1
    return False


def _balanced_paren(s):
    d = 0
    for j, c in enumerate(s):
        if c == "(":
            d += 1
        elif c == ")":
            d -= 1
            if d == 0:
                return j == len(s) - 1
    return False


NORETURN = ("__assert_fail", "abort", "exit", "_exit")
_ANCHORS = [False]
_FIELD_REN = {}


def _anchors():
    if _ANCHORS[0] is False:
        p = os.path.join(build.VERIF, "anchors", "names.json")
        if os.environ.get("SS_NO_ANCHORS") or not os.path.exists(p):
            _ANCHORS[0] = None
        else:
            with open(p) as f:
                _ANCHORS[0] = json.load(f)
    return _ANCHORS[0]


def _field_renames(prog):
    """record -> {current field name: recorded name} for records whose fields
    kept their number, order and types"""
    A = _anchors()
    if A is None:
        return None
    key = id(prog)
    if key not in _FIELD_REN:
        _FIELD_REN[key] = {}
    out = _FIELD_REN[key]
    for name, r in prog.records.items():
        if name in out:
            continue
        ref = A["records"].get(name)
        m = {}
        if ref is not None:
            cur = [[x[0], x[2]] for x in r["fields"]]
            if len(cur) == len(ref) and all(c[1] == q[1] for c, q in zip(cur, ref)):
                for c, q in zip(cur, ref):
                    if c[0] != q[0]:
                        m[c[0]] = q[0]
        out[name] = m
    return out


class CFG:
    def __init__(self, fn):
        self.fn = fn
        c = fn.d["cfg"]
        if c is None:
            raise AnalysisIncomplete("no CFG for %s" % fn.name)
        self.entry = c["entry"]
        self.exit = c["exit"]
        self.blocks = {b["id"]: b for b in c["blocks"]}
        self.succs = {}
        self.preds = defaultdict(list)
        for b in c["blocks"]:
            ss = [s for s in b["succs"]]
            # a block that ends in a call that does not return (failed assert, exit, abort) is a dead
            # end, not a way to the function's exit: clang links it to EXIT, which would make every
            # "on all paths to the exit" question depend on whether asserts are compiled in
            if len(ss) == 1 and ss[0] == self.exit and any(e >= 0 and fn.nodes[e]["k"] == "Call" and fn.nodes[e].get("callee") in NORETURN for e in b["elems"]):
                ss = []
            self.succs[b["id"]] = ss
            for s in ss:
                if s is not None:
                    self.preds[s].append(b["id"])
        # straight-line chains are one block: a block that only falls through into a block nothing else
        # enters (as left behind where a helper's body was presented at its call) is merged with it, so
        # that "in the same block" means "nothing can happen in between" however the code was cut up
        changed = True
        while changed:
            changed = False
            for bid in list(self.blocks):
                blk = self.blocks.get(bid)
                if blk is None or bid == self.exit:
                    continue
                ss = self.succs.get(bid, [])
                if len(ss) != 1 or ss[0] is None or ss[0] in (self.exit, self.entry, bid):
                    continue
                if blk.get("term") is not None or blk.get("cond") is not None:
                    continue
                sid = ss[0]
                sb = self.blocks[sid]
                if self.preds.get(sid, []) != [bid] or sb.get("label") is not None:
                    continue
                if bid == self.entry and not blk["elems"] and False:
                    continue
                # merge sid into bid
                nb = dict(blk)
                nb["elems"] = list(blk["elems"]) + list(sb["elems"])
                for k_ in ("term", "termk", "cond"):
                    if k_ in sb:
                        nb[k_] = sb[k_]
                nb["succs"] = list(self.succs[sid])
                self.blocks[bid] = nb
                self.succs[bid] = self.succs[sid]
                for t in self.succs[sid]:
                    if t is not None:
                        self.preds[t] = [bid if x == sid else x for x in self.preds[t]]
                del self.blocks[sid]
                del self.succs[sid]
                self.preds.pop(sid, None)
                changed = True
        c = dict(c)
        c["blocks"] = [self.blocks[b_] for b_ in self.blocks]
        # position of each node id in the CFG
        self.pos = {}
        for b in c["blocks"]:
            for idx, e in enumerate(b["elems"]):
                if e >= 0 and e not in self.pos:
                    self.pos[e] = (b["id"], idx)
        # terminators (break / continue / goto / return-less jumps) are not
        # elements: position them at the end of their block
        for b in c["blocks"]:
            t = b.get("term")
            if t is not None and t >= 0 and t not in self.pos and fn.nodes[t]["k"] in ("Break", "Continue", "Goto"):
                self.pos[t] = (b["id"], len(b["elems"]))
        self._dom = None
        self._pdom = None
        self._reach = None

    def elems(self, b):
        return self.blocks[b]["elems"]

    def cond(self, b):
        return self.blocks[b].get("cond")

    def term(self, b):
        return self.blocks[b].get("term")

    def termk(self, b):
        return self.blocks[b].get("termk")

    def position(self, node):
        """(block, index) of a node; expression nodes not themselves CFG
        elements (rare) are located through their nearest ancestor / first
        descendant that is."""
        fn = self.fn
        if node in self.pos:
            return self.pos[node]
        # try descendants in evaluation order (last evaluated child first)
        for d in fn.walk(node):
            if d in self.pos:
                return self.pos[d]
        for a in fn.ancestors(node):
            if a in self.pos:
                return self.pos[a]
        return None

    # edges with branch conditions: yields (src, dst, cond_node, polarity)
    def cond_edges(self):
        for b, blk in self.blocks.items():
            c = blk.get("cond")
            ss = self.succs[b]
            if c is None or c < 0:
                continue
            tk = blk.get("termk")
            if tk == "SwitchStmt":
                continue
            # the condition of a block that ends an `a && b` / `a || b` chain
            # is reported by clang as the whole logical expression; its value
            # on leaving this block is the value of the last operand
            neg = False
            while True:
                cj = self.fn.strip(c)
                cn = self.fn.nodes[cj]
                if cn["k"] == "Bin" and cn["op"] in ("&&", "||") and self.fn.strip(blk.get("term", -1)) != cj:
                    c = cn["ch"][1]
                elif cn["k"] == "Un" and cn.get("op") == "!" and self.fn.nodes[self.fn.strip(cn["ch"][0])]["k"] == "Bin" and self.fn.nodes[self.fn.strip(cn["ch"][0])]["op"] in ("&&", "||") \
                        and self.fn.strip(blk.get("term", -1)) != self.fn.strip(cn["ch"][0]):
                    # `!(a && b)` at the end of the chain: leaving this block its value is that of `!b`
                    c = cn["ch"][0]
                    neg = not neg
                else:
                    break
            if len(ss) == 2:
                if ss[0] is not None:
                    yield (b, ss[0], c, not neg)
                if ss[1] is not None:
                    yield (b, ss[1], c, neg)

    def switch_edges(self):
        """yields (src, dst, cond_node, set_of_case_values or None for default)"""
        fn = self.fn
        for b, blk in self.blocks.items():
            if blk.get("termk") != "SwitchStmt":
                continue
            c = blk.get("cond")
            for s in self.succs[b]:
                if s is None:
                    continue
                lab = self.blocks[s].get("label")
                vals = None
                if lab is not None and lab >= 0:
                    ln = fn.nodes[lab]
                    if ln["k"] == "Case":
                        vals = set()
                        # fallthrough chains: Case -> Case -> stmt
                        cur = lab
                        while cur is not None and fn.nodes[cur]["k"] == "Case":
                            if "v" in fn.nodes[cur]:
                                vals.add(fn.nodes[cur]["v"])
                            nxt = fn.nodes[cur]["ch"][1]
                            cur = nxt if fn.nodes[nxt]["k"] in ("Case", "Default") else None
                        if cur is not None and fn.nodes[cur]["k"] == "Default":
                            vals = None
                yield (b, s, c, vals)

    # ---- dominators ------------------------------------------------------
    def _compute_dom(self, entry, succs, preds):
        order = []
        seen = set()
        st = [(entry, iter([s for s in succs(entry) if s is not None]))]
        seen.add(entry)
        while st:
            nnode, it = st[-1]
            adv = False
            for s in it:
                if s not in seen:
                    seen.add(s)
                    st.append((s, iter([x for x in succs(s) if x is not None])))
                    adv = True
                    break
            if not adv:
                order.append(nnode)
                st.pop()
        rpo = list(reversed(order))
        idx = {b: i for i, b in enumerate(rpo)}
        idom = {entry: entry}
        changed = True
        while changed:
            changed = False
            for b in rpo[1:]:
                ps = [p for p in preds(b) if p in idom]
                if not ps:
                    continue
                new = ps[0]
                for p in ps[1:]:
                    a, c = p, new
                    while a != c:
                        while idx[a] > idx[c]:
                            a = idom[a]
                        while idx[c] > idx[a]:
                            c = idom[c]
                    new = a
                if idom.get(b) != new:
                    idom[b] = new
                    changed = True
        return idom

    @property
    def idom(self):
        if self._dom is None:
            self._dom = self._compute_dom(self.entry, lambda b: self.succs[b], lambda b: self.preds[b])
        return self._dom

    def dominates(self, a, b):
        """block a dominates block b"""
        idom = self.idom
        if b not in idom:
            return False
        while True:
            if a == b:
                return True
            if idom[b] == b:
                return False
            b = idom[b]

    def reachable_blocks(self, start=None, removed_edges=(), removed_blocks=()):
        if start is None:
            start = self.entry
        removed_edges = set(removed_edges)
        removed_blocks = set(removed_blocks)
        seen = {start}
        dq = deque([start])
        while dq:
            b = dq.popleft()
            for s in self.succs[b]:
                if s is None or (b, s) in removed_edges or s in removed_blocks:
                    continue
                if s not in seen:
                    seen.add(s)
                    dq.append(s)
        return seen

    # ---- element-granular reachability ------------------------------------
    def path_exists(self, start, is_target, is_barrier=None, start_after=True, removed_edges=()):
        """Is there a CFG path from `start` (a (block, idx) point; the walk
        begins after that element when start_after) to an element e with
        is_target(e) true, that does not pass through an element with
        is_barrier(e) true?  is_target may also be the string 'exit'
        (function exit).  Barrier is tested before target for the same
        element."""
        removed_edges = set(removed_edges)
        b0, i0 = start
        seen = set()
        dq = deque([(b0, i0 + 1 if start_after else i0)])
        while dq:
            b, i = dq.popleft()
            els = self.blocks[b]["elems"]
            blocked = False
            j = i
            while j < len(els):
                e = els[j]
                if e >= 0:
                    if is_barrier is not None and is_barrier(e):
                        blocked = True
                        break
                    if is_target != "exit" and is_target(e):
                        return True
                j += 1
            if blocked:
                continue
            if b == self.exit and is_target == "exit":
                return True
            for s in self.succs[b]:
                if s is None or (b, s) in removed_edges:
                    continue
                if (s, 0) not in seen:
                    seen.add((s, 0))
                    dq.append((s, 0))
        return False


class ReachingDefs:
    """Reaching definitions of locals and parameters.  A definition is
    (decl, def_node, value_node|None).  value None = unknown (inc/dec,
    compound assignment, parameter entry value)."""

    def __init__(self, fn):
        self.fn = fn
        cfg = fn.cfg
        self._udv = {}
        self.defs = []                 # index -> (decl, node, value)
        self.defs_of = defaultdict(list)
        self.gen_at = {}               # node id -> def index
        nodes = fn.nodes
        for p in fn.params:
            di = len(self.defs)
            self.defs.append((p[2], "param", None))
            self.defs_of[p[2]].append(di)
        self.param_defs = list(range(len(self.defs)))
        for i, nd in enumerate(nodes):
            k = nd["k"]
            decl = None
            val = None
            if k == "Var" and not nd.get("static"):
                decl = nd["decl"]
                val = nd["ch"][0] if nd["ch"] else "uninit"
            elif k == "Assign":
                t = fn.strip(nd["ch"][0])
                if nodes[t]["k"] == "DeclRef" and nodes[t]["ref"] in ("local", "param"):
                    decl = nodes[t]["decl"]
                    val = nd["ch"][1]
            elif k == "CompoundAssign":
                t = fn.strip(nd["ch"][0])
                if nodes[t]["k"] == "DeclRef" and nodes[t]["ref"] in ("local", "param"):
                    decl = nodes[t]["decl"]
                    val = None
            elif k == "Un" and nd["op"] in ("post++", "post--", "pre++", "pre--"):
                t = fn.strip(nd["ch"][0])
                if nodes[t]["k"] == "DeclRef" and nodes[t]["ref"] in ("local", "param"):
                    decl = nodes[t]["decl"]
                    val = None
            if decl is not None:
                di = len(self.defs)
                self.defs.append((decl, i, val))
                self.defs_of[decl].append(di)
                self.gen_at[i] = di
                if k == "Var":
                    # the CFG element is the enclosing single-declarator
                    # DeclStmt (multi-declarator ones are split by clang and
                    # mapped to the Var node by ssfacts)
                    par = fn.parent[i]
                    if par is not None and nodes[par]["k"] == "Decl" and len(nodes[par]["ch"]) == 1:
                        self.gen_at[par] = di
        # block-level gen/kill
        self.IN = {}
        gen = {}
        kill = {}
        for b, blk in cfg.blocks.items():
            g = {}
            for e in blk["elems"]:
                if e in self.gen_at:
                    di = self.gen_at[e]
                    g[self.defs[di][0]] = di
            gen[b] = g
        IN = {b: frozenset() for b in cfg.blocks}
        OUT = {b: frozenset() for b in cfg.blocks}
        IN[cfg.entry] = frozenset(self.param_defs)
        wl = deque(cfg.blocks.keys())
        inwl = set(wl)
        # process in reverse id order (clang numbers entry highest)
        wl = deque(sorted(cfg.blocks.keys(), reverse=True))
        while wl:
            b = wl.popleft()
            inwl.discard(b)
            if b == cfg.entry:
                i_n = frozenset(self.param_defs)
            else:
                s = set()
                for p in cfg.preds[b]:
                    s |= OUT[p]
                i_n = frozenset(s)
            IN[b] = i_n
            g = gen[b]
            if g:
                o = frozenset([d for d in i_n if self.defs[d][0] not in g] + list(g.values()))
            else:
                o = i_n
            if o != OUT[b]:
                OUT[b] = o
                for s in cfg.succs[b]:
                    if s is not None and s not in inwl:
                        inwl.add(s)
                        wl.append(s)
        self.IN = IN

    def reaching(self, use_node, decl=None):
        """def indices of use_node's variable (or of `decl`) that reach
        use_node"""
        fn = self.fn
        nd = fn.nodes[use_node]
        if decl is None:
            decl = nd["decl"]
        pos = fn.cfg.position(use_node)
        if pos is None:
            return list(self.defs_of[decl])
        b, idx = pos
        cur = [d for d in self.IN[b] if self.defs[d][0] == decl]
        els = fn.cfg.blocks[b]["elems"]
        for j in range(idx):
            e = els[j]
            if e in self.gen_at and self.defs[self.gen_at[e]][0] == decl:
                cur = [self.gen_at[e]]
        return cur

    def unique_def_value(self, use_node):
        """value node of the single definition reaching use_node, provided
        forward substitution is valid: every local mentioned in the value has
        the same reaching definitions at the use as at the definition"""
        key = use_node
        if key in self._udv:
            return self._udv[key]
        r = self.reaching(use_node)
        res = None
        if len(r) == 1:
            decl, node, val = self.defs[r[0]]
            if not (val is None or val == "uninit" or node == "param"):
                fn = self.fn
                ok = True
                seen = set()
                for j in fn.walk(val):
                    nd = fn.nodes[j]
                    if nd["k"] == "DeclRef" and nd["ref"] in ("local", "param") and nd["decl"] not in seen:
                        seen.add(nd["decl"])
                        if set(self.reaching(j)) != set(self.reaching(use_node, nd["decl"])):
                            ok = False
                            break
                if ok:
                    res = val
        self._udv[key] = res
        return res

    def diamond_def(self, use_node):
        """(cond, value_if_true, value_if_false) when exactly two definitions reach the use and they are
        plain assignments forming the two arms of one if / else, with forward substitution valid for
        everything they and the condition mention"""
        fn = self.fn
        r = self.reaching(use_node)
        if len(r) != 2:
            return None
        ds = [self.defs[x] for x in r]
        if any(d[1] == "param" or d[2] in (None, "uninit") or fn.nodes[d[1]]["k"] != "Assign" for d in ds):
            return None

        def arm(node):
            p = fn.parent[node]
            c = node
            if p is not None and fn.nodes[p]["k"] == "Compound" and len([x for x in fn.nodes[p]["ch"] if fn.nodes[x]["k"] != "Absent"]) == 1:
                c, p = p, fn.parent[p]
            if p is not None and fn.nodes[p]["k"] == "If":
                ch = fn.nodes[p]["ch"]
                if len(ch) >= 3 and c == ch[1]:
                    return p, True
                if len(ch) >= 3 and c == ch[2]:
                    return p, False
            return None, None
        (i1, t1), (i2, t2) = arm(ds[0][1]), arm(ds[1][1])
        if i1 is None or i1 != i2 or t1 == t2:
            return None
        cond = fn.nodes[i1]["ch"][0]
        vt, vf = (ds[0][2], ds[1][2]) if t1 else (ds[1][2], ds[0][2])
        decl = ds[0][0]
        for (expr, at) in ((cond, cond), (vt, vt), (vf, vf)):
            seen = set()
            for j in fn.walk(expr):
                nd = fn.nodes[j]
                if nd["k"] in ("Call", "Assign", "CompoundAssign"):
                    return None
                if nd["k"] == "DeclRef" and nd["ref"] in ("local", "param") and nd["decl"] not in seen:
                    seen.add(nd["decl"])
                    if nd["decl"] == decl:
                        return None
                    if set(self.reaching(j)) != set(self.reaching(use_node, nd["decl"])):
                        return None
        return cond, vt, vf

    def def_values(self, use_node):
        """list of (def_node, value_node|None|'uninit'|'param')"""
        out = []
        for d in self.reaching(use_node):
            decl, node, val = self.defs[d]
            out.append((node, val if node != "param" else "param"))
        return out

    def all_defs(self, decl):
        return [self.defs[d] for d in self.defs_of[decl]]


class Program:
    def __init__(self, config="NDEBUG", fixtures=None):
        self.config = config
        self.fixtures = fixtures
        self.paths = build.extract(config, extra_sources=fixtures)
        self.units = {}
        self._fn_index = None
        self._loaded_all = False
        self.records = {}
        self.enums = {}
        self.typedefs = {}
        self.globals = []
        self.protos = []
        self._callers = None
        self._slots = None
        self._pure = {}

    def unit(self, u):
        if u not in self.units:
            if u not in self.paths:
                raise AnalysisIncomplete("unit %s is not part of the build" % u)
            try:
                with open(self.paths[u]) as f:
                    d = json.load(f)
            except (FileNotFoundError, ValueError):
                # the cache entry disappeared under us (a concurrent run pruned it): extract again
                self.paths.update(build.extract(self.config, extra_sources=self.fixtures))
                with open(self.paths[u]) as f:
                    d = json.load(f)
            self.records.update(d["records"])
            self.enums.update(d["enums"])
            self.typedefs.update(d["typedefs"])
            # functions that are new w.r.t. the recorded anchors are presented inside their callers (inline.py)
            from . import inline
            inline.inline_new_functions(u, d, _anchors())
            fns = {}
            for fd in d["functions"]:
                fns[fd["name"]] = Function(fd, u, self)
            d["_fns"] = fns
            self.units[u] = d
        return self.units[u]

    def load_all(self):
        if not self._loaded_all:
            for u in self.paths:
                self.unit(u)
            self._loaded_all = True
            seen = set()
            for u, d in self.units.items():
                for g in d["globals"]:
                    key = (g["name"], g["file"], g.get("infunc"), g["def"])
                    if key in seen:
                        continue
                    seen.add(key)
                    g = dict(g)
                    g["unit"] = u
                    self.globals.append(g)
                for p in d["protos"]:
                    key = (p["name"], p["file"])
                    if key in seen:
                        continue
                    seen.add(key)
                    self.protos.append(p)

    def fn(self, name, unit=None, required=True):
        if unit is not None:
            f = self.unit(unit)["_fns"].get(name)
            if f is None and required:
                raise AnalysisIncomplete("anchor vanished: function %s in %s" % (name, unit))
            return f
        self.load_all()
        idx = self.fn_index
        fs = idx.get(name, [])
        if not fs:
            if required:
                raise AnalysisIncomplete("anchor vanished: function %s" % name)
            return None
        # prefer the definition in a .c file of the repo over header inlines
        fs = sorted(fs, key=lambda f: (f.file.endswith(".h"), f.unit))
        return fs[0]

    @property
    def fn_index(self):
        if self._fn_index is None:
            self.load_all()
            idx = defaultdict(list)
            seen = set()
            for u, d in self.units.items():
                for name, f in d["_fns"].items():
                    key = (name, f.file, f.loc[0])
                    if key in seen:
                        continue
                    seen.add(key)
                    idx[name].append(f)
            self._fn_index = idx
        return self._fn_index

    def functions(self, unit=None, include_headers=True):
        if unit is not None:
            return list(self.unit(unit)["_fns"].values())
        out = []
        for name, fs in self.fn_index.items():
            out.extend(fs)
        return out

    def repo_functions(self, vendored=False):
        out = []
        for f in self.functions():
            if f.unit.startswith("fixture:"):
                continue
            if not vendored and "common_audio/" in f.file:
                continue
            out.append(f)
        return out

    # ---- call graph -------------------------------------------------------
    @property
    def slots(self):
        """(record, field) -> set of function names ever stored there
        (aggregate initialisers of globals and assignments)"""
        if self._slots is None:
            self.load_all()
            sl = defaultdict(set)
            # global initialisers: InitList positions -> record fields
            for g in self.globals:
                init = g.get("init")
                if not init:
                    continue
                self._slots_from_init(init, g, sl)
            for f in self.functions():
                for i, nd in enumerate(f.nodes):
                    if nd["k"] == "Assign":
                        lhs = f.strip(nd["ch"][0])
                        if f.k(lhs) == "Member":
                            r = f.strip(nd["ch"][1])
                            if f.k(r) == "Un" and f.nodes[r]["op"] == "&":
                                r = f.strip(f.nodes[r]["ch"][0])
                            if f.k(r) == "DeclRef" and f.nodes[r]["ref"] == "func":
                                sl[(f.nodes[lhs].get("rec"), f.nodes[lhs]["field"])].add(f.nodes[r]["name"])
                    elif nd["k"] == "InitList":
                        self._slots_from_initlist(f.nodes, i, sl)
            self._slots = sl
        return self._slots

    def _rec_of_type(self, t):
        t = t.replace("const ", "").replace("struct ", "").strip()
        t = re.sub(r"\[.*\]$", "", t).strip()
        if t in self.records:
            return t
        ct = self.typedefs.get(t)
        if ct:
            return self._rec_of_type(ct)
        return None

    def _slots_from_initlist(self, nodes, i, sl):
        nd = nodes[i]
        t = nd.get("ct", nd.get("t", ""))
        rec = self._rec_of_type(t)
        if rec is None:
            return
        fields = self.records[rec]["fields"]
        for pos, c in enumerate(nd["ch"]):
            if pos >= len(fields):
                break
            # strip wrappers
            j = c
            while nodes[j]["k"] in ("Paren", "ICast", "Cast"):
                j = nodes[j]["ch"][0]
            if nodes[j]["k"] == "Un" and nodes[j].get("op") == "&":
                j = nodes[j]["ch"][0]
                while nodes[j]["k"] in ("Paren", "ICast", "Cast"):
                    j = nodes[j]["ch"][0]
            if nodes[j]["k"] == "DeclRef" and nodes[j]["ref"] == "func":
                sl[(rec, fields[pos][0])].add(nodes[j]["name"])

    def _slots_from_init(self, init, g, sl):
        nodes = init["nodes"]
        for i, nd in enumerate(nodes):
            if nd["k"] == "InitList":
                self._slots_from_initlist(nodes, i, sl)

    def callees(self, f, call):
        """names of possible callees of a Call node"""
        nd = f.nodes[call]
        if nd.get("callee"):
            return [nd["callee"]]
        if nd.get("slot"):
            return sorted(self.slots.get(tuple(nd["slot"]), ()))
        return []

    @property
    def callers(self):
        if self._callers is None:
            cs = defaultdict(list)
            for f in self.functions():
                for c in f.calls():
                    for cal in self.callees(f, c):
                        cs[cal].append((f, c))
            self._callers = cs
        return self._callers

    def reachable_functions(self, roots, stop=()):
        """names of functions reachable over direct + slot calls"""
        seen = set()
        dq = deque(r for r in roots)
        while dq:
            n = dq.popleft()
            if n in seen or n in stop:
                continue
            seen.add(n)
            for f in self.fn_index.get(n, []):
                for c in f.calls():
                    for cal in self.callees(f, c):
                        if cal not in seen:
                            dq.append(cal)
        return seen

    # ---- purity ------------------------------------------------------------
    PURE_LIBC = {"strlen", "strcmp", "strncmp", "strchr", "strrchr", "strstr", "abs", "labs", "fabs", "log", "log10", "exp", "pow", "sqrt", "floor", "ceil",
                 "cos", "sin", "atof", "atoi", "strtol", "strtod", "isspace", "isdigit", "toupper", "tolower", "memcmp", "__builtin_expect"}

    def is_pure(self, name, _stack=None):
        """no store to non-local memory and only pure callees (transitively);
        unknown externals are impure"""
        if name in self._pure:
            return self._pure[name]
        if name in self.PURE_LIBC:
            return True
        fs = self.fn_index.get(name)
        if not fs:
            self._pure[name] = False
            return False
        _stack = _stack or set()
        if name in _stack:
            return True
        _stack = _stack | {name}
        f = fs[0]
        ok = True
        for i, nd in enumerate(f.nodes):
            k = nd["k"]
            if k in ("Assign", "CompoundAssign") or (k == "Un" and nd.get("op") in ("post++", "pre++", "post--", "pre--")):
                t = f.strip(nd["ch"][0])
                tn = f.nodes[t]
                if not (tn["k"] == "DeclRef" and tn["ref"] in ("local", "param")):
                    ok = False
                    break
            elif k == "Call":
                cal = nd.get("callee")
                if cal is None or not self.is_pure(cal, _stack):
                    ok = False
                    break
        self._pure[name] = ok
        return ok

    # ---- helper inlining for canonical forms ------------------------------
    def inline_simple(self, caller, call, subst, fold, casts, depth, stack):
        """If the callee is a single-`return expr` function, render expr with
        parameters replaced by the canonical arguments."""
        name = caller.nodes[call]["callee"]
        fs = self.fn_index.get(name)
        if not fs:
            return None
        g = fs[0]
        body = g.nodes[g.root]
        stmts = [c for c in body["ch"]]
        if len(stmts) != 1 or g.k(stmts[0]) != "Return" or not g.ch(stmts[0]):
            return None
        expr = g.canon(g.ch(stmts[0])[0], subst=False, fold=fold, casts=casts)
        args = [caller._canon(a, subst, fold, casts, depth - 1, True, stack) for a in caller.args(call)]
        for (pn, pt, pd, pc), a in zip(g.params, args):
            expr = re.sub(r"(?<![\w.>])%s(?!\w)" % re.escape(pn), lambda m: Function._wrap(a), expr)
        return expr
