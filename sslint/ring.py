"""RING: three-point ring-index lattice.

For a ring with length expression LEN (a record field), cursor fields that
hold an index in [0, LEN) and storage fields indexed by such an index, every
subscript of / strided pointer offset into the storage must use an index
whose abstract value is N:

    N  : in [0, LEN)        N1 : in [0, LEN]        T : unknown

Forward dataflow over the CFG elements (evaluation order), locals only,
with branch refinement for `i < LEN`, `i != LEN`, `i == LEN`.
"""
from collections import deque

N, N1, T = 0, 1, 2
NAMES = {N: "in [0,len)", N1: "in [0,len]", T: "unbounded"}


class RingSpec:
    def __init__(self, name, rec, length, cursors, storages, strided=None, extra_len=None, rows=None):
        """rec: record name; length: field name (or None with extra_len a
        predicate on canonical strings); cursors: field names; storages:
        field names subscripted by element index; strided: {field: stride
        field} for pointer arithmetic storage + idx*stride"""
        self.name = name
        self.rec = rec
        self.length = length
        self.cursors = set(cursors)
        self.storages = set(storages)
        self.strided = strided or {}
        self.extra_len = extra_len
        self.rows = set(rows or ())      # storages offset by whole rows: storage + idx
        self.index_funcs = set()         # functions returning an index in [0, len) (or a negative error value the caller tests)


def _is_field(fn, i, rec, fields):
    j = fn.strip(i)
    nd = fn.nodes[j]
    return nd["k"] == "Member" and nd.get("rec") == rec and nd["field"] in fields


def _is_len(fn, i, spec):
    j = fn.strip(i)
    nd = fn.nodes[j]
    if spec.length is not None and nd["k"] == "Member" and nd.get("rec") == spec.rec and nd["field"] == spec.length:
        return True
    if spec.extra_len is not None:
        return spec.extra_len(fn, j)
    return False


def _cursor_field(fn, i, spec):
    j = fn.strip(i)
    nd = fn.nodes[j]
    if nd["k"] == "Un" and nd.get("op") == "pre++":
        # the value of ++cursor is the cursor's new value
        j = fn.strip(nd["ch"][0])
        nd = fn.nodes[j]
    if nd["k"] == "Member" and nd.get("rec") == spec.rec and nd["field"] in spec.cursors:
        return nd["field"]
    return None


def _local(fn, i):
    j = fn.strip(i)
    nd = fn.nodes[j]
    if nd["k"] == "DeclRef" and nd["ref"] in ("local", "param"):
        return nd["decl"]
    return None


def analyse(fn, spec):
    """returns list of obligations: dict(node, kind, index_node, state)"""
    cfg = fn.cfg
    nodes = fn.nodes

    def join(a, b):
        if a is None:
            return dict(b) if b is not None else None
        if b is None:
            return dict(a)
        r = {}
        for v in set(a) | set(b):
            if str(v).startswith("#nz:"):
                if a.get(v) and b.get(v):
                    r[v] = True
                continue
            if str(v).startswith("#v:"):
                # value of one arm of a conditional expression: known on the paths through that arm only
                r[v] = max(a[v], b[v]) if (v in a and v in b) else (a[v] if v in a else b[v])
                continue
            dflt = N if str(v).startswith("#c:") else T
            r[v] = max(a.get(v, dflt), b.get(v, dflt))
        return r

    def run_block(b, st, collect=None):
        st = dict(st)
        val = {}
        for e in cfg.blocks[b]["elems"]:
            if e < 0:
                continue
            nd = nodes[e]
            k = nd["k"]
            v = T
            if k in ("Paren", "ICast", "Cast"):
                v = val.get(nd["ch"][0], T)
            elif k == "Cond":
                # `c ? a : b`: the arms were evaluated in their own blocks
                arms = [st.get("#v:%d" % x) for x in nd["ch"][1:3]]
                v = max(arms) if all(x is not None for x in arms) else T
            elif k == "Int":
                v = N if nd["v"] == 0 else T
            elif k == "DeclRef":
                if nd["ref"] in ("local", "param"):
                    v = st.get(nd["decl"], T)
            elif k == "Member":
                if nd.get("rec") == spec.rec and nd["field"] in spec.cursors:
                    v = st.get("#c:" + nd["field"], N)
            elif k == "Bin":
                op = nd["op"]
                a, c = nd["ch"]
                if op == "%" and _is_len(fn, c, spec):
                    v = N
                elif op == "-" and _is_len(fn, a, spec) and nodes[fn.strip(c)].get("v") == 1:
                    v = N          # LEN - 1
                elif op == "-" and nodes[fn.strip(c)].get("v") == 1:
                    cf = _cursor_field(fn, a, spec)
                    if cf is not None and st.get("#nz:" + cf) and st.get("#c:" + cf, N) == N:
                        v = N      # cursor - 1 where cursor != 0 is known
                elif op == "+":
                    va, vc = val.get(a, T), val.get(c, T)
                    one_a = nodes[fn.strip(a)].get("v") == 1 and nodes[fn.strip(a)]["k"] == "Int"
                    one_c = nodes[fn.strip(c)].get("v") == 1 and nodes[fn.strip(c)]["k"] == "Int"
                    if va == N and one_c or vc == N and one_a:
                        v = N1
                    if collect is not None:
                        for base, idx in ((a, c), (c, a)):
                            bj = fn.strip(base)
                            if nodes[bj]["k"] == "Member" and nodes[bj].get("rec") == spec.rec and nodes[bj]["field"] in spec.rows:
                                collect.append({"node": e, "kind": "row-offset", "index": idx, "state": val.get(idx, T), "storage": nodes[bj]["field"]})
                    # pointer + index*stride into strided storage
                    if collect is not None:
                        for base, idx in ((a, c), (c, a)):
                            bj = fn.strip(base)
                            if nodes[bj]["k"] == "Member" and nodes[bj].get("rec") == spec.rec and nodes[bj]["field"] in spec.strided:
                                stride = spec.strided[nodes[bj]["field"]]
                                ij = fn.strip(idx)
                                if nodes[ij]["k"] == "Bin" and nodes[ij]["op"] == "*":
                                    x, y = nodes[ij]["ch"]
                                    if _is_field(fn, y, spec.rec, {stride}):
                                        collect.append({"node": e, "kind": "offset", "index": x, "state": val.get(x, T), "storage": nodes[bj]["field"]})
                                    elif _is_field(fn, x, spec.rec, {stride}):
                                        collect.append({"node": e, "kind": "offset", "index": y, "state": val.get(y, T), "storage": nodes[bj]["field"]})
                                    else:
                                        collect.append({"node": e, "kind": "offset-nostride", "index": idx, "state": T, "storage": nodes[bj]["field"]})
                                else:
                                    collect.append({"node": e, "kind": "offset-raw", "index": idx, "state": val.get(idx, T), "storage": nodes[bj]["field"], "raw": True})
            elif k == "Call":
                if nd.get("callee") in spec.index_funcs:
                    v = N
            elif k == "Assign":
                d = _local(fn, nd["ch"][0])
                v = val.get(nd["ch"][1], T)
                cf = _cursor_field(fn, nd["ch"][0], spec)
                if d is not None and nodes[fn.strip(nd["ch"][0])]["k"] == "DeclRef":
                    st[d] = v
                elif cf is not None:
                    st["#c:" + cf] = v
                    st.pop("#nz:" + cf, None)
            elif k == "CompoundAssign":
                d = _local(fn, nd["ch"][0])
                cf = _cursor_field(fn, nd["ch"][0], spec)
                wrap = nd["op"] == "%=" and _is_len(fn, nd["ch"][1], spec)
                rj = nodes[fn.strip(nd["ch"][1])]
                inc1 = nd["op"] == "+=" and rj["k"] == "Int" and rj.get("v") == 1      # x += 1 is x++
                if d is not None and nodes[fn.strip(nd["ch"][0])]["k"] == "DeclRef":
                    st[d] = N if wrap else ((N1 if st.get(d, T) == N else T) if inc1 else T)
                    v = st[d]
                elif cf is not None:
                    st["#c:" + cf] = N if wrap else ((N1 if st.get("#c:" + cf, N) == N else T) if inc1 else T)
                    v = st["#c:" + cf]
                    st.pop("#nz:" + cf, None)
                    if collect is not None and not wrap and not inc1:
                        collect.append({"node": e, "kind": "cursor-advance", "index": e, "state": T, "storage": cf})
            elif k == "Var":
                if nd["ch"]:
                    st[nd["decl"]] = val.get(nd["ch"][0], T)
                else:
                    st[nd["decl"]] = T
                v = st[nd["decl"]]
            elif k == "Decl":
                for c in nd["ch"]:
                    vn = nodes[c]
                    if vn["k"] == "Var":
                        st[vn["decl"]] = val.get(vn["ch"][0], T) if vn["ch"] else T
            elif k == "Un":
                op = nd["op"]
                d = _local(fn, nd["ch"][0])
                isvar = d is not None and nodes[fn.strip(nd["ch"][0])]["k"] == "DeclRef"
                cf = _cursor_field(fn, nd["ch"][0], spec)
                if cf is not None and op in ("post++", "pre++"):
                    old = st.get("#c:" + cf, N)
                    new = N1 if old == N else T
                    st["#c:" + cf] = new
                    st.pop("#nz:" + cf, None)
                    v = old if op == "post++" else new
                elif op in ("post++", "pre++") and isvar:
                    old = st.get(d, T)
                    new = N1 if old == N else T
                    st[d] = new
                    v = old if op == "post++" else new
                elif op in ("post--", "pre--") and isvar:
                    st[d] = T
                    v = T
            elif k == "Subscript":
                base, idx = nd["ch"]
                bj = fn.strip(base)
                if collect is not None and nodes[bj]["k"] == "Member" and nodes[bj].get("rec") == spec.rec and nodes[bj]["field"] in spec.strided:
                    # buf[index * stride] is buf + index * stride
                    stride = spec.strided[nodes[bj]["field"]]
                    ij = fn.strip(idx)
                    if nodes[ij]["k"] == "Bin" and nodes[ij]["op"] == "*":
                        x, y = nodes[ij]["ch"]
                        if _is_field(fn, y, spec.rec, {stride}):
                            collect.append({"node": e, "kind": "offset", "index": x, "state": val.get(x, T), "storage": nodes[bj]["field"]})
                        elif _is_field(fn, x, spec.rec, {stride}):
                            collect.append({"node": e, "kind": "offset", "index": y, "state": val.get(y, T), "storage": nodes[bj]["field"]})
                        else:
                            collect.append({"node": e, "kind": "offset-nostride", "index": idx, "state": T, "storage": nodes[bj]["field"]})
                    else:
                        collect.append({"node": e, "kind": "offset-raw", "index": idx, "state": val.get(idx, T), "storage": nodes[bj]["field"], "raw": True})
                elif _is_field(fn, base, spec.rec, spec.storages | spec.rows):
                    if collect is not None:
                        collect.append({"node": e, "kind": "subscript", "index": idx, "state": val.get(idx, T), "storage": nodes[fn.strip(base)]["field"]})
            val[e] = v
            pe = fn.parent[e]
            if pe is not None and nodes[pe]["k"] == "Cond" and e in nodes[pe]["ch"][1:3]:
                st["#v:%d" % e] = v
        return st

    def refine(st, cond, pol):
        """state on the edge where `cond` evaluated to pol"""
        j = fn.strip(cond)
        nd = nodes[j]
        if nd["k"] == "Un" and nd["op"] == "!":
            return refine(st, nd["ch"][0], not pol)
        if nd["k"] != "Bin":
            return st
        op = nd["op"]
        a, c = nd["ch"]
        # normalise to var OP len
        if _is_len(fn, a, spec) and _local(fn, c) is not None:
            a, c = c, a
            op = {"<": ">", ">": "<", "<=": ">=", ">=": "<="}.get(op, op)
        d = _local(fn, a)
        cf = _cursor_field(fn, a, spec)
        # cursor == 0 / != 0
        if cf is not None and nodes[fn.strip(c)].get("v") == 0 and nodes[fn.strip(c)]["k"] == "Int" and op in ("==", "!="):
            st = dict(st)
            if (op == "!=" and pol) or (op == "==" and not pol):
                st["#nz:" + cf] = True
            return st
        if d is None and cf is not None and _is_len(fn, c, spec):
            d = "#c:" + cf
        # grow guard: (var + X) >= LEN false  /  (var + X) < LEN true  (X >= 0 assumed)
        if d is None and _is_len(fn, c, spec):
            aj = fn.strip(a)
            if nodes[aj]["k"] == "Bin" and nodes[aj]["op"] == "+":
                for side in nodes[aj]["ch"]:
                    dd = _local(fn, side)
                    if dd is not None and ((op in (">=", ">") and not pol) or (op in ("<", "<=") and pol)):
                        st = dict(st)
                        st[dd] = N
                        return st
        if d is None or not _is_len(fn, c, spec):
            return st
        cur = st.get(d, T if not str(d).startswith("#c:") else N)
        st = dict(st)
        if (op == "<" and pol) or (op == ">=" and not pol):
            if cur in (N, N1):
                st[d] = N
        elif (op == "!=" and pol) or (op == "==" and not pol):
            if cur == N1:
                st[d] = N
        return st

    IN = {b: None for b in cfg.blocks}
    IN[cfg.entry] = {}
    wl = deque([cfg.entry])
    edge_cond = {}
    for (s, d, c, pol) in cfg.cond_edges():
        edge_cond.setdefault((s, d), []).append((c, pol))
    iters = 0
    while wl:
        b = wl.popleft()
        iters += 1
        if iters > 20000:
            break
        if IN[b] is None:
            continue
        out = run_block(b, IN[b])
        ss = cfg.succs[b]
        for s in ss:
            if s is None:
                continue
            o = out
            conds = edge_cond.get((b, s), [])
            # when both successors are the same block no refinement applies
            if len(conds) == 1:
                o = refine(out, conds[0][0], conds[0][1])
            new = join(IN[s], o)
            if new != IN[s]:
                IN[s] = new
                wl.append(s)
    obligations = []
    for b in cfg.blocks:
        if IN[b] is None:
            continue
        out = run_block(b, IN[b], obligations)
        if cfg.exit in cfg.succs[b]:
            for k_, v_ in out.items():
                if str(k_).startswith("#c:") and v_ != N:
                    obligations.append({"node": cfg.blocks[b]["elems"][-1] if cfg.blocks[b]["elems"] else fn.root, "kind": "cursor-exit", "index": fn.root, "state": v_, "storage": k_[3:]})
    return obligations


def cursor_stores(fn, spec):
    """stores to cursor fields: list of (assign_node, field, rhs_node)"""
    out = []
    for i, nd in enumerate(fn.nodes):
        if nd["k"] in ("Assign", "CompoundAssign"):
            l = fn.strip(nd["ch"][0])
            ln = fn.nodes[l]
            if ln["k"] == "Member" and ln.get("rec") == spec.rec and ln["field"] in spec.cursors:
                out.append((i, ln["field"], nd["ch"][1], nd["k"]))
        elif nd["k"] == "Un" and nd["op"] in ("post++", "pre++", "post--", "pre--"):
            l = fn.strip(nd["ch"][0])
            ln = fn.nodes[l]
            if ln["k"] == "Member" and ln.get("rec") == spec.rec and ln["field"] in spec.cursors:
                out.append((i, ln["field"], None, nd["op"]))
    return out


# ---- region operations (memcpy / memmove into ring storage) -------------------
from . import lin


def ptr_decomp(fn, i, rec, storages, depth=4):
    """pointer expression -> (storage field, offset polynomial in elements,
    hook-tagged) or None.  Follows unique reaching definitions of locals."""
    j = fn.strip(i)
    nd = fn.nodes[j]
    k = nd["k"]
    if k == "Member" and nd.get("rec") == rec and nd["field"] in storages:
        return (nd["field"], {})
    if k == "DeclRef" and nd["ref"] in ("local", "param") and depth > 0 and nd["decl"] not in fn.addr_taken:
        v = fn.rd.unique_def_value(j)
        if v is not None:
            return ptr_decomp(fn, v, rec, storages, depth - 1)
        return None
    if k == "Bin" and nd["op"] in ("+", "-"):
        a, b = nd["ch"]
        da = ptr_decomp(fn, a, rec, storages, depth)
        if da is not None:
            return (da[0], lin.p_add(da[1], _tagged_poly(fn, b), 1 if nd["op"] == "+" else -1))
        if nd["op"] == "+":
            db = ptr_decomp(fn, b, rec, storages, depth)
            if db is not None:
                return (db[0], lin.p_add(db[1], _tagged_poly(fn, a)))
    if k == "Un" and nd["op"] == "&":
        s = fn.strip(nd["ch"][0])
        if fn.nodes[s]["k"] == "Subscript":
            base, idx = fn.nodes[s]["ch"]
            d = ptr_decomp(fn, base, rec, storages, depth)
            if d is not None:
                return (d[0], lin.p_add(d[1], _tagged_poly(fn, idx)))
    return None


_SPEC = [None]


def _hook(fn, i):
    spec = _SPEC[0]
    j = fn.strip(i)
    nd = fn.nodes[j]
    if nd["k"] == "Member" and nd.get("rec") == spec.rec:
        if nd["field"] in spec.cursors:
            return lin.p_atom("#N:" + fn.canon(j, subst=False))
        if nd["field"] == spec.length:
            return lin.p_atom("#LEN")
    if nd["k"] == "Bin" and nd["op"] == "%" and _is_len(fn, nd["ch"][1], spec):
        return lin.p_atom("#N:" + fn.canon(j))
    return None


def _tagged_poly(fn, i):
    return lin.poly(fn, i, atom_hook=_hook)


def region_ops(fn, spec, elem_bytes, capacity):
    """memcpy/memmove/memset calls touching the ring storage.
    elem_bytes: {field: bytes}; capacity: {field: polynomial in elements}.
    Yields dict(call, role, field, off, count, D) where D = capacity - off -
    count (elements) after the N-atom substitution, and ok = D provably >= 0."""
    _SPEC[0] = spec
    out = []
    for call in fn.calls({"memcpy", "memmove", "memset"}):
        args = fn.args(call)
        name = fn.nodes[call]["callee"]
        lenp = _tagged_poly(fn, args[2])
        ptrs = [("dst", args[0])]
        if name != "memset":
            ptrs.append(("src", args[1]))
        for role, a in ptrs:
            d = ptr_decomp(fn, a, spec.rec, set(elem_bytes))
            if d is None:
                continue
            field, off = d
            eb = elem_bytes[field]
            if any(c % eb for c in lenp.values()):
                out.append({"call": call, "role": role, "field": field, "ok": False, "why": "length %s is not a multiple of the element size %d" % (lin.p_str(lenp), eb)})
                continue
            count = {m: c // eb for m, c in lenp.items()}
            D = lin.p_add(lin.p_add(capacity[field], off, -1), count, -1)
            out.append({"call": call, "role": role, "field": field, "off": off, "count": count, "D": D})
    return out


def region_nonneg(D, bounds=()):
    """decide D >= 0: substitute LEN := X + 1 + q for the single N-atom X in
    D (X < LEN), then big := small + r for each (small, big) bound, then all
    coefficients must be non-negative."""
    natoms = sorted(a for a in lin.p_atoms(D) if a.startswith("#N:"))
    P = dict(D)
    if "#LEN" in lin.p_atoms(P) and natoms:
        if len(natoms) > 1:
            return False, "two ring indices in one bound: %s" % natoms
        P = lin.p_subst(P, "#LEN", lin.p_add(lin.p_add(lin.p_atom(natoms[0]), lin.p_const(1)), lin.p_atom("#q")))
    for k, (small, big) in enumerate(bounds):
        if big in lin.p_atoms(P):
            P = lin.p_subst(P, big, lin.p_add(lin.p_atom(small), lin.p_atom("#r%d" % k)))
    return lin.p_nonneg(P), lin.p_str(P)
